"""Confirm a seeded change and run the checks against it.

usage: seedcheck.py <worktree> <change_dir> <seed_id> [props...]
  1. in the scratch worktree: apply patch, run the test-suite (must be 70 passed), run demo.py (must fail), revert, run
     demo.py (must pass)
  2. apply the patch to /repo, run `eqlvc check <prop>` for the given properties (default: the property in meta.json),
     revert /repo
  3. store patch.diff, demo.py, meta.json (+ what was run and the verdicts) under /verif/seeded/<seed_id>/
"""
import json
import os
import shutil
import subprocess
import sys

ROOT = os.path.dirname(os.path.dirname(os.path.abspath(__file__)))


def sh(cmd, cwd=None, env=None, timeout=1800):
    r = subprocess.run(cmd, shell=True, cwd=cwd, env=env, capture_output=True, text=True, timeout=timeout)
    return r.returncode, (r.stdout + r.stderr)


def main():
    argv = [a for a in sys.argv[1:] if a != '--confirm-only']
    confirm_only = '--confirm-only' in sys.argv      # the checks are then run by tools/reseed.py on a scratch copy
    wt, cdir, sid = argv[0:3]
    props = argv[3:]
    meta = json.load(open(os.path.join(cdir, 'meta.json')))
    props = props or [meta['property']]
    patch = os.path.abspath(os.path.join(cdir, 'patch.diff'))
    demo = os.path.abspath(os.path.join(cdir, 'demo.py'))
    env = dict(os.environ, PYTHONPATH=os.path.join(wt, 'src'))
    ran = {}
    sh("git checkout -- src", cwd=wt)
    rc, out = sh(f"git apply {patch}", cwd=wt)
    assert rc == 0, out
    rc, out = sh("/venv/bin/python -m pytest -q -p no:cacheprovider --timeout=900 test 2>&1 | tail -3", cwd=wt, env=env)
    ran['tests_with_change'] = out.strip().splitlines()[-1]
    tests_ok = '70 passed' in out
    rc_demo_with, out = sh(f"/venv/bin/python {demo}", cwd=wt, env=env, timeout=600)
    ran['demo_with_change'] = f"exit {rc_demo_with}: " + out.strip()[-300:]
    sh("git checkout -- src", cwd=wt)
    rc_demo_without, out = sh(f"/venv/bin/python {demo}", cwd=wt, env=env, timeout=600)
    ran['demo_without_change'] = f"exit {rc_demo_without}: " + out.strip()[-200:]
    confirmed = tests_ok and rc_demo_with != 0 and rc_demo_without == 0
    print(f"[{sid}] confirmed={confirmed} tests_ok={tests_ok} demo_with={rc_demo_with} demo_without={rc_demo_without}")
    verdicts = {}
    if confirmed and not confirm_only:
        rc, out = sh(f"git -C /repo apply {patch}")
        assert rc == 0, out
        try:
            for p in props:
                rc, out = sh(f"python3-vt -m eqlvc check {p}", cwd=ROOT, timeout=3600)
                lines = [l for l in out.splitlines() if l.startswith(('VIOLATION', 'UNDECIDED', 'KNOWN-FINDING', 'property=', 'CHECKER'))]
                verdicts[p] = {'exit': rc, 'lines': lines[:12]}
                print(f"   check {p}: exit {rc}")
                for l in lines[:8]:
                    print("      " + l[:260])
        finally:
            sh("git -C /repo checkout -- .")
    dst = os.path.join(ROOT, 'seeded', sid)
    os.makedirs(dst, exist_ok=True)
    shutil.copy(patch, os.path.join(dst, 'patch.diff'))
    shutil.copy(demo, os.path.join(dst, 'demo.py'))
    meta['confirmed'] = confirmed
    meta['what_was_run'] = ran
    meta['checks'] = verdicts
    meta['detected'] = any(v['exit'] == 1 for v in verdicts.values())
    json.dump(meta, open(os.path.join(dst, 'meta.json'), 'w'), indent=1)


main()
