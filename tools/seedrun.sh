#!/bin/sh
# usage: seedrun.sh <seed-id> [prop]   : apply a stored seeded change to /repo, run the property check, revert
sd=$1; prop=${2:-${sd%-*}}
git -C /repo apply /verif/seeded/$sd/patch.diff || exit 9
python3-vt -m eqlvc check $prop 2>&1 | grep -E "^(VIOL|UNDEC|prop|KNOWN|CHECK)" | cut -c1-260 | head -6
echo "  -> $sd exit=$?"
git -C /repo checkout -- .
