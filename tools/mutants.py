"""Systematic mutation pass over the functions under contract (developer tool, complements the agent-written seeds).

For every function a contract names, small AST mutants are generated (negated `if` tests, and/or swapped, comparison
operators replaced, a statement deleted, True/False flipped, continue/break dropped, left/right swapped).  Each mutant is
written into a scratch copy of the package; if the library's own test-suite still reports 70 passed it is a SURVIVOR of the
tests, and the registered quick checks of the properties the function's contracts serve are run on it.  A survivor that no
check reports is either an equivalent mutant or a gap: both are listed for triage (mutants.json).

usage: mutants.py [--jobs N] [--max-per-func K] [--only <substring of module:Qual>] [--props]
"""
import ast
import copy
import json
import os
import random
import shutil
import subprocess
import sys
import tempfile
from concurrent.futures import ThreadPoolExecutor

ROOT = os.path.dirname(os.path.dirname(os.path.abspath(__file__)))
REPO = os.environ.get('EQL_REPO', '/repo')
sys.path.insert(0, ROOT)

CMP_SWAP = {ast.Eq: ast.NotEq, ast.NotEq: ast.Eq, ast.Lt: ast.LtE, ast.LtE: ast.Lt, ast.Gt: ast.GtE, ast.GtE: ast.Gt,
            ast.Is: ast.IsNot, ast.IsNot: ast.Is, ast.In: ast.NotIn, ast.NotIn: ast.In}
SKIP_CALLS = ('logger', 'warn', 'print')


def own_nodes(fd):
    stack = list(ast.iter_child_nodes(fd))
    while stack:
        x = stack.pop()
        yield x
        if isinstance(x, (ast.FunctionDef, ast.AsyncFunctionDef, ast.Lambda, ast.ClassDef)):
            continue
        stack.extend(ast.iter_child_nodes(x))


def mutation_sites(fd):
    """(kind, path-index) for every site; the index is the position in a deterministic walk"""
    sites = []
    for i, n in enumerate(list(own_nodes(fd))):
        if isinstance(n, ast.If):
            sites.append(('negate-if', i))
        if isinstance(n, ast.BoolOp):
            sites.append(('and-or', i))
        if isinstance(n, ast.Compare) and len(n.ops) == 1 and type(n.ops[0]) in CMP_SWAP:
            sites.append(('cmp', i))
        if isinstance(n, ast.UnaryOp) and isinstance(n.op, ast.Not):
            sites.append(('drop-not', i))
        if isinstance(n, ast.Constant) and isinstance(n.value, bool):
            sites.append(('flip-bool', i))
        if isinstance(n, (ast.Continue, ast.Break)):
            sites.append(('drop-jump', i))
        if isinstance(n, (ast.Expr, ast.Assign, ast.AugAssign)) and not (isinstance(n, ast.Expr) and isinstance(n.value, ast.Constant)):
            src = ast.unparse(n)
            if not any(k in src for k in SKIP_CALLS) and not isinstance(getattr(n, 'value', None), (ast.Yield, ast.YieldFrom)):
                sites.append(('delete-stmt', i))
        if isinstance(n, ast.Attribute) and n.attr in ('left', 'right') and isinstance(n.ctx, ast.Load):
            sites.append(('left-right', i))
    return sites


def apply_mutation(fd, kind, idx):
    fd = copy.deepcopy(fd)
    n = list(own_nodes(fd))[idx]
    if kind == 'negate-if':
        n.test = ast.UnaryOp(op=ast.Not(), operand=n.test)
    elif kind == 'and-or':
        n.op = ast.Or() if isinstance(n.op, ast.And) else ast.And()
    elif kind == 'cmp':
        n.ops = [CMP_SWAP[type(n.ops[0])]()]
    elif kind == 'drop-not':
        # replace `not e` by `e` in place: turn the node into a no-op double negation is not possible, so rewrite fields
        n.op = ast.UAdd() if False else n.op
        inner = n.operand
        n.__class__ = ast.Call
        n.__dict__.clear()
        n.func, n.args, n.keywords = ast.Name(id='bool', ctx=ast.Load()), [inner], []
    elif kind == 'flip-bool':
        n.value = not n.value
    elif kind == 'drop-jump' or kind == 'delete-stmt':
        n.__class__ = ast.Pass
        n.__dict__.clear()
    elif kind == 'left-right':
        n.attr = 'right' if n.attr == 'left' else 'left'
    ast.fix_missing_locations(fd)
    return fd


def functions_under_contract():
    import contracts.registry as reg
    out = {}
    for c in reg.all_contracts():
        if isinstance(c.qual, str):
            out.setdefault(c.qual, set()).update(c.props)
    return out


def replace_function(text, fd_old, fd_new_src):
    lines = text.splitlines(keepends=True)
    start = (fd_old.decorator_list[0].lineno if fd_old.decorator_list else fd_old.lineno) - 1
    end = fd_old.end_lineno
    indent = ' ' * fd_old.col_offset
    new = ''.join(indent + l + '\n' for l in fd_new_src.splitlines())
    return ''.join(lines[:start]) + new + ''.join(lines[end:])


def run_one(job):
    qual, kind, idx, props, run_props = job
    from eqlvc.source import SourceIndex
    d = tempfile.mkdtemp(prefix='eqlmutant_')
    try:
        shutil.copytree(os.path.join(REPO, 'src'), os.path.join(d, 'src'), ignore=shutil.ignore_patterns('__pycache__', '*.egg-info'))
        shutil.copytree(os.path.join(REPO, 'test'), os.path.join(d, 'test'), ignore=shutil.ignore_patterns('__pycache__'))
        src = SourceIndex(os.path.join(d, 'src', 'entity_query_language'))
        fd = src.get(qual)
        module = qual.split(':')[0]
        try:
            new_fd = apply_mutation(fd, kind, idx)
            new_src = ast.unparse(new_fd)
        except Exception as e:  # noqa
            return dict(qual=qual, kind=kind, idx=idx, status='mutation-error', error=repr(e))
        p = os.path.join(d, 'src', 'entity_query_language', module + '.py')
        text = open(p).read()
        open(p, 'w').write(replace_function(text, fd, new_src))
        line = fd.lineno
        try:
            ast.parse(open(p).read())
        except SyntaxError as e:
            return dict(qual=qual, kind=kind, idx=idx, status='syntax-error', error=str(e))
        r = subprocess.run(['/venv/bin/python', '-m', 'pytest', '-q', '-x', '-p', 'no:cacheprovider', '--timeout=120', 'test',
                            '--deselect', 'test/test_rendering.py'],
                           cwd=d, env=dict(os.environ, PYTHONPATH=os.path.join(d, 'src')), capture_output=True, text=True, timeout=900)
        tail = (r.stdout.strip().splitlines() or [''])[-1]
        if '70 passed' not in tail or 'failed' in tail or 'error' in tail:
            return dict(qual=qual, kind=kind, idx=idx, status='killed-by-tests', tests=tail[-80:])
        verdicts = {}
        if run_props:
            for prop in sorted(props):
                env = dict(os.environ, EQL_REPO=d, EQLVC_OUT=os.path.join(d, 'out'))
                c = subprocess.run(['python3-vt', '-m', 'eqlvc', 'check', prop], cwd=ROOT, env=env, capture_output=True, text=True, timeout=3600)
                verdicts[prop] = c.returncode
                if c.returncode == 1:
                    break
        detected = any(v == 1 for v in verdicts.values())
        new_lines = ast.unparse(list(own_nodes(new_fd))[idx]) if kind not in ('delete-stmt', 'drop-jump') else '<deleted>'
        return dict(qual=qual, kind=kind, idx=idx, status='detected' if detected else 'SURVIVED', verdicts=verdicts,
                    original=ast.unparse(list(own_nodes(fd))[idx])[:160], mutated=new_lines[:160], at=f"L{list(own_nodes(fd))[idx].lineno}")
    except subprocess.TimeoutExpired:
        return dict(qual=qual, kind=kind, idx=idx, status='timeout')
    finally:
        shutil.rmtree(d, ignore_errors=True)


def main():
    args = sys.argv[1:]
    jobs, kmax, only, seed = 4, 6, None, 1
    while args:
        a = args.pop(0)
        if a == '--jobs':
            jobs = int(args.pop(0))
        elif a == '--max-per-func':
            kmax = int(args.pop(0))
        elif a == '--only':
            only = args.pop(0)
        elif a == '--seed':
            seed = int(args.pop(0))
    from eqlvc.source import SourceIndex
    src = SourceIndex()
    rng = random.Random(seed)
    work = []
    for qual, props in sorted(functions_under_contract().items()):
        if only and only not in qual:
            continue
        fd = src.get(qual)
        if fd is None:
            continue
        sites = mutation_sites(fd)
        rng.shuffle(sites)
        for kind, idx in sites[:kmax]:
            work.append((qual, kind, idx, props, True))
    print(f"{len(work)} mutants", flush=True)
    out_p = os.path.join(ROOT, 'tools', 'mutants.json')
    results = []
    with ThreadPoolExecutor(jobs) as ex:
        for r in ex.map(run_one, work):
            results.append(r)
            if r['status'] in ('SURVIVED', 'detected'):
                print(f"[{r['status']}] {r['qual']} {r['kind']} {r.get('at')} :: {r.get('original')} -> {r.get('mutated')} {r.get('verdicts')}", flush=True)
            json.dump(results, open(out_p, 'w'), indent=1)
    import collections
    print(collections.Counter(r['status'] for r in results))


if __name__ == '__main__':
    main()
