"""Developer tool: apply a textual mutation to a scratch copy of the package and run one contract on it.
usage: mutcheck.py <ContractClass> <module> <old> <new> [modes...]"""
import sys, os, shutil, tempfile, collections
sys.path.insert(0, '/verif')
from eqlvc.source import SourceIndex, PKG
from eqlvc.runner import run_contract
import contracts.registry as reg


def main():
    cname, module, old, new = sys.argv[1:5]
    modes = sys.argv[5:] or None
    d = tempfile.mkdtemp(prefix='eqlmut_')
    try:
        pkg = os.path.join(d, 'pkg')
        shutil.copytree(PKG, pkg)
        p = os.path.join(pkg, module + '.py')
        s = open(p).read()
        assert s.count(old) >= 1, f"pattern not found: {old!r}"
        open(p, 'w').write(s.replace(old, new, 1))
        src = SourceIndex(pkg)
        cls = reg.by_name(cname)
        for mode in (modes or cls.modes):
            c = cls(src)
            res, info = run_contract(c, src, mode, keep_models=True)
            bad = collections.Counter(r['name'] for r in res if r['status'] not in ('discharged', 'cover-ok'))
            print(mode, info['status'], info.get('reason', ''), 'obligations', len(res), 'FAILED:' if bad else 'all ok', dict(bad))
    finally:
        shutil.rmtree(d)


main()
