#!/bin/sh
# usage: round.sh <out-dir> <worktree-prefix> <round> <id-offset> PROP...   : confirm the two changes each agent left in
# <out-dir>/<PROP>-1,-2 (suite still green, demo fails with / passes without), store them as seeded/<PROP>-<k+offset>,
# remove the worktrees, run the checks of the new seeds
out=$1; wt=$2; round=$3; off=$4; shift 4
ids=""
for p in "$@"; do
  for k in 1 2; do
    n=$((k+off))
    [ -f $out/$p-$k/meta.json ] || { echo "missing $out/$p-$k"; continue; }
    git -C ${wt}$p checkout -- . 2>/dev/null
    python3-vt - <<PY
import json
m=json.load(open('$out/$p-$k/meta.json')); m['round']=$round
json.dump(m,open('$out/$p-$k/meta.json','w'),indent=1)
PY
    python3-vt /verif/tools/seedcheck.py --confirm-only ${wt}$p $out/$p-$k $p-$n && ids="$ids $p-$n"
  done
  git -C /repo worktree remove --force ${wt}$p 2>/dev/null
done
git -C /repo worktree prune
cd /verif && python3-vt tools/reseed.py --jobs 4 $ids 2>&1 | grep -v "^      property=" | cut -c1-210
