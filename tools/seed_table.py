"""Regenerates the table of seeded changes in DESIGN.md (between the SEEDED-TABLE markers) from seeded/*/meta.json."""
import json, os, re
ROOT = os.path.dirname(os.path.dirname(os.path.abspath(__file__)))
rows = []
for sid in sorted(os.listdir(os.path.join(ROOT, 'seeded'))):
    mp = os.path.join(ROOT, 'seeded', sid, 'meta.json')
    if not os.path.exists(mp):
        continue
    m = json.load(open(mp))
    where = ', '.join(os.path.basename(f) for f in m.get('files_touched', []))
    summ = re.sub(r'\s+', ' ', m.get('summary', '')).strip()
    summ = summ[:150] + ('…' if len(summ) > 150 else '')
    if m.get('superseded'):
        rows.append(f"| {sid} | {m['property']} | {where} | {summ} | superseded | no longer breaks the property on the current tree (see meta.json) |")
        continue
    for prop, v in m.get('checks', {}).items():
        names = []
        for l in v.get('lines', []):
            if l.startswith('VIOLATION'):
                b = l.split('replay=')[-1].split()[0].split('/')[-1].replace('.json', '')
                names.append(b)
        ded = [n for n in names if not n.startswith(('oracle_', 'standin', 'C20_cache'))]
        sta = [n for n in names if n.startswith(('oracle_', 'standin', 'C20_cache'))]
        verdict = {1: 'VIOLATION', 0: 'missed (exit 0)', 2: 'undecided (exit 2)'}.get(v['exit'], f"exit {v['exit']}")
        how = []
        if ded:
            how.append('deductive: ' + '; '.join(sorted(set(re.sub(r'^(symbolic|predicate|rule|cache_data|hashed_data|conclusion_selector|entity)\.', '', d)[:70] for d in ded))[:2]))
        if sta:
            how.append('bounded stand-in')
        rows.append(f"| {sid} | {prop} | {where} | {summ} | {verdict} | {' + '.join(how) if how else '-'} |")
table = ["| seed | check | file | change | verdict | failing obligation(s) |", "|---|---|---|---|---|---|"] + rows
p = os.path.join(ROOT, 'DESIGN.md')
s = open(p).read()
a, b = '<!-- SEEDED-TABLE-BEGIN -->', '<!-- SEEDED-TABLE-END -->'
if a in s and b in s:
    s = s[:s.index(a) + len(a)] + '\n' + '\n'.join(table) + '\n' + s[s.index(b):]
    open(p, 'w').write(s)
    print(f"{len(rows)} rows written")
else:
    print('\n'.join(table))
