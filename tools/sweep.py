"""Large random sweep of every bounded stand-in family on the current tree (native, 16 processes): used to flush out rare
failures before they show up under some VERIF_SEED.  usage (with /venv/bin/python, PYTHONPATH=<repo>/src):
    sweep.py <cases-per-family> [base-seed] [property ...]"""
import json
import multiprocessing as mp
import os
import sys

ROOT = os.path.dirname(os.path.dirname(os.path.abspath(__file__)))
sys.path.insert(0, os.path.join(ROOT, 'replay'))


def work(a):
    import probes
    fam, lo, hi = a
    out = []
    for s in range(lo, hi):
        try:
            d = probes.run_case(dict(fam, seed=s))
        except Exception as e:  # noqa
            d = {'exception': repr(e), 'signature_kind': 'harness-exception'}
        if d:
            out.append((s, d.get('signature_kind', ''), d))
    return out


def main():
    n = int(sys.argv[1])
    base = int(sys.argv[2]) if len(sys.argv) > 2 else 5000000
    only = sys.argv[3:]
    fams = json.load(open(os.path.join(ROOT, 'tools', 'families.json')))
    with mp.Pool(16) as pool:
        for prop, label, fam in fams:
            if only and prop not in only:
                continue
            chunks = [(fam, base + i * n // 16, base + (i + 1) * n // 16) for i in range(16)]
            res = [x for r in pool.map(work, chunks) for x in r]
            kinds = {}
            for s, k, d in res:
                kinds.setdefault(k, []).append(s)
            print(f"{prop} {label[:70]:70s} fails {len(res):5d} of {n}  " + ' '.join(f"[{k or '-'}: {len(v)} e.g. seed {v[0]}]" for k, v in kinds.items()), flush=True)


if __name__ == '__main__':
    main()
