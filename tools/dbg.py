"""Developer tool: run one contract/mode serially and print the paths of failed obligations."""
import sys, os
sys.path.insert(0, os.path.dirname(os.path.dirname(os.path.abspath(__file__))))
from eqlvc.runner import run_contract
from eqlvc.source import SourceIndex
import contracts.registry as reg
name, mode = sys.argv[1], sys.argv[2]
pat = sys.argv[3] if len(sys.argv) > 3 else ''
src = SourceIndex()
rs, info = run_contract(reg.by_name(name)(src), src, mode, keep_models=True)
print(info.get('status'), info.get('reason'))
for r in rs:
    if r['status'] not in ('discharged', 'cover-ok') and pat in r['name']:
        print(r['status'], r['name'], r.get('path'), r.get('signature'))
import z3
from eqlvc import runner
if os.environ.get('DBG_CONJ'):
    for i, r in enumerate(rs):
        if r['status'] == 'failed' and pat in r['name']:
            ob = runner._OBS[i]
            st, dt, model, s = runner.solve(ob) if hasattr(runner, 'solve') else (None,)*4
            concl = ob.concl if hasattr(ob, 'concl') else ob.goal
            cs = concl.children() if z3.is_and(concl) else [concl]
            print('==', r['name'], r.get('path'))
            for c_ in cs:
                v = model.eval(c_, model_completion=True)
                if not z3.is_true(v):
                    print('   FALSE conjunct:', str(c_)[:700])
if os.environ.get('DBG_ALL'):
    for r in rs:
        if pat in r['name']:
            print(r['status'], r['name'], r.get('path'))
