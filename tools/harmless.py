"""Harmless edits: behaviour-preserving refactorings of functions under contract, applied to a scratch copy of /repo's
working tree; the registered check of every affected property must NOT report a violation (exit 0, or exit 2 when the edit
takes the function out of the verifier's subset and the stand-ins pass).  A VIOLATION here is a false alarm of the machinery.

usage: harmless.py [--jobs N] [name ...]"""
import ast
import os
import shutil
import subprocess
import sys
import tempfile
from concurrent.futures import ThreadPoolExecutor

ROOT = os.path.dirname(os.path.dirname(os.path.abspath(__file__)))
REPO = os.environ.get('EQL_REPO', '/repo')
PKG = 'src/entity_query_language'


def find_func(tree, qual):
    parts = qual.split('.')
    body = tree.body
    node = None
    for p in parts:
        node = next(n for n in body if isinstance(n, (ast.FunctionDef, ast.ClassDef)) and n.name == p)
        body = node.body
    return node


def rename_local(module, qual, old, new):
    def edit(root):
        p = os.path.join(root, PKG, module + '.py')
        tree = ast.parse(open(p).read())
        fn = find_func(tree, qual)
        n = 0
        for x in ast.walk(fn):
            if isinstance(x, ast.Name) and x.id == old:
                x.id = new
                n += 1
        assert n > 0, f"{old} not found in {qual}"
        open(p, 'w').write(ast.unparse(tree))
    return edit


def unparse_module(module):
    """formatting, comments and line numbers change; nothing else"""
    def edit(root):
        p = os.path.join(root, PKG, module + '.py')
        text = ast.unparse(ast.parse(open(p).read()))
        open(p, 'w').write(text)
    return edit


def replace_text(module, old, new):
    def edit(root):
        p = os.path.join(root, PKG, module + '.py')
        s = open(p).read()
        assert s.count(old) == 1, f"pattern occurs {s.count(old)} times"
        open(p, 'w').write(s.replace(old, new))
    return edit


EDITS = {
    'rename-comparator-values': (rename_local('symbolic', 'Comparator._evaluate__', 'values', 'row_out'), ['C01', 'C02', 'C05', 'C19']),
    'rename-and-output': (rename_local('symbolic', 'AND._evaluate__', 'output', 'merged'), ['C01', 'C02', 'C03']),
    'rename-elseif-flag': (rename_local('symbolic', 'ElseIf._evaluate__', 'any_left', 'left_produced'), ['C01', 'C02', 'C03']),
    'rename-exceptif-flag': (rename_local('conclusion_selector', 'ExceptIf._evaluate__', 'right_yielded', 'refined'), ['C12']),
    'rename-domainmapping-child': (rename_local('symbolic', 'DomainMapping._evaluate__', 'child_val', 'child_rows'), ['C01', 'C16', 'C19']),
    'rename-an-evaluate-results': (rename_local('symbolic', 'An.evaluate', 'results', 'stream'), ['C04', 'C08', 'C07']),
    'rename-the-result': (rename_local('symbolic', 'The._evaluate_', 'result', 'found'), ['C06', 'C15']),
    'rename-iter-var': (rename_local('hashed_data', 'HashedIterable.__iter__', 'v', 'elem'), ['C07', 'C04']),
    'rename-split-counter': (rename_local('predicate', 'update_domain_and_kwargs_from_args', 'n_fields', 'count'), ['C13']),
    'rename-climb-locals': (rename_local('rule', 'alternative_or_next', 'current_node', 'rule_top'), ['C12']),
    'rename-instantiate-locals': (rename_local('symbolic', 'Variable._instantiate_new_values_and_yield_results_', 'bound_kwargs', 'args_now'), ['C11']),
    'rename-dup-locals': (rename_local('symbolic', 'SymbolicExpression._is_duplicate_output_', 'required_output', 'key'), ['C02', 'C16']),
    'rename-update-conclusion': (rename_local('conclusion_selector', 'ConclusionSelector.update_conclusion', 'required_output', 'projected'), ['C12']),
    'rename-alternative-flags': (rename_local('conclusion_selector', 'Alternative._evaluate__', 'left_is_true', 'first_fired'), ['C12']),
    'rename-add-value': (rename_local('conclusion', 'Add._evaluate__', 'v', 'concluded'), ['C12', 'C11']),
    'rename-process-output': (rename_local('symbolic', 'Variable._process_output_and_update_values_', 'values', 'row'), ['C11']),
    'reformat-predicate': (unparse_module('predicate'), ['C13', 'C14']),
    'reformat-entity': (unparse_module('entity'), ['C18', 'C15']),
    'reformat-symbolic': (unparse_module('symbolic'), ['C01', 'C03', 'C06', 'C08', 'C10', 'C17', 'C18']),
    'reformat-cache-data': (unparse_module('cache_data'), ['C20', 'C14', 'C04']),
    'reformat-rules': (unparse_module('conclusion_selector'), ['C12']),
    'swap-independent-refinement': (replace_text('rule', """    new_branch._node_.weight = RDREdge.Refinement
    new_conditions_root._parent_ = prev_parent
""", """    new_conditions_root._parent_ = prev_parent
    new_branch._node_.weight = RDREdge.Refinement
"""), ['C12']),
    'swap-independent-comparator': (replace_text('symbolic', """        first_operand._eval_parent_ = self
        first_values = first_operand._evaluate__(sources)
""", """        first_values = first_operand._evaluate__(sources)
        first_operand._eval_parent_ = self
"""), ['C01', 'C02']),
    'copy-to-dict': (replace_text('symbolic', """                    values = copy(first_value)
                    values.update(second_value)""", """                    values = dict(first_value)
                    values.update(second_value)"""), ['C01', 'C02']),
    'rename-bind-child-vars': (rename_local('symbolic', 'Variable._bind_child_vars_', 'new_bindings', 'extended'), ['C11', 'C19']),
    'rename-bind-child-vars-2': (rename_local('symbolic', 'Variable._bind_child_vars_', 'remaining', 'rest'), ['C11']),
    'rename-bind-unbound': (rename_local('symbolic', 'ForAll._bind_unbound_variables_', 'variable', 'free_var'), ['C10']),
    'rename-forall-bound-val': (rename_local('symbolic', 'ForAll._evaluate__', 'bound_val', 'completed'), ['C10']),
    'rename-kwargs-expression-row': (rename_local('symbolic', 'Variable._evaluate_kwargs_expression_', 'v', 'row'), ['C04']),
    'rename-replay-locals': (rename_local('symbolic', 'BinaryOperator.yield_final_output_from_cache', 'output', 'cached_row'), ['C05']),
    'replay-continue-folded': (replace_text('symbolic', """            if is_false and self._is_duplicate_output_(output):
                continue
            yield output
        if not entered:
            cache_match_count.values[self._node_.name] += 1
        cache_enter_count.values[self._node_.name] = cache.enter_count
        cache_search_count.values[self._node_.name] = cache.search_count

    @staticmethod""", """            if not (is_false and self._is_duplicate_output_(output)):
                yield output
        if not entered:
            cache_match_count.values[self._node_.name] += 1
        cache_enter_count.values[self._node_.name] = cache.enter_count
        cache_search_count.values[self._node_.name] = cache.search_count

    @staticmethod"""), ['C05']),
    'bind-unbound-else-branch': (replace_text('symbolic', """            if variable._id_ not in result:
                for value in variable._evaluate__(copy(result)):
                    yield from self._bind_unbound_variables_({**result, **value}, variables)
                return
        yield result""", """            if variable._id_ in result:
                continue
            for value in variable._evaluate__(copy(result)):
                yield from self._bind_unbound_variables_({**result, **value}, variables)
            return
        yield result"""), ['C10']),
    'union-guard-reordered': (replace_text('symbolic', """        if is_caching_enabled() and not self._selects_conclusions_ and self._cache_.check(sources):
            yield from self.yield_final_output_from_cache(sources)
            return

        # constrain left values by available sources
        left_prev = self.left._eval_parent_
        self.left._eval_parent_ = self
        try:
            left_values = self.left._evaluate__(sources, yield_when_false=self._yield_when_false_)

            for left_value in left_values:
                output = copy(sources)""", """        if not self._selects_conclusions_ and is_caching_enabled() and self._cache_.check(sources):
            yield from self.yield_final_output_from_cache(sources)
            return

        # constrain left values by available sources
        left_prev = self.left._eval_parent_
        self.left._eval_parent_ = self
        try:
            left_values = self.left._evaluate__(sources, yield_when_false=self._yield_when_false_)

            for left_value in left_values:
                output = copy(sources)"""), ['C05']),
    'cache-keys-as-comprehension': (replace_text('symbolic', """        self._cache_.keys = [v.id_ for v in combined_vars.filter(lambda v: not isinstance(v.value, Literal))]""",
                                                 """        self._cache_.keys = [v.id_ for v in combined_vars if not isinstance(v.value, Literal)]"""), ['C05', 'C16']),
    'right-cache-keys-inlined': (replace_text('symbolic', """        right_vars = self.right._unique_variables_.filter(lambda v: not isinstance(v, Literal))
        self.right_cache.keys = [v.id_ for v in right_vars]""", """        self.right_cache.keys = [v.id_ for v in self.right._unique_variables_.filter(lambda v: not isinstance(v, Literal))]"""), ['C05', 'C02']),
    'hybrid-new-else-dropped': (replace_text('predicate', """        if in_symbolic_mode():
            return symbolic_new(symbolic_cls, *args, **kwargs)
        else:
            instance = instantiate_class_and_update_cache(symbolic_cls, original_new, *args, **kwargs)
            return instance
""", """        if in_symbolic_mode():
            return symbolic_new(symbolic_cls, *args, **kwargs)
        return instantiate_class_and_update_cache(symbolic_cls, original_new, *args, **kwargs)
"""), ['C14', 'C08']),
}


def run_one(name):
    edit, props = EDITS[name]
    d = tempfile.mkdtemp(prefix='eqlharmless_')
    out = []
    try:
        shutil.copytree(os.path.join(REPO, 'src'), os.path.join(d, 'src'), ignore=shutil.ignore_patterns('__pycache__', '*.egg-info'))
        edit(d)
        # the edited package must still import and behave: run the property's native stand-ins as part of the check
        for p in props:
            env = dict(os.environ, EQL_REPO=d, EQLVC_OUT=os.path.join(d, 'out'))
            r = subprocess.run(['python3-vt', '-m', 'eqlvc', 'check', p], cwd=ROOT, env=env, capture_output=True, text=True, timeout=3600)
            lines = [l for l in (r.stdout + r.stderr).splitlines() if l.startswith(('VIOLATION', 'UNDECIDED', 'CHECKER'))]
            out.append((p, r.returncode, lines[:3]))
    finally:
        shutil.rmtree(d, ignore_errors=True)
    return name, out


def main():
    args = sys.argv[1:]
    jobs = 3
    if args and args[0] == '--jobs':
        jobs = int(args[1])
        args = args[2:]
    names = args or list(EDITS)
    alarms = 0
    with ThreadPoolExecutor(jobs) as ex:
        for name, out in ex.map(run_one, names):
            for p, rc, lines in out:
                tag = {0: 'held', 2: 'undecided (out of subset), stand-ins pass', 1: 'FALSE ALARM', 3: 'CRASH'}.get(rc, str(rc))
                print(f"{name:32s} {p}: exit {rc} {tag}")
                if rc in (1, 3):
                    alarms += 1
                    for l in lines:
                        print('      ' + l[:220].replace('/tmp/', ''))
                elif rc == 2:
                    for l in lines[:1]:
                        print('      ' + l[:200])
    print('false alarms:', alarms)
    return 1 if alarms else 0


if __name__ == '__main__':
    sys.exit(main())
