"""Behaviour-preserving patches written by independent sub-agents (harmless/<id>/patch.diff): apply each to a scratch copy
of /repo's working tree and run EVERY registered check; none may report a violation (exit 0, or 2 = out of the verifier's
subset with the stand-ins passing).  Verdicts are stored in harmless/<id>/meta.json.

usage: harmless_patches.py [--jobs N] [id ...]"""
import json
import os
import shutil
import subprocess
import sys
import tempfile
from concurrent.futures import ThreadPoolExecutor

ROOT = os.path.dirname(os.path.dirname(os.path.abspath(__file__)))
REPO = os.environ.get('EQL_REPO', '/repo')
PROPS = [json.loads(l)['id'] for l in open(os.path.join(ROOT, 'properties.jsonl'))]


def run_one(hid):
    hdir = os.path.join(ROOT, 'harmless', hid)
    d = tempfile.mkdtemp(prefix='eqlharm_')
    try:
        shutil.copytree(os.path.join(REPO, 'src'), os.path.join(d, 'src'), ignore=shutil.ignore_patterns('__pycache__', '*.egg-info'))
        r = subprocess.run(['patch', '-p1', '-s', '-i', os.path.join(hdir, 'patch.diff')], cwd=d, capture_output=True, text=True)
        if r.returncode != 0:
            return hid, {'error': 'patch does not apply: ' + (r.stdout + r.stderr)[-300:]}
        out = {}
        for p in PROPS:
            env = dict(os.environ, EQL_REPO=d, EQLVC_OUT=os.path.join(d, 'out'))
            r = subprocess.run(['python3-vt', '-m', 'eqlvc', 'check', p], cwd=ROOT, env=env, capture_output=True, text=True, timeout=3600)
            lines = [l.replace(d, '<scratch>') for l in (r.stdout + r.stderr).splitlines() if l.startswith(('VIOLATION', 'UNDECIDED', 'CHECKER'))]
            out[p] = {'exit': r.returncode, 'lines': lines[:4]}
        return hid, out
    finally:
        shutil.rmtree(d, ignore_errors=True)


def main():
    args = sys.argv[1:]
    jobs = 3
    if args and args[0] == '--jobs':
        jobs = int(args[1])
        args = args[2:]
    ids = args or sorted(x for x in os.listdir(os.path.join(ROOT, 'harmless')) if os.path.exists(os.path.join(ROOT, 'harmless', x, 'patch.diff')))
    alarms = 0
    with ThreadPoolExecutor(jobs) as ex:
        for hid, out in ex.map(run_one, ids):
            mp = os.path.join(ROOT, 'harmless', hid, 'meta.json')
            meta = json.load(open(mp))
            if 'error' in out:
                print(f"[{hid}] ERROR {out['error']}")
                continue
            meta['checks'] = out
            bad = {p: v for p, v in out.items() if v['exit'] in (1, 3)}
            und = {p: v for p, v in out.items() if v['exit'] == 2}
            meta['false_alarms'] = sorted(bad)
            json.dump(meta, open(mp, 'w'), indent=1)
            print(f"[{hid}] {meta.get('function', '')}: held {sum(1 for v in out.values() if v['exit'] == 0)}, undecided {sorted(und)}, ALARMS {sorted(bad)}")
            for p, v in bad.items():
                alarms += 1
                for l in v['lines'][:3]:
                    print('      ' + l[:230])
    print('false alarms:', alarms)
    return 1 if alarms else 0


if __name__ == '__main__':
    sys.exit(main())
