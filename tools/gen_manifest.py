"""Regenerates MANIFEST.json from contracts/registry.py (claimed properties) and properties.jsonl."""
import json
import os
import sys

ROOT = os.path.dirname(os.path.dirname(os.path.abspath(__file__)))
sys.path.insert(0, ROOT)
import contracts.registry as reg  # noqa: E402

ids = [json.loads(l)['id'] for l in open(os.path.join(ROOT, 'properties.jsonl'))]
claims = reg.CLAIMS
checks = []
for pid in ids:
    if pid not in claims:
        continue
    c = claims[pid]
    checks.append({
        "property_id": pid,
        "quick_cmd": f"python3-vt -m eqlvc check {pid} --tier quick",
        "thorough_cmd": f"python3-vt -m eqlvc check {pid} --tier thorough",
        "evidence_file": f"/verif/evidence/{pid}.json",
        "replay_cmd_template": "python3-vt -m eqlvc replay {path}",
        "engine": "eqlvc",
        "level_claimed": {"category": c['level'], "text": c['text'], "design_ref": c.get('design_ref', 'DESIGN.md section 4 and 11')},
        "level_note": c['note'],
        "technique": c.get('technique', "contract-based deductive verification: VCs generated from the real function ASTs "
                                       "(own symbolic executor), discharged by z3; sidecar contracts"),
    })
na = [{"property_id": pid, "reason": reg.NOT_APPLICABLE.get(pid, "check not built yet (work in progress)")}
      for pid in ids if pid not in claims]
m = {
    "version": 1,
    "setup_cmd": "python3-vt -m eqlvc list > /dev/null",
    "hooks": {"guard": "EQL_VERIF",
              "enable": "no source hooks: contracts are sidecar files in /verif/contracts; the verifier re-reads /repo's "
                        "working tree on every run (EQL_REPO overrides the path)",
              "baseline_off_cmd": "cd /repo && /venv/bin/python -m pytest -ra -q -p no:cacheprovider --timeout=900 "
                                  "--continue-on-collection-errors",
              "source_commits": [], "add_only": True},
    "engines": [{"name": "eqlvc", "path": "/verif/eqlvc", "serves_properties": sorted(claims),
                 "kind_free_text": "AST->z3 verification-condition generator (path-wise symbolic executor over the real "
                                   "function bodies, loop / yield / call rules) with sidecar contracts in /verif/contracts; "
                                   "native replay and bounded stand-ins under /venv/bin/python in /verif/replay"}],
    "checks": checks,
    "not_applicable": na,
    "notes": "exit 0 held (KNOWN-FINDING lines for recorded genuine defects) / 1 VIOLATION / 2 UNDECIDED / 3 crash. "
             "Results are cached in /verif/.cache keyed by the hash of /repo's package sources and of /verif's engine and "
             "contracts; a changed source file invalidates every entry."
}
json.dump(m, open(os.path.join(ROOT, 'MANIFEST.json'), 'w'), indent=1)
print(f"{len(checks)} checks, {len(na)} not applicable")
