"""Re-run the registered checks against every stored seeded change (seeded/<id>/patch.diff) and refresh the verdicts in
seeded/<id>/meta.json.

Each change is applied to a scratch copy of /repo's working tree (outside /repo and /verif, removed afterwards); the
check runs with EQL_REPO pointing at the copy and EQLVC_OUT at a scratch output directory, so /repo, the committed
evidence and the cache are left alone.

usage: reseed.py [--jobs N] [--tier quick] [seed-id[:PROP,PROP] ...]"""
import json
import os
import shutil
import subprocess
import sys
import tempfile
from concurrent.futures import ThreadPoolExecutor

ROOT = os.path.dirname(os.path.dirname(os.path.abspath(__file__)))
REPO = os.environ.get('EQL_REPO', '/repo')


def run_one(arg):
    sid, props, tier = arg
    sdir = os.path.join(ROOT, 'seeded', sid)
    meta = json.load(open(os.path.join(sdir, 'meta.json')))
    props = props or [meta['property']]
    d = tempfile.mkdtemp(prefix='eqlseed_')
    try:
        shutil.copytree(os.path.join(REPO, 'src'), os.path.join(d, 'src'), ignore=shutil.ignore_patterns('__pycache__', '*.egg-info'))
        r = subprocess.run(['git', 'apply', '--unsafe-paths', '--directory=' + d, os.path.join(sdir, 'patch.diff')],
                           cwd=d, capture_output=True, text=True)
        if r.returncode != 0:
            r = subprocess.run(['patch', '-p1', '-i', os.path.join(sdir, 'patch.diff')], cwd=d, capture_output=True, text=True)
        if r.returncode != 0:
            return sid, {'error': 'patch does not apply: ' + (r.stdout + r.stderr)[-300:]}
        verdicts = {}
        for p in props:
            env = dict(os.environ, EQL_REPO=d, EQLVC_OUT=os.path.join(d, 'out'), VERIF_TIER=tier)
            r = subprocess.run(['python3-vt', '-m', 'eqlvc', 'check', p, '--tier', tier], cwd=ROOT, env=env,
                               capture_output=True, text=True, timeout=7200)
            out = r.stdout + r.stderr
            lines = [l.replace(d, '<scratch>') for l in out.splitlines()
                     if l.startswith(('VIOLATION', 'UNDECIDED', 'KNOWN-FINDING', 'property=', 'CHECKER'))]
            kinds = []
            for l in lines:
                if l.startswith('VIOLATION'):
                    b = l.split('replay=')[-1].split('/')[-1]
                    kinds.append('stand-in (bounded)' if b.startswith(('oracle_', 'standin', 'cache_')) else 'deductive')
            verdicts[p] = {'exit': r.returncode, 'lines': lines[:12], 'violation_kinds': sorted(set(kinds))}
        return sid, verdicts
    finally:
        shutil.rmtree(d, ignore_errors=True)


def main():
    args = sys.argv[1:]
    jobs, tier = 3, 'quick'
    while args and args[0].startswith('--'):
        k = args.pop(0)
        if k == '--jobs':
            jobs = int(args.pop(0))
        elif k == '--tier':
            tier = args.pop(0)
    ids = []
    for a in args:
        sid, _, ps = a.partition(':')
        ids.append((sid, ps.split(',') if ps else None, tier))
    if not ids:
        ids = [(s, None, tier) for s in sorted(os.listdir(os.path.join(ROOT, 'seeded')))
               if os.path.exists(os.path.join(ROOT, 'seeded', s, 'patch.diff'))
               and not json.load(open(os.path.join(ROOT, 'seeded', s, 'meta.json'))).get('superseded')]
    missed = 0
    with ThreadPoolExecutor(jobs) as ex:
        for sid, verdicts in ex.map(run_one, ids):
            mp = os.path.join(ROOT, 'seeded', sid, 'meta.json')
            meta = json.load(open(mp))
            if 'error' in verdicts:
                print(f"[{sid}] ERROR {verdicts['error']}")
                missed += 1
                continue
            meta['checks'] = verdicts
            meta['detected'] = any(v['exit'] == 1 for v in verdicts.values())
            json.dump(meta, open(mp, 'w'), indent=1)
            for p, v in verdicts.items():
                print(f"[{sid}] check {p}: exit {v['exit']} {v['violation_kinds']}")
                for l in v['lines'][:5]:
                    print('      ' + l[:230])
            if not meta['detected']:
                missed += 1
    print('not detected:', missed)
    return 0


if __name__ == '__main__':
    sys.exit(main())
