"""Developer tool: run every contract (all modes) in parallel and print one line per logical obligation that is not
fully discharged."""
import sys, os, collections, time
sys.path.insert(0, os.path.dirname(os.path.dirname(os.path.abspath(__file__))))
from eqlvc.__main__ import run_tasks
import contracts.registry as reg

only = sys.argv[1:]
tasks = [(c.__name__, m) for c in reg.all_contracts() for m in c.modes
         if (c.__name__ in only) or (not only and 'quick' in getattr(c, 'tiers', ('quick',)))]
t0 = time.time()
res = run_tasks(tasks, 16)
bad = 0
for t, (rs, info) in zip(tasks, res):
    g = collections.defaultdict(collections.Counter)
    for r in rs:
        g[r['name']][r['status']] += 1
    fails = {k: dict(v) for k, v in g.items() if set(v) - {'discharged', 'cover-ok'} and not v.get('cover-ok')}
    st = info.get('status')
    line = f"{t[0]:22s} {t[1]:8s} {st:10s} obligations={len(g):3d} paths={len(rs):4d} wall={info.get('wall_s')}"
    if st != 'ok':
        line += ' ' + str(info.get('reason'))[:200]
        bad += 1
    print(line)
    for k, v in fails.items():
        bad += 1
        sigs = [r['signature'] for r in rs if r['name'] == k and r['status'] == 'failed'][:2]
        print('     !!', k, v, sigs)
print('total wall', round(time.time() - t0, 1), 'problems', bad)
