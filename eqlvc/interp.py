"""Path-wise symbolic executor for the Python subset used by entity_query_language.

It consumes the ast.FunctionDef of the *real* function (read from /repo on every run) and
produces named proof obligations.  Nothing here knows a particular repository function: all
knowledge about callees comes from contracts registered in `Engine.calls` / `Engine.attrs`.
"""
from __future__ import annotations

import ast
import copy as _copy
import itertools
from dataclasses import dataclass, field
from typing import Any, Callable, Dict, List, Optional, Tuple

import z3

from . import z as Z


class OutOfSubset(Exception):
    def __init__(self, what, node=None):
        self.what = what
        self.lineno = getattr(node, 'lineno', None)
        super().__init__(f"out-of-subset:{what}@{self.lineno}")


# ---------------------------------------------------------------------------------- values
class SV:
    pass


@dataclass
class ZV(SV):
    t: Any          # z3 term
    ty: str         # 'bool' 'int' 'val' 'hv' 'node' 'str' 'optnode'


@dataclass
class C(SV):
    v: Any          # python constant (None, bool, int, str) or a Ref


@dataclass(frozen=True)
class Ref:
    kind: str       # 'class' 'func' 'module' 'op' 'exc'
    name: str


@dataclass
class D(SV):
    ref: int        # binding dict object (identity)


@dataclass
class Tup(SV):
    items: List[SV]


@dataclass
class Lst(SV):
    items: List[SV]     # a Python list whose spine is concrete
    ref: int = -1


@dataclass
class Obj(SV):
    """abstract object with identity and contract-defined behaviour (streams, caches, seen sets ...)."""
    kind: str
    data: Dict[str, Any] = field(default_factory=dict)


@dataclass
class Meth(SV):
    recv: SV
    name: str


@dataclass
class Closure(SV):
    fdef: ast.FunctionDef
    env: Dict[str, SV]


NONE = C(None)
TRUE = C(True)
FALSE = C(False)


# ---------------------------------------------------------------------------------- state
class State:
    def __init__(self):
        self.locals: Dict[str, SV] = {}
        self.fields: Dict[str, Any] = {}       # name -> z3 array Node -> sort
        self.dicts: Dict[int, Z.ZMap] = {}
        self.pc: List[Any] = []
        self.qf: List[Callable] = []           # env-quantified assumptions: rho -> z3 Bool
        self.ghost: Dict[str, Any] = {}
        self.path: List[str] = []
        self.finals: List[Any] = []            # pending finally blocks (for exits)

    def clone(self) -> 'State':
        s = State()
        s.locals = dict(self.locals)
        s.fields = dict(self.fields)
        s.dicts = dict(self.dicts)
        s.pc = list(self.pc)
        s.qf = list(self.qf)
        s.ghost = dict(self.ghost)
        s.path = list(self.path)
        s.finals = list(self.finals)
        return s

    def log_mut(self, ref, kind='write'):
        self.ghost['mut'] = self.ghost.get('mut', frozenset()) | {(ref, kind)}

    def assume(self, *fs):
        for f in fs:
            if f is True or (z3.is_true(f) if z3.is_expr(f) else False):
                continue
            self.pc.append(f)


@dataclass
class Obligation:
    name: str
    pc: List[Any]
    qf: List[Callable]
    envs: List[Any]
    hyp: List[Any]
    concl: Any
    kind: str = 'goal'         # 'goal' (must be unsat when negated) | 'cover' (must be sat)
    meta: Dict[str, Any] = field(default_factory=dict)

    def formula_parts(self):
        asm = list(self.pc) + [q(e) for q in self.qf for e in self.envs] + list(self.hyp)
        return asm, self.concl


# signals
NEXT, CONTINUE, BREAK, RETURN, RAISE, GENEXIT = 'next', 'continue', 'break', 'return', 'raise', 'genexit'


@dataclass
class Outcome:
    st: State
    sig: str = NEXT
    val: Any = None


class Engine:
    """One verification run of one function against one contract."""

    def __init__(self, fdef: ast.FunctionDef, contract, module_env, mode='sound', fname='?'):
        self.fdef = fdef
        self.contract = contract
        self.modenv = module_env            # name -> SV for module globals / builtins
        self.mode = mode                    # 'sound' | 'witness'
        self.fname = fname
        self.obligations: List[Obligation] = []
        self._next_ref = 0
        self.yield_ordinals: Dict[int, int] = {}
        self.loop_ordinals: Dict[int, int] = {}
        self.call_ordinals: Dict[Tuple[int, int], int] = {}
        self._number_sites()
        self.solver_checks = 0
        self.max_paths = 4000
        self.n_paths = 0
        self.notes: List[str] = []
        self.scouting = 0
        self.pending_raises: List[Outcome] = []

    # ------------------------------------------------------------------ site numbering
    def _number_sites(self):
        y = l = 0
        for n in ast.walk(self.fdef):
            pass
        # source order numbering
        class V(ast.NodeVisitor):
            def __init__(s):
                s.y = 0
                s.l = 0

            def visit_Yield(s, n):
                s.y += 1
                self.yield_ordinals[id(n)] = s.y
                s.generic_visit(n)

            def visit_YieldFrom(s, n):
                s.y += 1
                self.yield_ordinals[id(n)] = s.y
                s.generic_visit(n)

            def visit_For(s, n):
                s.l += 1
                self.loop_ordinals[id(n)] = s.l
                s.generic_visit(n)

            def visit_While(s, n):
                s.l += 1
                self.loop_ordinals[id(n)] = s.l
                s.generic_visit(n)

            def visit_FunctionDef(s, n):
                if n is self.fdef:
                    s.generic_visit(n)
                # do not number nested defs

            def visit_Lambda(s, n):
                pass
        V().visit(self.fdef)

    # ------------------------------------------------------------------ helpers
    def new_ref(self):
        self._next_ref += 1
        return self._next_ref

    def new_dict(self, st: State, content: Optional[Z.ZMap] = None, own=False) -> D:
        r = self.new_ref()
        st.dicts[r] = content if content is not None else Z.ZMap.empty()
        if own:
            # allocated by the function under proof itself (copy / dict literal), as opposed to a row a callee yielded
            st.ghost['own_refs'] = st.ghost.get('own_refs', frozenset()) | {r}
        return D(r)

    def oblige(self, st: State, name: str, concl, hyp=(), envs=(), kind='goal', **meta):
        if self.scouting:
            return
        self.obligations.append(Obligation(name=f"{self.fname}/{name}", pc=list(st.pc), qf=list(st.qf),
                                           envs=list(envs), hyp=list(hyp), concl=concl, kind=kind,
                                           meta=dict(meta, path=list(st.path))))

    def feasible(self, st: State, extra=None, timeout_ms=300) -> bool:
        """unknown counts as feasible: pruning is only ever an optimisation.  Callers whose ANSWER depends on `infeasible`
        (is_covered) pass a generous timeout so that a busy machine does not flip a verdict."""
        if self.scouting:
            return True
        s = z3.SolverFor('QF_AUFLIA')
        s.set('timeout', timeout_ms)
        s.add(*st.pc)
        if extra is not None:
            s.add(extra)
        self.solver_checks += 1
        return s.check() != z3.unsat

    def branch(self, st: State, cond, label='') -> List[Tuple[State, bool]]:
        """fork on a z3 Bool / python bool; infeasible sides are pruned."""
        if isinstance(cond, bool):
            return [(st, cond)]
        cond = z3.simplify(cond)
        if z3.is_true(cond):
            return [(st, True)]
        if z3.is_false(cond):
            return [(st, False)]
        out = []
        if self.feasible(st, cond):
            a = st.clone()
            a.assume(cond)
            a.path.append(label + '+')
            out.append((a, True))
        if self.feasible(st, z3.Not(cond)):
            b = st.clone()
            b.assume(z3.Not(cond))
            b.path.append(label + '-')
            out.append((b, False))
        return out

    # ------------------------------------------------------------------ truthiness
    def truth(self, st: State, v: SV):
        """returns python bool or z3 Bool."""
        if isinstance(v, C):
            if isinstance(v.v, Ref):
                return True
            return bool(v.v)
        if isinstance(v, ZV):
            if v.ty == 'mode':
                return self.contract.truth_mode(v)
            if v.ty == 'bool':
                return v.t
            if v.ty == 'val':
                return Z.truthy(v.t)
            if v.ty == 'int':
                return v.t != 0
            if v.ty == 'optnode':
                return v.t != Z.NoneNode
            if v.ty in ('node', 'hv'):
                return True
            raise OutOfSubset(f"truthiness of {v.ty}")
        if isinstance(v, D):
            return z3.Not(st.dicts[v.ref].is_empty())
        if isinstance(v, (Tup, Lst)):
            return len(v.items) > 0
        if isinstance(v, Obj):
            h = self.contract.obj_truth(self, st, v) if hasattr(self.contract, 'obj_truth') else None
            if h is None:
                raise OutOfSubset(f"truthiness of object {v.kind}")
            return h
        if isinstance(v, Closure):
            return True
        raise OutOfSubset(f"truthiness of {type(v).__name__}")

    def as_bool_sv(self, b) -> SV:
        if isinstance(b, bool):
            return C(b)
        return ZV(b, 'bool')

    def to_z3_bool(self, b):
        return z3.BoolVal(b) if isinstance(b, bool) else b

    # ------------------------------------------------------------------ expressions
    def eval(self, e: ast.expr, st: State) -> List[Tuple[State, SV]]:
        m = getattr(self, 'e_' + type(e).__name__, None)
        if m is None:
            raise OutOfSubset(f"expr:{type(e).__name__}", e)
        return m(e, st)

    def eval_seq(self, es: List[ast.expr], st: State) -> List[Tuple[State, List[SV]]]:
        outs = [(st, [])]
        for e in es:
            nxt = []
            for s, vs in outs:
                for s2, v in self.eval(e, s):
                    nxt.append((s2, vs + [v]))
            outs = nxt
        return outs

    def e_Constant(self, e, st):
        return [(st, C(e.value))]

    def e_Name(self, e, st):
        if e.id in st.locals:
            return [(st, st.locals[e.id])]
        if e.id in self.modenv:
            return [(st, self.modenv[e.id])]
        raise OutOfSubset(f"name:{e.id}", e)

    def e_Attribute(self, e, st):
        out = []
        for s, recv in self.eval(e.value, st):
            out.extend(self.getattr(s, recv, e.attr, e))
        return out

    def getattr(self, st, recv, name, node=None) -> List[Tuple[State, SV]]:
        h = self.contract.getattr(self, st, recv, name)
        if h is not None:
            return h
        raise OutOfSubset(f"attr:{type(recv).__name__}.{name}", node)

    def e_Dict(self, e, st):
        # {} , {k: v, ...}, {**a, **b}
        h = self.contract.dict_display(self, st, e) if hasattr(self.contract, 'dict_display') else None
        if h is not None:
            return h
        if e.keys and all(isinstance(k, ast.Constant) and isinstance(k.value, (bool, str)) for k in e.keys):
            # a small python-level mapping with constant keys (e.g. {True: SeenSet(), False: SeenSet()})
            return [(s, Obj('pydict', {'items': [(C(k.value), v) for k, v in zip(e.keys, vs)]}))
                    for s, vs in self.eval_seq(list(e.values), st)]
        outs = [(st, Z.ZMap.empty())]
        for k, v in zip(e.keys, e.values):
            nxt = []
            for s, m in outs:
                if k is None:
                    for s2, dv in self.eval(v, s):
                        if not isinstance(dv, D):
                            raise OutOfSubset("dict-unpack of non-dict", e)
                        nxt.append((s2, m.merge(s2.dicts[dv.ref])))
                else:
                    for s2, (kv, vv) in [(s3, (a, b)) for s3, ab in self.eval_seq([k, v], s) for a, b in [ab]]:
                        nxt.append((s2, m.store(self.as_int(kv), self.as_hv(s2, vv))))
            outs = nxt
        return [(s, self.new_dict(s, m, own=True)) for s, m in outs]

    def e_List(self, e, st):
        return [(s, Lst(vs, self.new_ref())) for s, vs in self.eval_seq(e.elts, st)]

    def e_Tuple(self, e, st):
        return [(s, Tup(vs)) for s, vs in self.eval_seq(e.elts, st)]

    def e_BoolOp(self, e, st):
        is_or = isinstance(e.op, ast.Or)
        # Python semantics: value of the first operand that decides
        outs = []

        def go(i, s):
            for s2, v in self.eval(e.values[i], s):
                if i == len(e.values) - 1:
                    outs.append((s2, v))
                    continue
                t = self.truth(s2, v)
                for s3, tv in self.branch(s2, t, f"L{e.lineno}{'or' if is_or else 'and'}{i}"):
                    if tv == is_or:
                        outs.append((s3, v))
                    else:
                        go(i + 1, s3)
        go(0, st)
        # if all results are boolean-like, keep as is
        return outs

    def e_UnaryOp(self, e, st):
        out = []
        for s, v in self.eval(e.operand, st):
            if isinstance(e.op, ast.Not):
                t = self.truth(s, v)
                out.append((s, self.as_bool_sv((not t) if isinstance(t, bool) else z3.Not(t))))
            elif isinstance(e.op, ast.USub) and isinstance(v, C):
                out.append((s, C(-v.v)))
            else:
                raise OutOfSubset("unaryop", e)
        return out

    def e_BinOp(self, e, st):
        out = []
        for s, vs in self.eval_seq([e.left, e.right], st):
            a, b = vs
            h = self.contract.binop(self, s, e.op, a, b) if hasattr(self.contract, 'binop') else None
            if h is not None:
                out.append((s, h))
            elif isinstance(a, C) and isinstance(b, C) and isinstance(e.op, (ast.Add, ast.Sub, ast.Mult)):
                out.append((s, C({ast.Add: lambda x, y: x + y, ast.Sub: lambda x, y: x - y, ast.Mult: lambda x, y: x * y}[type(e.op)](a.v, b.v))))
            elif isinstance(e.op, (ast.Add, ast.Sub)):
                x, y = self.as_int(a), self.as_int(b)
                out.append((s, ZV(x + y if isinstance(e.op, ast.Add) else x - y, 'int')))
            else:
                raise OutOfSubset("binary operator", e)
        return out

    def e_IfExp(self, e, st):
        out = []
        for s, c in self.eval(e.test, st):
            for s2, tv in self.branch(s, self.truth(s, c), f"L{e.lineno}ife"):
                out.extend(self.eval(e.body if tv else e.orelse, s2))
        return out

    def as_int(self, v: SV):
        if isinstance(v, C) and isinstance(v.v, int) and not isinstance(v.v, bool):
            return z3.IntVal(v.v)
        if isinstance(v, ZV) and v.ty == 'int':
            return v.t
        raise OutOfSubset(f"expected int, got {v}")

    def as_hv(self, st, v: SV):
        if isinstance(v, ZV) and v.ty == 'hv':
            return v.t
        raise OutOfSubset(f"expected HashedValue, got {v}")

    def as_val(self, st, v: SV):
        """inject an SV into the Val sort (user-value position)."""
        if isinstance(v, ZV):
            if v.ty == 'val':
                return v.t
            if v.ty == 'bool':
                st.assume(Z.truthy(Z.boolval(v.t)) == v.t)
                return Z.boolval(v.t)
        if isinstance(v, C):
            if v.v is None:
                st.assume(z3.Not(Z.truthy(Z.NoneVal)))
                return Z.NoneVal
            if isinstance(v.v, bool):
                b = z3.BoolVal(v.v)
                st.assume(Z.truthy(Z.boolval(b)) == b)
                return Z.boolval(b)
        raise OutOfSubset(f"cannot use {v} as a user value")

    def e_Compare(self, e, st):
        if len(e.ops) != 1:
            raise OutOfSubset("chained compare", e)
        op = e.ops[0]
        out = []
        for s, (a, b) in [(s, (vs[0], vs[1])) for s, vs in self.eval_seq([e.left, e.comparators[0]], st)]:
            out.append((s, self.compare(s, op, a, b, e)))
        return out

    def compare(self, st, op, a: SV, b: SV, node) -> SV:
        h = self.contract.compare(self, st, op, a, b) if hasattr(self.contract, 'compare') else None
        if h is not None:
            return h
        if isinstance(op, (ast.In, ast.NotIn)):
            if isinstance(b, D):
                r = st.dicts[b.ref].contains(self.as_int(a))
                return self.as_bool_sv(z3.Not(r) if isinstance(op, ast.NotIn) else r)
            if isinstance(b, (Lst, Tup)):
                disj = [self.to_z3_bool(self.py_eq(st, a, x)) for x in b.items]
                r = z3.Or(*disj) if disj else z3.BoolVal(False)
                return self.as_bool_sv(z3.Not(r) if isinstance(op, ast.NotIn) else r)
            raise OutOfSubset(f"in on {type(b).__name__}", node)
        if isinstance(op, (ast.Is, ast.IsNot)):
            r = self.py_is(st, a, b)
            if isinstance(op, ast.IsNot):
                r = (not r) if isinstance(r, bool) else z3.Not(r)
            return self.as_bool_sv(r)
        if isinstance(op, (ast.Eq, ast.NotEq)):
            r = self.py_eq(st, a, b)
            if isinstance(op, ast.NotEq):
                r = (not r) if isinstance(r, bool) else z3.Not(r)
            return self.as_bool_sv(r)
        if isinstance(op, (ast.Lt, ast.LtE, ast.Gt, ast.GtE)):
            x, y = self.as_int(a), self.as_int(b)
            r = {ast.Lt: x < y, ast.LtE: x <= y, ast.Gt: x > y, ast.GtE: x >= y}[type(op)]
            return self.as_bool_sv(r)
        raise OutOfSubset("compare op", node)

    def py_is(self, st, a, b):
        if isinstance(a, C) and isinstance(b, C):
            return a.v is b.v if not isinstance(a.v, Ref) else a.v == b.v
        if isinstance(a, ZV) and isinstance(b, ZV) and a.ty in ('node', 'optnode') and b.ty in ('node', 'optnode'):
            return a.t == b.t
        if isinstance(a, ZV) and a.ty == 'optnode' and isinstance(b, C) and b.v is None:
            return a.t == Z.NoneNode
        if isinstance(b, ZV) and b.ty == 'optnode' and isinstance(a, C) and a.v is None:
            return b.t == Z.NoneNode
        if isinstance(a, D) and isinstance(b, D):
            return a.ref == b.ref
        if isinstance(a, C) and a.v is None:
            if isinstance(b, (D, Lst, Tup, Obj)) or (isinstance(b, ZV) and b.ty in ('node', 'hv', 'bool', 'int')):
                return False
            if isinstance(b, ZV) and b.ty == 'val':
                return b.t == Z.NoneVal          # a user value may be None
        if isinstance(b, C) and b.v is None:
            return self.py_is(st, b, a)
        if isinstance(a, ZV) and isinstance(b, C) and isinstance(b.v, bool) and a.ty == 'bool':
            return a.t == z3.BoolVal(b.v)
        if isinstance(a, Obj) and isinstance(b, Obj):
            return a is b
        if isinstance(a, Closure) and isinstance(b, Closure):
            return a.fdef is b.fdef     # module-level function objects: one object per definition
        if isinstance(a, Closure) or isinstance(b, Closure):
            if isinstance(a, C) or isinstance(b, C):
                return False
        raise OutOfSubset(f"is: {a} / {b}")

    def py_eq(self, st, a, b):
        if isinstance(a, C) and isinstance(b, C):
            return a.v == b.v
        if isinstance(a, ZV) and isinstance(b, ZV):
            if a.ty == 'hv' and b.ty == 'hv':
                return Z.hv_id(a.t) == Z.hv_id(b.t)      # HashedValue.__eq__ (checked separately)
            if a.ty == b.ty and a.ty in ('int', 'bool', 'str'):
                return a.t == b.t
        if isinstance(a, ZV) and isinstance(b, C):
            if a.ty == 'int' and isinstance(b.v, int):
                return a.t == z3.IntVal(b.v)
            if a.ty == 'bool' and isinstance(b.v, bool):
                return a.t == z3.BoolVal(b.v)
        if isinstance(b, ZV) and isinstance(a, C):
            return self.py_eq(st, b, a)
        raise OutOfSubset(f"==: {a} / {b}")

    def e_Subscript(self, e, st):
        if isinstance(e.slice, ast.Slice):
            sl = e.slice
            bounds = []
            for b in (sl.lower, sl.upper, sl.step):
                if b is None:
                    bounds.append(None)
                elif isinstance(b, ast.Constant) and isinstance(b.value, int):
                    bounds.append(b.value)
                else:
                    raise OutOfSubset("non-constant slice", e)
            out = []
            for s, recv in self.eval(e.value, st):
                if not isinstance(recv, (Lst, Tup)):
                    raise OutOfSubset(f"slice of {type(recv).__name__}", e)
                out.append((s, Lst(list(recv.items[slice(*bounds)]), self.new_ref())))
            return out
        out = []
        for s, vs in self.eval_seq([e.value, e.slice], st):
            out.extend(self.subscript(s, vs[0], vs[1], e))
        return out

    def subscript(self, st, recv, k, node) -> List[Tuple[State, SV]]:
        h = self.contract.subscript(self, st, recv, k) if hasattr(self.contract, 'subscript') else None
        if h is not None:
            return h
        if isinstance(recv, D):
            m = st.dicts[recv.ref]
            ki = self.as_int(k)
            self.oblige(st, f"safe/key-present@L{node.lineno}", m.contains(ki), line=node.lineno)
            st = st.clone()
            st.assume(m.contains(ki))
            return [(st, ZV(m.get(ki), 'hv'))]
        if isinstance(recv, (Lst, Tup)) and isinstance(k, C) and isinstance(k.v, int):
            if not -len(recv.items) <= k.v < len(recv.items):
                # Python raises IndexError here: a failing (definite) obligation, the path itself is not followed further
                self.oblige(st, f"safe/index-in-range@L{node.lineno}", z3.BoolVal(False), line=node.lineno, definite=True)
                raise OutOfSubset(f"index {k.v} out of range of a sequence of {len(recv.items)}", node)
            return [(st, recv.items[k.v])]
        if isinstance(recv, Obj) and recv.kind in ('pymap', 'combo'):
            return [(st, self.contract.pymap_lookup(self, st, recv, k))]
        raise OutOfSubset(f"subscript on {type(recv).__name__}", node)

    def e_Call(self, e, st):
        out = []
        for s, f in self.eval(e.func, st):
            arg_exprs = [a.value if isinstance(a, ast.Starred) else a for a in e.args]
            starred = [isinstance(a, ast.Starred) for a in e.args]
            kw_names = [k.arg if k.arg is not None else '**' for k in e.keywords]
            if kw_names.count('**') > 1:
                raise OutOfSubset("several ** in a call", e)
            for s2, vs in self.eval_seq(arg_exprs + [k.value for k in e.keywords], s):
                args = [Obj('star', {'of': v}) if st_ else v for v, st_ in zip(vs[:len(arg_exprs)], starred)]
                kwargs = dict(zip(kw_names, vs[len(arg_exprs):]))
                if any(starred) or '**' in kwargs:
                    # only contracts that say how to treat an argument pack accept it
                    if not getattr(self.contract, 'accepts_star', lambda f: False)(f):
                        raise OutOfSubset("star-args", e)
                out.extend(self.call(s2, f, args, kwargs, e))
        return out

    def call(self, st, f: SV, args, kwargs, node) -> List[Tuple[State, SV]]:
        if isinstance(f, ZV) and f.ty == 'val' and hasattr(self.contract, 'call'):
            pass
        h = self.contract.call(self, st, f, args, kwargs, node)
        if h is not None:
            return h
        raise OutOfSubset(f"call:{self.describe(f)}", node)

    def describe(self, f):
        if isinstance(f, Meth):
            r = f.recv
            rk = r.ty if isinstance(r, ZV) else (r.kind if isinstance(r, Obj) else type(r).__name__)
            return f"{rk}.{f.name}"
        if isinstance(f, C) and isinstance(f.v, Ref):
            return f"{f.v.kind}:{f.v.name}"
        return str(f)

    def e_DictComp(self, e, st):
        h = self.contract.dictcomp(self, st, e) if hasattr(self.contract, 'dictcomp') else None
        if h is not None:
            return h
        raise OutOfSubset("dictcomp", e)

    def e_ListComp(self, e, st):
        h = self.contract.listcomp(self, st, e) if hasattr(self.contract, 'listcomp') else None
        if h is not None:
            return h
        raise OutOfSubset("listcomp", e)

    def e_SetComp(self, e, st):
        h = self.contract.setcomp(self, st, e) if hasattr(self.contract, 'setcomp') else None
        if h is not None:
            return h
        raise OutOfSubset("setcomp", e)

    def e_GeneratorExp(self, e, st):
        h = self.contract.genexp(self, st, e) if hasattr(self.contract, 'genexp') else None
        if h is not None:
            return h
        raise OutOfSubset("genexp", e)

    def e_JoinedStr(self, e, st):
        return [(st, C('<fstring>'))]

    def e_Lambda(self, e, st):
        return [(st, Closure(e, dict(st.locals)))]

    # ------------------------------------------------------------------ statements
    def exec_block(self, stmts: List[ast.stmt], st: State) -> List[Outcome]:
        outs = [Outcome(st)]
        for stmt in stmts:
            nxt = []
            for o in outs:
                if o.sig != NEXT:
                    nxt.append(o)
                    continue
                nxt.extend(self.exec(stmt, o.st))
            outs = nxt
            self.n_paths = max(self.n_paths, len(outs))
            if len(outs) > self.max_paths:
                raise OutOfSubset("path explosion", stmt)
        return outs

    def exec(self, s: ast.stmt, st: State) -> List[Outcome]:
        m = getattr(self, 's_' + type(s).__name__, None)
        if m is None:
            raise OutOfSubset(f"stmt:{type(s).__name__}", s)
        mark = len(self.pending_raises)
        if self.scouting:
            # scout runs do not prune infeasible branches; a construct outside the subset on such a branch only drops
            # that branch here (the real run decides feasibility first and reports it if it is reachable)
            try:
                outs = m(s, st)
            except OutOfSubset:
                outs = []
        else:
            outs = m(s, st)
        if len(self.pending_raises) > mark:
            # exceptions raised inside expressions of this statement (inlined callees, contracted calls)
            outs = outs + self.pending_raises[mark:]
            del self.pending_raises[mark:]
        return outs

    def s_Pass(self, s, st):
        return [Outcome(st)]

    def s_Expr(self, s, st):
        if isinstance(s.value, ast.Constant):
            return [Outcome(st)]  # docstring
        if isinstance(s.value, (ast.Yield, ast.YieldFrom)):
            return self.do_yield(s.value, st)
        return [Outcome(s2) for s2, _ in self.eval(s.value, st)]

    def s_Assign(self, s, st):
        outs = []
        if isinstance(s.value, (ast.Yield, ast.YieldFrom)):
            raise OutOfSubset("value of yield used", s)
        for s2, v in self.eval(s.value, st):
            cur = [s2]
            for tgt in s.targets:
                nxt = []
                for s3 in cur:
                    nxt.extend(self.assign(tgt, v, s3))
                cur = nxt
            outs.extend(Outcome(x) for x in cur)
        return outs

    def s_AnnAssign(self, s, st):
        if s.value is None:
            return [Outcome(st)]
        outs = []
        for s2, v in self.eval(s.value, st):
            outs.extend(Outcome(x) for x in self.assign(s.target, v, s2))
        return outs

    def s_AugAssign(self, s, st):
        h = self.contract.augassign(self, st, s) if hasattr(self.contract, 'augassign') else None
        if h is not None:
            return h
        outs = []
        for s2, vs in self.eval_seq([_load(s.target), s.value], st):
            a, b = vs
            if isinstance(s.op, ast.Add):
                if isinstance(a, C) and isinstance(b, C):
                    r = C(a.v + b.v)
                else:
                    r = ZV(self.as_int(a) + self.as_int(b), 'int')
            else:
                raise OutOfSubset("augassign op", s)
            outs.extend(Outcome(x) for x in self.assign(s.target, r, s2))
        return outs

    def assign(self, tgt, v: SV, st: State) -> List[State]:
        if isinstance(tgt, ast.Name):
            st = st.clone()
            st.locals[tgt.id] = v
            return [st]
        if isinstance(tgt, (ast.Tuple, ast.List)):
            if not isinstance(v, (Tup, Lst)) or len(v.items) != len(tgt.elts):
                raise OutOfSubset("tuple-unpack", tgt)
            cur = [st]
            for t, x in zip(tgt.elts, v.items):
                cur = [s2 for s in cur for s2 in self.assign(t, x, s)]
            return cur
        if isinstance(tgt, ast.Attribute):
            outs = []
            for s2, recv in self.eval(tgt.value, st):
                r = self.contract.setattr(self, s2, recv, tgt.attr, v)
                if r is None:
                    raise OutOfSubset(f"setattr:{tgt.attr}", tgt)
                outs.extend(r)
            return outs
        if isinstance(tgt, ast.Subscript):
            outs = []
            for s2, vs in self.eval_seq([tgt.value, tgt.slice], st):
                recv, k = vs
                r = self.contract.setitem(self, s2, recv, k, v) if hasattr(self.contract, 'setitem') else None
                if r is not None:
                    outs.extend(r)
                    continue
                if isinstance(recv, D):
                    s3 = s2.clone()
                    old = s3.dicts[recv.ref]
                    s3.dicts[recv.ref] = old.store(self.as_int(k), self.as_hv(s3, v))
                    s3.log_mut(recv.ref)
                    if hasattr(self.contract, 'on_dict_mutation'):
                        self.contract.on_dict_mutation(self, s3, recv.ref, old, s3.dicts[recv.ref], tgt)
                    outs.append(s3)
                else:
                    raise OutOfSubset("setitem", tgt)
            return outs
        raise OutOfSubset("assign target", tgt)

    def s_If(self, s, st):
        outs = []
        for s2, c in self.eval(s.test, st):
            for s3, tv in self.branch(s2, self.truth(s2, c), f"L{s.lineno}if"):
                outs.extend(self.exec_block(s.body if tv else s.orelse, s3))
        return outs

    def s_Return(self, s, st):
        if s.value is None:
            return [Outcome(st, RETURN, NONE)]
        return [Outcome(s2, RETURN, v) for s2, v in self.eval(s.value, st)]

    def s_Continue(self, s, st):
        return [Outcome(st, CONTINUE)]

    def s_Break(self, s, st):
        return [Outcome(st, BREAK)]

    def s_Raise(self, s, st):
        if s.exc is None:
            return [Outcome(st, RAISE, C(Ref('exc', 'reraise')))]
        # evaluate the exception constructor abstractly: only its class name matters
        name = _exc_name(s.exc)
        return [Outcome(st, RAISE, C(Ref('exc', name)))]

    def s_Assert(self, s, st):
        outs = []
        for s2, c in self.eval(s.test, st):
            t = self.to_z3_bool(self.truth(s2, c))
            self.oblige(s2, f"assert@L{s.lineno}", t, line=s.lineno)
            s3 = s2.clone()
            s3.assume(t)
            outs.append(Outcome(s3))
        return outs

    def s_Try(self, s, st):
        if s.handlers or s.orelse:
            h = self.contract.try_stmt(self, st, s) if hasattr(self.contract, 'try_stmt') else None
            if h is not None:
                return h
        st = st.clone()
        if s.finalbody:
            st.finals.append(s.finalbody)
        inner = []
        for o in self.exec_block(s.body, st):
            if o.sig == RAISE and isinstance(o.val, tuple) and o.val and o.val[0] == 'body-exit' and o.val[1] in (RETURN, BREAK, CONTINUE):
                # a `with` body left by return / break / continue: for the generator-based manager this is a NORMAL
                # resumption after its yield (no exception is thrown in): the else clause runs, then the exit goes on
                if s.orelse:
                    for eo in self.exec_block(s.orelse, o.st):
                        inner.append(Outcome(eo.st, o.sig, o.val) if eo.sig == NEXT else eo)
                else:
                    inner.append(o)
            elif o.sig == RAISE and s.handlers:
                inner.extend(self._handle(s, o))
            elif o.sig == NEXT and s.orelse:
                inner.extend(self.exec_block(s.orelse, o.st))
            else:
                inner.append(o)
        if not s.finalbody:
            return inner
        outs = []
        for o in inner:
            s2 = o.st.clone()
            # pop this finally
            if s2.finals and s2.finals[-1] is s.finalbody:
                s2.finals.pop()
            for fo in self.exec_block(s.finalbody, s2):
                if fo.sig == NEXT:
                    outs.append(Outcome(fo.st, o.sig, o.val))
                else:
                    outs.append(fo)   # finally overrides
        return outs

    def _handle(self, s, o):
        """`except` clauses: an exception is identified by its class name; a clause naming Exception / BaseException (or a bare
        `except:`) catches every modelled exception, any other clause exactly the classes it names (the library's own
        exception classes have no subclass relation among them)"""
        val = o.val
        if isinstance(val, tuple) and val and val[0] == 'body-exit':
            # a `with` body left by an exception (thrown into the manager at its yield) or by closing the generator the body
            # is suspended in (GeneratorExit)
            val = C(Ref('exc', 'GeneratorExit')) if val[1] == GENEXIT else val[2]
        name = val.v.name if isinstance(val, C) and isinstance(val.v, Ref) else None
        if name is None:
            raise OutOfSubset("exception value", s)
        base_only = name in ('GeneratorExit', 'KeyboardInterrupt', 'SystemExit')     # BaseException, not Exception
        for h in s.handlers:
            if h.type is None:
                names = None
            else:
                elts = h.type.elts if isinstance(h.type, ast.Tuple) else [h.type]
                names = [_exc_name(e) for e in elts]
            if names is None or name in names or ('Exception' in names and not base_only) or 'BaseException' in names:
                st = o.st.clone()
                if h.name:
                    st.locals[h.name] = o.val
                outs = []
                for ho in self.exec_block(h.body, st):
                    if ho.sig == RAISE and isinstance(ho.val, C) and isinstance(ho.val.v, Ref) and ho.val.v.name == 'reraise':
                        outs.append(Outcome(ho.st, RAISE, o.val))
                    else:
                        outs.append(ho)
                return outs
        return [o]

    def s_With(self, s, st):
        h = self.contract.with_stmt(self, st, s) if hasattr(self.contract, 'with_stmt') else None
        if h is not None:
            return h
        raise OutOfSubset("with", s)

    def s_FunctionDef(self, s, st):
        st = st.clone()
        st.locals[s.name] = Closure(s, dict(st.locals))
        return [Outcome(st)]

    def s_Match(self, s, st):
        h = self.contract.match_stmt(self, st, s) if hasattr(self.contract, 'match_stmt') else None
        if h is not None:
            return h
        raise OutOfSubset("match", s)

    def s_Global(self, s, st):
        return [Outcome(st)]

    # ------------------------------------------------------------------ yields
    def do_yield(self, y, st: State) -> List[Outcome]:
        ordinal = self.yield_ordinals.get(id(y), 9000 + getattr(y, 'lineno', 0))
        outs = []
        if isinstance(y, ast.Yield):
            vals = self.eval(y.value, st) if y.value is not None else [(st, NONE)]
            for s2, v in vals:
                outs.extend(self.emit_yield(s2, v, ordinal, y))
        else:
            for s2, src in self.eval(y.value, st):
                outs.extend(self.contract.yield_from(self, s2, src, ordinal, y))
        return outs

    def emit_yield(self, st: State, v: SV, ordinal: int, node) -> List[Outcome]:
        """a suspension point: contract hook produces obligations and the resumed state(s)."""
        if hasattr(self.contract, 'yield_outcomes'):
            r = self.contract.yield_outcomes(self, st, v, ordinal, node)
            if r is not None:
                return r
        res = self.contract.on_yield(self, st, v, ordinal, node)
        outs = []
        for s2 in res:
            outs.append(Outcome(s2))
        # the consumer may never resume: GeneratorExit raised at the yield
        if self.mode == 'sound' and getattr(self.contract, 'track_abandon', False):
            s3 = st.clone()
            s3.path.append(f"abandon@y{ordinal}")
            outs.append(Outcome(s3, GENEXIT, ordinal))
        return outs

    # ------------------------------------------------------------------ loops
    def s_For(self, s, st):
        if s.orelse:
            raise OutOfSubset("for-else", s)
        ordinal = self.loop_ordinals.get(id(s), 9000 + getattr(s, 'lineno', 0))
        outs = []
        for s2, it in self.eval(s.iter, st):
            outs.extend(self.loop(s, s2, it, ordinal))
        return outs

    def loop(self, s: ast.For, st: State, it: SV, ordinal: int) -> List[Outcome]:
        # concrete spine: unroll
        if isinstance(it, (Lst, Tup)):
            cur = [Outcome(st)]
            for x in it.items:
                nxt = []
                for o in cur:
                    if o.sig != NEXT:
                        nxt.append(o)
                        continue
                    for s3 in self.assign(s.target, x, o.st):
                        for bo in self.exec_block(s.body, s3):
                            if bo.sig in (NEXT, CONTINUE):
                                nxt.append(Outcome(bo.st))
                            elif bo.sig == BREAK:
                                nxt.append(Outcome(bo.st, 'loopdone'))
                            else:
                                nxt.append(bo)
                cur = nxt
            return [Outcome(o.st) if o.sig == 'loopdone' else o for o in cur]
        return self.contract.abstract_loop(self, st, s, it, ordinal)

    def written_names(self, body: List[ast.stmt]) -> List[str]:
        names = []
        for stmt in body:
            for n in ast.walk(stmt):
                if isinstance(n, ast.Name) and isinstance(n.ctx, ast.Store):
                    names.append(n.id)
                elif isinstance(n, ast.FunctionDef):
                    names.append(n.name)
        return sorted(set(names))

    def s_While(self, s, st):
        h = self.contract.while_stmt(self, st, s) if hasattr(self.contract, 'while_stmt') else None
        if h is not None:
            return h
        raise OutOfSubset("while", s)

    # ------------------------------------------------------------------ driver
    def run(self):
        finals = []
        for st in self.contract.setup(self):
            for o in self.exec_block(self.fdef.body, st):
                finals.append(o)
                self.contract.on_exit(self, o)
        return finals


def _load(t):
    t = _copy.deepcopy(t)
    for n in ast.walk(t):
        if hasattr(n, 'ctx'):
            n.ctx = ast.Load()
    return t


def _exc_name(e):
    if isinstance(e, ast.Call):
        e = e.func
    if isinstance(e, ast.Name):
        return e.id
    if isinstance(e, ast.Attribute):
        return e.attr
    return '?'
