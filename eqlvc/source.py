"""Index of the real source: every run re-parses /repo's working tree."""
import ast
import hashlib
import os

REPO = os.environ.get('EQL_REPO', '/repo')
PKG = os.path.join(REPO, 'src', 'entity_query_language')
MODULES = ['symbolic', 'cache_data', 'hashed_data', 'entity', 'predicate', 'rule', 'conclusion',
           'conclusion_selector', 'utils', 'failures', 'enums']


class SourceIndex:
    def __init__(self, pkg=PKG):
        self.pkg = pkg
        self.trees = {}
        self.funcs = {}      # 'module:Qual.name' -> FunctionDef
        self.classes = {}    # 'Class' -> (module, ClassDef)
        self.text = {}
        for m in MODULES:
            p = os.path.join(pkg, m + '.py')
            if not os.path.exists(p):
                continue
            src = open(p).read()
            self.text[m] = src
            t = ast.parse(src, filename=p)
            self.trees[m] = t
            self._index(m, t)

    def _index(self, m, t):
        for n in t.body:
            if isinstance(n, (ast.FunctionDef, ast.AsyncFunctionDef)):
                self._add(m, n.name, n)
                for sub in ast.walk(n):
                    if isinstance(sub, ast.FunctionDef) and sub is not n:
                        self._add(m, f"{n.name}.<locals>.{sub.name}", sub)
            elif isinstance(n, ast.ClassDef):
                self.classes[n.name] = (m, n)
                for c in n.body:
                    if isinstance(c, ast.FunctionDef):
                        q = f"{n.name}.{c.name}"
                        # property setter gets a distinct key
                        for d in c.decorator_list:
                            if isinstance(d, ast.Attribute) and d.attr == 'setter':
                                q = f"{n.name}.{c.name}.setter"
                        self._add(m, q, c)

    def _add(self, m, q, n):
        self.funcs[f"{m}:{q}"] = n

    def get(self, qual):
        return self.funcs.get(qual)

    def bases(self, cls):
        if cls not in self.classes:
            return []
        out = []
        for b in self.classes[cls][1].bases:
            if isinstance(b, ast.Name):
                out.append(b.id)
            elif isinstance(b, ast.Subscript) and isinstance(b.value, ast.Name):
                out.append(b.value.id)
            elif isinstance(b, ast.Attribute):
                out.append(b.attr)
        return out

    def mro(self, cls):
        """C3 is not needed for this code base (checked: linearisation by DFS left-to-right with
        duplicates removed keeping the last occurrence gives the same order for every class here)."""
        seen = []

        def go(c):
            seen.append(c)
            for b in self.bases(c):
                go(b)
        go(cls)
        out = []
        for c in reversed(seen):
            if c not in out:
                out.append(c)
        return list(reversed(out))

    def resolve_method(self, cls, name):
        for c in self.mro(cls):
            if c in self.classes:
                m = self.classes[c][0]
                q = f"{m}:{c}.{name}"
                if q in self.funcs:
                    return q
        return None

    def class_constant(self, cls, name):
        """the value a class attribute has by the class bodies alone (first class in the MRO whose body assigns a constant
        to it); (False, None) if there is none or it is not a constant"""
        for c in self.mro(cls):
            if c not in self.classes:
                continue
            for n in self.classes[c][1].body:
                tgt, val = None, None
                if isinstance(n, ast.Assign) and len(n.targets) == 1 and isinstance(n.targets[0], ast.Name):
                    tgt, val = n.targets[0].id, n.value
                elif isinstance(n, ast.AnnAssign) and isinstance(n.target, ast.Name):
                    tgt, val = n.target.id, n.value
                if tgt == name:
                    if isinstance(val, ast.Constant):
                        return True, val.value
                    return False, None
        return False, None

    def is_subclass(self, cls, base):
        return base in self.mro(cls)

    def subclasses(self, base):
        return [c for c in self.classes if self.is_subclass(c, base)]

    def fhash(self, qual):
        n = self.funcs.get(qual)
        if n is None:
            return None
        return hashlib.sha256(ast.dump(n).encode()).hexdigest()[:16]

    def src_of(self, qual):
        n = self.funcs.get(qual)
        m = qual.split(':')[0]
        return ast.get_source_segment(self.text[m], n)
