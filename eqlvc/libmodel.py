"""Model of the Python / library primitives the repository functions use (stated semantics, A6/A11),
shared by all contracts.  A contract class derives from LibModel and adds what is specific to the
function under proof.  Anything not modelled raises OutOfSubset -> the run reports UNDECIDED."""
from __future__ import annotations

import ast
from typing import List, Tuple

import z3

from . import z as Z
from .interp import (SV, ZV, C, D, Tup, Lst, Obj, Meth, Closure, Ref, NONE, TRUE, FALSE, State, Outcome,
                     OutOfSubset, NEXT, CONTINUE, BREAK, RETURN, RAISE, GENEXIT)

NODE_BOOL_FIELDS = {'_is_false_': 'is_false', '_yield_when_false_': 'ywf'}
SHAPE = {'_child_': Z.f_child, 'left': Z.f_left, 'right': Z.f_right, '_var_': Z.f_var}

isa = z3.Function('isa', Z.Str, Z.Node, Z.B)          # isinstance(node, <class name>)
parent_now = z3.Function('parent_now', Z.Node, Z.ArrNN, Z.Node)   # node._parent_ (depends on eval_parent)
cond_root = z3.Function('cond_root', Z.Node, Z.Node)  # node._conditions_root_
static_parent = z3.Function('static_parent', Z.Node, Z.Node)   # node._node_.parent.data (or NoneNode)


def parent_of(n, eval_parent):
    ep = z3.Select(eval_parent, n)
    return z3.If(ep != Z.NoneNode, ep, static_parent(n))


def cond_pos_def(n, eval_parent):
    """the library's own test for 'stands as a condition' (Variable / An / DomainMapping._evaluate__)"""
    p = parent_of(n, eval_parent)
    return z3.Or(n == cond_root(n), z3.And(p != Z.NoneNode, isa(str_const('LogicalOperator'), p)))


def strc(s):
    return z3.Const('str_' + s, Z.Str)


_known_strs = set()


def str_const(s):
    _known_strs.add(s)
    return strc(s)


def init_fields():
    return {'is_false': z3.Const('is_false0', Z.ArrNB), 'ywf': z3.Const('ywf0', Z.ArrNB),
            'eval_parent': z3.Const('eval_parent0', Z.ArrNN)}


def base_modenv():
    env = {}
    for f in ['copy', 'isinstance', 'len', 'next', 'iter', 'dict', 'list', 'tuple', 'sorted', 'any', 'all',
              'enumerate', 'zip', 'hasattr', 'getattr', 'is_caching_enabled', 'is_iterable', 'generate_combinations',
              'bool', 'map', 'filter', 'id', 'in_symbolic_mode', 'symbolic_mode', '_set_symbolic_mode', 'hash',
              'type', 'issubclass', 'defaultdict', 'make_list']:
        env[f] = C(Ref('func', f))
    for c in ['HashedValue', 'HashedIterable', 'SymbolicExpression', 'LogicalOperator', 'Entity', 'SetOf', 'Literal',
              'ResultQuantifier', 'QueryObjectDescriptor', 'AND', 'OR', 'ElseIf', 'Union', 'Variable', 'CacheDict',
              'UnificationDict', 'SeenSet', 'IndexedCache', 'ALL', 'From', 'Comparator', 'Not', 'An', 'The',
              'CanBehaveLikeAVariable', 'BinaryOperator', 'DomainMapping', 'Attribute', 'Index', 'Call', 'Flatten',
              'Predicate', 'ExceptIf', 'Alternative', 'Next', 'ForAll', 'Concatenate', 'Infer',
              'MultipleSolutionFound', 'NoSolutionFound', 'NotImplementedError', 'ValueError', 'KeyError',
              'AttributeError', 'StopIteration', 'HasType']:
        env[c] = C(Ref('class', c))
    env['operator'] = C(Ref('module', 'operator'))
    env['logger'] = C(Ref('module', 'logger'))
    env['All'] = C(Ref('const', 'All'))
    env['EQLMode'] = C(Ref('module', 'EQLMode'))
    env['PredicateType'] = C(Ref('module', 'PredicateType'))
    for n in ['cache_match_count', 'cache_enter_count', 'cache_search_count']:
        env[n] = C(Ref('counter', n))
    return env


class LibModel:
    """default hooks; contracts override / extend."""
    track_abandon = False
    child_optional = False
    var_optional = False

    def __init__(self, src):
        self.src = src      # SourceIndex

    # ------------------------------------------------------------- attributes
    def getattr(self, eng, st: State, recv: SV, name: str):
        if isinstance(recv, ZV) and recv.ty in ('node', 'optnode'):
            n = recv.t
            if recv.ty == 'optnode':
                eng.oblige(st, f"safe/non-None.{name}", n != Z.NoneNode)
                st = st.clone()
                st.assume(n != Z.NoneNode)
            if name == '_id_':
                return [(st, ZV(Z.nid(n), 'int'))]
            if name in SHAPE:
                opt = (name == '_child_' and self.child_optional) or (name == '_var_' and self.var_optional)
                return [(st, ZV(SHAPE[name](n), 'optnode' if opt else 'node'))]
            if name in NODE_BOOL_FIELDS:
                return [(st, ZV(z3.Select(st.fields[NODE_BOOL_FIELDS[name]], n), 'bool'))]
            if name == '_invert_':
                return [(st, ZV(Z.inv(n), 'bool'))]
            if name == '_selects_conclusions_':
                return [(st, ZV(Z.selects_conclusions(n), 'bool'))]
            if name == '_eval_parent_':
                return [(st, ZV(z3.Select(st.fields['eval_parent'], n), 'optnode'))]
            if name == '_id_expression_map_':
                return [(st, Obj('idmap'))]
            if name == '_conditions_root_':
                return [(st, ZV(cond_root(n), 'node'))]
            if name == '_parent_':
                # SymbolicExpression._parent_ (symbolic.py): the evaluation parent if set, else the graph parent
                return [(st, ZV(parent_of(n, st.fields['eval_parent']), 'optnode'))]
            if name == '_node_':
                return [(st, Obj('rxnode', {'of': n}))]
            if name == 'operation':
                return [(st, Obj('operation', {'of': n}))]
            if name in ('_cache_', 'right_cache', 'left_cache'):
                return [(st, Obj('cache', {'of': n, 'which': name}))]
            if name == '_unique_variables_':
                return [(st, Obj('uniqvars', {'of': n}))]
            if name == '_conclusion_':
                return [(st, Obj('conclusions', {'of': n}))]
            return self.node_member(eng, st, recv, name)
        if isinstance(recv, ZV) and recv.ty == 'hv':
            if name == 'value':
                return [(st, ZV(Z.hv_value(recv.t), 'val'))]
            if name == 'id_':
                return [(st, ZV(Z.hv_id(recv.t), 'int'))]
        if isinstance(recv, (D, Lst)):
            return [(st, Meth(recv, name))]
        if isinstance(recv, C) and isinstance(recv.v, Ref):
            r = recv.v
            if r.kind == 'module' and r.name == 'operator':
                return [(st, C(Ref('op', name)))]
            if r.kind == 'module' and r.name == 'logger':
                return [(st, C(Ref('func', 'logger.' + name)))]
            if r.kind == 'module' and r.name in ('EQLMode', 'PredicateType'):
                return [(st, C(Ref('enum', f"{r.name}.{name}")))]
            if r.kind == 'counter':
                return [(st, Obj('counter'))]
            if r.kind == 'class':
                return [(st, C(Ref('classattr', f"{r.name}.{name}")))]
        if isinstance(recv, Obj):
            if recv.kind == 'super_proxy':
                return [(st, Meth(recv, name))]
            if recv.kind == 'rxnode' and name == 'name':
                return [(st, C('<nodename>'))]
            if recv.kind == 'counter':
                return [(st, Obj('counter'))]
            return [(st, Meth(recv, name))]
        return None

    KNOWN_NODE_METHODS = ('_evaluate__', '_evaluate_', '_apply_mapping_', '_is_duplicate_output_', '_reset_cache_',
                          '_reset_only_my_cache_', 'update_cache', 'yield_final_output_from_cache', 'evaluate_right',
                          '_required_variables_from_child_', '_warn_on_unbound_variables_', 'evaluate')

    def node_member(self, eng, st, recv, name):
        """an attribute of an expression node that is not part of the abstract state: resolved through the real class
        (properties are executed, methods become callable, anything else is outside the model)"""
        n = recv.t
        is_self = st.ghost.get('self') is not None and n.eq(st.ghost['self'])
        cls = getattr(self, 'cls', None)
        if getattr(self, 'node_' + name, None) is not None or name in getattr(self, 'inline', ()) \
                or name in getattr(self, 'inline_gens', ()):
            return [(st, Meth(recv, name))]
        if is_self and cls:
            q = self.src.resolve_method(cls, name)
            if q is not None:
                fd = self.src.get(q)
                decos = [d.id if isinstance(d, ast.Name) else (d.attr if isinstance(d, ast.Attribute) else
                                                               (d.func.id if isinstance(d, ast.Call) and isinstance(d.func, ast.Name) else ''))
                         for d in fd.decorator_list]
                if 'property' in decos or 'cached_property' in decos:
                    return self.inline_method(eng, st, q, recv, [], {}, None)
                return [(st, Meth(recv, name))]
            raise OutOfSubset(f"attribute {cls}.{name} is not part of the abstract state")
        if name in self.KNOWN_NODE_METHODS:
            return [(st, Meth(recv, name))]
        raise OutOfSubset(f"attribute .{name} of a node is not part of the abstract state")

    def setattr(self, eng, st: State, recv: SV, name: str, v: SV):
        if isinstance(recv, ZV) and recv.ty in ('node', 'optnode'):
            n = recv.t
            st = st.clone()
            if recv.ty == 'optnode':
                eng.oblige(st, f"safe/non-None.set.{name}", n != Z.NoneNode)
                st.assume(n != Z.NoneNode)
            if name in NODE_BOOL_FIELDS:
                f = NODE_BOOL_FIELDS[name]
                st.fields[f] = z3.Store(st.fields[f], n, eng.to_z3_bool(eng.truth(st, v)) if not self._is_bool(v) else self._bool_term(v))
                self.note_write(eng, st, f, n)
                return [st]
            if name == '_eval_parent_':
                st.fields['eval_parent'] = z3.Store(st.fields['eval_parent'], n, self.as_optnode(v))
                self.note_write(eng, st, 'eval_parent', n)
                return [st]
        if isinstance(recv, Obj) and recv.kind == 'counter':
            return [st]
        return None

    def note_write(self, eng, st, field, n):
        st.ghost.setdefault('writes', [])
        st.ghost['writes'] = st.ghost['writes'] + [(field, n)]

    @staticmethod
    def _is_bool(v):
        return (isinstance(v, ZV) and v.ty == 'bool') or (isinstance(v, C) and isinstance(v.v, bool))

    @staticmethod
    def _bool_term(v):
        return v.t if isinstance(v, ZV) else z3.BoolVal(v.v)

    @staticmethod
    def as_optnode(v):
        if isinstance(v, C) and v.v is None:
            return Z.NoneNode
        if isinstance(v, ZV) and v.ty in ('node', 'optnode'):
            return v.t
        raise OutOfSubset(f"expected node or None: {v}")

    # ------------------------------------------------------------- calls
    def call(self, eng, st: State, f: SV, args: List[SV], kwargs, node):
        if isinstance(f, C) and isinstance(f.v, Ref):
            r = f.v
            if r.kind == 'func':
                m = getattr(self, 'f_' + r.name.replace('.', '_'), None)
                if m is not None:
                    return m(eng, st, args, kwargs, node)
                if r.name.startswith('logger.'):
                    return [(st, NONE)]
            if r.kind == 'class':
                m = getattr(self, 'new_' + r.name, None)
                if m is not None:
                    return m(eng, st, args, kwargs, node)
            if r.kind == 'op':
                # calling operator.xx(a, b) directly
                a, b = args
                tag = Z.OPS.get(r.name)
                if tag is None:
                    raise OutOfSubset(f"operator.{r.name}", node)
                return [(st, ZV(Z.opapp(z3.IntVal(tag), eng.as_val(st, a), eng.as_val(st, b)), 'bool'))]
        if isinstance(f, Meth):
            recv = f.recv
            if isinstance(recv, D):
                m = getattr(self, 'dict_' + f.name, None)
                if m is not None:
                    return m(eng, st, recv, args, kwargs, node)
            if isinstance(recv, Lst):
                m = getattr(self, 'list_' + f.name, None)
                if m is not None:
                    return m(eng, st, recv, args, kwargs, node)
            if isinstance(recv, ZV) and recv.ty in ('node', 'optnode'):
                m = getattr(self, 'node_' + f.name, None)
                if m is not None:
                    return m(eng, st, recv, args, kwargs, node)
            if isinstance(recv, Obj):
                m = getattr(self, f"obj_{recv.kind}_{f.name}", None)
                if m is not None:
                    return m(eng, st, recv, args, kwargs, node)
        if isinstance(f, Closure):
            return self.call_closure(eng, st, f, args, kwargs, node)
        if isinstance(f, Obj):
            m = getattr(self, f"obj_{f.kind}___call__", None)
            if m is not None:
                return m(eng, st, f, args, kwargs, node)
        if isinstance(f, Meth) and isinstance(f.recv, ZV) and f.recv.ty == 'node' and f.name in getattr(self, 'inline_gens', ()):
            q = self.src.resolve_method(self.cls, f.name)
            if q is not None:
                return [(st, Obj('gen', {'qual': q, 'args': [f.recv] + list(args), 'kwargs': kwargs}))]
        # a method of the class under proof whose real body is executed in place
        if isinstance(f, Meth) and isinstance(f.recv, ZV) and f.recv.ty == 'node' and f.name in getattr(self, 'inline', ()):
            q = self.src.resolve_method(self.cls, f.name)
            if q is not None:
                return self.inline_method(eng, st, q, f.recv, args, kwargs, node)
        # a helper method of the same object that has no contract: its real body is executed in place (generators: when
        # they are iterated)
        if isinstance(f, Meth) and isinstance(f.recv, ZV) and f.recv.ty == 'node' and getattr(self, 'cls', None) \
                and st.ghost.get('self') is not None and f.recv.t.eq(st.ghost['self']) and f.name not in self.KNOWN_NODE_METHODS:
            q = self.src.resolve_method(self.cls, f.name)
            if q is not None and q != getattr(self, 'qual', None):
                fd = self.src.get(q)
                if any(isinstance(x, (ast.Yield, ast.YieldFrom)) for x in ast.walk(fd)):
                    return [(st, Obj('gen', {'qual': q, 'args': [f.recv] + list(args), 'kwargs': kwargs}))]
                return self.inline_method(eng, st, q, f.recv, args, kwargs, node)
        return None

    # --- dict methods
    def dict_update(self, eng, st, recv, args, kwargs, node):
        (o,) = args
        st = st.clone()
        if isinstance(o, D):
            if o.ref == recv.ref:
                return [(st, NONE)]      # d.update(d) changes nothing
            old = st.dicts[recv.ref]
            st.dicts[recv.ref] = old.merge(st.dicts[o.ref])
            st.log_mut(recv.ref)
            if hasattr(self, 'on_dict_mutation'):
                self.on_dict_mutation(eng, st, recv.ref, old, st.dicts[recv.ref], node)
            return [(st, NONE)]
        if isinstance(o, C) and o.v is None:
            raise OutOfSubset("dict.update(None) raises TypeError", node)
        raise OutOfSubset(f"dict.update({type(o).__name__})", node)

    def dict_copy(self, eng, st, recv, args, kwargs, node):
        st = st.clone()
        return [(st, eng.new_dict(st, st.dicts[recv.ref], own=True))]

    def dict_get(self, eng, st, recv, args, kwargs, node):
        k = eng.as_int(args[0])
        m = st.dicts[recv.ref]
        out = []
        for s2, has in eng.branch(st, m.contains(k), f"L{node.lineno}get"):
            out.append((s2, ZV(m.get(k), 'hv') if has else (args[1] if len(args) > 1 else NONE)))
        return out

    def dict_items(self, eng, st, recv, args, kwargs, node):
        return [(st, Obj('dictitems', {'ref': recv.ref}))]

    def dict_keys(self, eng, st, recv, args, kwargs, node):
        return [(st, Obj('dictkeys', {'ref': recv.ref}))]

    def dict_values(self, eng, st, recv, args, kwargs, node):
        return [(st, Obj('dictvalues', {'ref': recv.ref}))]

    # --- builtins
    def f_copy(self, eng, st, args, kwargs, node):
        (o,) = args
        if isinstance(o, D):
            st = st.clone()
            return [(st, eng.new_dict(st, st.dicts[o.ref], own=True))]
        raise OutOfSubset(f"copy({type(o).__name__})", node)

    def f_dict(self, eng, st, args, kwargs, node):
        if not args:
            st = st.clone()
            return [(st, eng.new_dict(st, own=True))]
        return self.f_copy(eng, st, args, kwargs, node)

    def f_list(self, eng, st, args, kwargs, node):
        if not args:
            return [(st, Lst([], eng.new_ref()))]
        (o,) = args
        if isinstance(o, (Lst, Tup)):
            return [(st, Lst(list(o.items), eng.new_ref()))]
        raise OutOfSubset(f"list({type(o).__name__})", node)

    def f_isinstance(self, eng, st, args, kwargs, node):
        o, cls = args
        names = []
        if isinstance(cls, C) and isinstance(cls.v, Ref) and cls.v.kind == 'class':
            names = [cls.v.name]
        elif isinstance(cls, Tup):
            names = [c.v.name for c in cls.items]
        else:
            raise OutOfSubset("isinstance class arg", node)
        if isinstance(o, ZV) and o.ty in ('node', 'optnode'):
            t = z3.Or(*[isa(str_const(nm), o.t) for nm in names])
            if o.ty == 'optnode':
                t = z3.And(o.t != Z.NoneNode, t)
            return [(st, ZV(t, 'bool'))]
        if isinstance(o, ZV) and o.ty == 'hv':
            return [(st, C('HashedValue' in names))]
        if isinstance(o, D):
            return [(st, C(any(nm in ('dict', 'Dict') for nm in names)))]
        if isinstance(o, C) and o.v is None:
            return [(st, FALSE)]
        if isinstance(o, ZV) and o.ty == 'val':
            t = z3.Or(*[val_isa(str_const(nm), o.t) for nm in names])
            return [(st, ZV(t, 'bool'))]
        raise OutOfSubset(f"isinstance({o})", node)

    def f_is_caching_enabled(self, eng, st, args, kwargs, node):
        return [(st, ZV(st.ghost['caching'], 'bool'))]

    def f_is_iterable(self, eng, st, args, kwargs, node):
        (o,) = args
        if isinstance(o, ZV) and o.ty == 'val':
            return [(st, ZV(Z.is_iter(o.t), 'bool'))]
        if isinstance(o, (Lst, Tup, D)):
            return [(st, TRUE)]
        raise OutOfSubset("is_iterable arg", node)

    def f_any(self, eng, st, args, kwargs, node):
        (o,) = args
        if isinstance(o, Obj) and o.kind == 'genexp':
            # an unknown predicate over an unknown collection: nondeterministic result (both outcomes explored)
            return [(st, ZV(z3.FreshConst(Z.B, 'any'), 'bool'))]
        raise OutOfSubset("any()", node)

    f_all = f_any

    def obj_operation___call__(self, eng, st, recv, args, kwargs, node):
        a, b = args
        return [(st, ZV(Z.opapp(Z.optag(recv.data['of']), eng.as_val(st, a), eng.as_val(st, b)), 'bool'))]

    def f_bool(self, eng, st, args, kwargs, node):
        return [(st, eng.as_bool_sv(eng.truth(st, args[0])))]

    def f_len(self, eng, st, args, kwargs, node):
        (o,) = args
        if isinstance(o, (Lst, Tup)):
            return [(st, C(len(o.items)))]
        raise OutOfSubset("len", node)

    def new_HashedValue(self, eng, st, args, kwargs, node):
        val = kwargs.get('value', args[0] if args else None)
        idv = kwargs.get('id_', args[1] if len(args) > 1 else None)
        if val is None:
            raise OutOfSubset("HashedValue()", node)
        if isinstance(val, ZV) and val.ty == 'hv' and idv is None:
            return [(st, val)]       # HashedValue(hv) keeps id and value (hashed_data.py:31-33)
        st = st.clone()
        v = eng.as_val(st, val)
        if idv is None or (isinstance(idv, C) and idv.v is None):
            i = Z.objid(v)
        else:
            i = eng.as_int(idv)
        return [(st, ZV(Z.mkhv(v, i), 'hv'))]

    def call_closure(self, eng, st, f: Closure, args, kwargs, node):
        fd = f.fdef
        if isinstance(fd, ast.Lambda):
            params = [a.arg for a in fd.args.args]
            s2 = st.clone()
            saved = s2.locals
            s2.locals = dict(f.env)
            s2.locals.update(dict(zip(params, args)))
            out = []
            for s3, v in eng.eval(fd.body, s2):
                s3 = s3.clone()
                s3.locals = saved
                out.append((s3, v))
            return out
        return self.inline_def(eng, st, fd, dict(f.env), args, kwargs, node)

    def inline_def(self, eng, st, fd, env, args, kwargs, node):
        """execute the body of a (non-generator) function definition in place: the callee's real text."""
        for n in ast.walk(fd):
            if isinstance(n, (ast.Yield, ast.YieldFrom)):
                raise OutOfSubset(f"inline of generator {fd.name}", node)
        params = [a.arg for a in fd.args.args]
        defaults = fd.args.defaults
        s2 = st.clone()
        saved = s2.locals
        saved_finals = s2.finals
        s2.finals = []
        loc = dict(env)
        dflt_start = len(params) - len(defaults)
        for i, p in enumerate(params):
            if i < len(args):
                loc[p] = args[i]
            elif p in kwargs:
                loc[p] = kwargs[p]
            elif i >= dflt_start:
                dv = defaults[i - dflt_start]
                if not isinstance(dv, ast.Constant):
                    raise OutOfSubset("non-constant default", node)
                loc[p] = C(dv.value)
            else:
                raise OutOfSubset(f"missing argument {p}", node)
        s2.locals = loc
        out = []
        for o in eng.exec_block(fd.body, s2):
            s3 = o.st.clone()
            s3.locals = saved
            s3.finals = saved_finals
            if o.sig == RETURN:
                out.append((s3, o.val))
            elif o.sig == NEXT:
                out.append((s3, NONE))
            elif o.sig == RAISE:
                eng.pending_raises.append(Outcome(s3, RAISE, o.val))
            else:
                raise OutOfSubset(f"signal {o.sig} out of inlined {fd.name}", node)
        return out

    def inline_method(self, eng, st, qual, recv, args, kwargs, node):
        fd = self.src.get(qual)
        if fd is None:
            raise OutOfSubset(f"no source for {qual}", node)
        eng.notes.append(f"inlined:{qual}")
        return self.inline_def(eng, st, fd, {}, [recv] + list(args), kwargs, node)

    # ------------------------------------------------------------- defaults for hooks
    def compare(self, eng, st, op, a, b):
        return None

    # ------------------------------------------------------------- comprehensions over a concrete spine
    def _comp_items(self, eng, st, e):
        if len(e.generators) != 1 or e.generators[0].is_async:
            raise OutOfSubset("comprehension with several generators", e)
        g = e.generators[0]
        outs = []
        for s2, it in eng.eval(g.iter, st):
            if isinstance(it, C) and it.v is None:
                raise OutOfSubset("comprehension over None", e)
            if not isinstance(it, (Lst, Tup)):
                return None
            cur = [(s2, [])]
            for x in it.items:
                nxt = []
                for s3, acc in cur:
                    for s4 in eng.assign(g.target, x, s3):
                        conds = [(s4, True)]
                        for c in g.ifs:
                            nc = []
                            for s5, ok in conds:
                                if not ok:
                                    nc.append((s5, False))
                                    continue
                                for s6, cv in eng.eval(c, s5):
                                    for s7, tv in eng.branch(s6, eng.truth(s6, cv), f"L{e.lineno}cif"):
                                        nc.append((s7, tv))
                            conds = nc
                        for s5, ok in conds:
                            nxt.append((s5, acc + [x] if ok else acc))
                cur = nxt
            outs.extend(cur)
        return outs

    def dictcomp_filter(self, eng, st, e):
        """{k: v for k, v in X.items() if k in Y}: the restriction of the dict X to the keys in Y"""
        if len(e.generators) != 1:
            return None
        g = e.generators[0]
        if not (isinstance(g.iter, ast.Call) and isinstance(g.iter.func, ast.Attribute) and g.iter.func.attr == 'items'
                and isinstance(g.target, ast.Tuple) and len(g.target.elts) == 2 and all(isinstance(t, ast.Name) for t in g.target.elts)):
            return None
        kn, vn = g.target.elts[0].id, g.target.elts[1].id
        if not (isinstance(e.key, ast.Name) and e.key.id == kn and isinstance(e.value, ast.Name) and e.value.id == vn):
            return None
        if len(g.ifs) != 1:
            return None
        c = g.ifs[0]
        if not (isinstance(c, ast.Compare) and len(c.ops) == 1 and isinstance(c.ops[0], ast.In)
                and isinstance(c.left, ast.Name) and c.left.id == kn):
            return None
        outs = []
        for s2, x in eng.eval(g.iter.func.value, st):
            if not isinstance(x, D):
                return None
            for s3, y in eng.eval(c.comparators[0], s2):
                ids = self.key_ids(eng, s3, y)
                if ids is None:
                    return None
                s3 = s3.clone()
                nd = eng.new_dict(s3, s3.dicts[x.ref].restrict(ids), own=True)
                der = dict(s3.ghost.get('derived', {}))
                der[nd.ref] = (x.ref, ids)          # provenance: restriction of which dict to which keys
                s3.ghost['derived'] = der
                outs.append((s3, nd))
        return outs

    def key_ids(self, eng, st, y):
        if isinstance(y, D):
            return st.dicts[y.ref].has
        if isinstance(y, Obj) and y.kind == 'keylist':
            return y.data['ids']
        return None

    def dictcomp(self, eng, st, e):
        r = self.dictcomp_filter(eng, st, e)
        if r is not None:
            return r
        sel = self._comp_items(eng, st, e)
        if sel is None:
            return None
        g = e.generators[0]
        outs = []
        for s2, items in sel:
            cur = [(s2, [])]
            for x in items:
                nxt = []
                for s3, acc in cur:
                    for s4 in eng.assign(g.target, x, s3):
                        for s5, kv in eng.eval_seq([e.key, e.value], s4):
                            nxt.append((s5, acc + [(kv[0], kv[1])]))
                cur = nxt
            for s3, pairs in cur:
                if all(((isinstance(k, C) and isinstance(k.v, int) and not isinstance(k.v, bool)) or (isinstance(k, ZV) and k.ty == 'int'))
                       and isinstance(v, ZV) and v.ty == 'hv' for k, v in pairs):
                    m = Z.ZMap.empty()
                    for k, v in pairs:
                        m = m.store(eng.as_int(k), v.t)
                    s3 = s3.clone()
                    outs.append((s3, eng.new_dict(s3, m, own=True)))
                else:
                    outs.append((s3, Obj('pymap', {'items': pairs})))
        return outs

    def listcomp(self, eng, st, e):
        sel = self._comp_items(eng, st, e)
        if sel is None:
            return None
        g = e.generators[0]
        outs = []
        for s2, items in sel:
            cur = [(s2, [])]
            for x in items:
                nxt = []
                for s3, acc in cur:
                    for s4 in eng.assign(g.target, x, s3):
                        for s5, v in eng.eval(e.elt, s4):
                            nxt.append((s5, acc + [v]))
                cur = nxt
            outs.extend((s3, Lst(vs, eng.new_ref())) for s3, vs in cur)
        return outs

    @staticmethod
    def pymap_lookup(eng, st, pm, k):
        for kk, vv in pm.data['items']:
            if isinstance(kk, ZV) and isinstance(k, ZV) and kk.t.eq(k.t):
                return vv
            if isinstance(kk, C) and isinstance(k, C) and kk.v == k.v:
                return vv
        raise OutOfSubset(f"lookup of {k} in a python map")

    def obj_combo_values(self, eng, st, recv, args, kwargs, node):
        return [(st, Lst([v for _, v in recv.data['items']]))]

    def obj_combo_keys(self, eng, st, recv, args, kwargs, node):
        return [(st, Lst([k for k, _ in recv.data['items']]))]

    def obj_combo_items(self, eng, st, recv, args, kwargs, node):
        return [(st, Lst([Tup([k, v]) for k, v in recv.data['items']]))]

    def obj_pymap_values(self, eng, st, recv, args, kwargs, node):
        return [(st, Lst([v for _, v in recv.data['items']]))]

    def obj_pymap_keys(self, eng, st, recv, args, kwargs, node):
        return [(st, Lst([k for k, _ in recv.data['items']]))]

    def obj_pymap_items(self, eng, st, recv, args, kwargs, node):
        return [(st, Lst([Tup([k, v]) for k, v in recv.data['items']]))]

    def genexp(self, eng, st, e):
        return [(st, Obj('genexp', {'node': e, 'env': dict(st.locals)}))]

    def on_exit(self, eng, o: Outcome):
        pass

    def yield_from(self, eng, st, src, ordinal, node):
        raise OutOfSubset("yield from", node)

    def abstract_loop(self, eng, st, s, it, ordinal):
        raise OutOfSubset(f"loop over {it}", s)


val_isa = z3.Function('val_isa', Z.Str, Z.Val, Z.B)     # isinstance(user value, class)
