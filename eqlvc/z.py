"""z3 sorts, spec functions and map helpers shared by the executor and the contracts.

Encoding (see DESIGN.md section 2.2, revised in section 11):
  * user values            -> uninterpreted sort Val
  * HashedValue            -> datatype HV(value: Val, id: Int)
  * expression nodes       -> uninterpreted sort Node (+ shape functions)
  * binding dicts          -> pair of arrays (has: Int->Bool, val: Int->HV)
  * environments rho       -> total array Int->HV
All map operations are z3 array combinators (store / map / const), so every
obligation is quantifier-free and z3 returns models for failing ones.
"""
import z3
from z3 import (And, Or, Not, Implies, If, BoolVal, IntVal, K, Store, Select, Map as ZMapF,
                Function, Const, Consts, FreshConst, BoolSort, IntSort, ArraySort, DeclareSort,
                Datatype, Bool, Bools, Int, Xor)

B = BoolSort()
I = IntSort()
Val = DeclareSort('Val')
Node = DeclareSort('Node')
Str = DeclareSort('Str')  # attribute / parameter names
_HV = Datatype('HV')
_HV.declare('mkhv', ('hv_value', Val), ('hv_id', I))
HV = _HV.create()
mkhv, hv_value, hv_id = HV.mkhv, HV.hv_value, HV.hv_id

ArrIB = ArraySort(I, B)
ArrIH = ArraySort(I, HV)
ArrNB = ArraySort(Node, B)
ArrNN = ArraySort(Node, Node)
Env = ArrIH

_b1, _b2 = Bools('_b1 _b2')
OR_D = Or(_b1, _b2).decl()
AND_D = And(_b1, _b2).decl()
NOT_D = Not(_b1).decl()
IMP_D = Implies(_b1, _b2).decl()


def ite_decl(sort):
    x, y = Consts('_x _y', sort)
    return If(_b1, x, y).decl()


ITE_HV = ite_decl(HV)
ITE_B = ite_decl(B)
ITE_N = ite_decl(Node)

# ------------------------------------------------------------------ values
truthy = Function('truthy', Val, B)          # bool(v) for a user value
boolval = Function('boolval', B, Val)        # the Python bools as values
objid = Function('objid', Val, I)            # id(v) / v._id_ as used by HashedValue.__post_init__
NoneVal = Const('NoneVal', Val)
attr = Function('attr', Str, Val, Val)       # getattr(v, name)
item = Function('item', Val, Val, Val)       # v[key]
callv = Function('callv', Val, Val, Val)     # v(*args) with the argument pack abstracted to one Val
is_iter = Function('is_iter', Val, B)        # utils.is_iterable(v)
seq_len = Function('seq_len', Val, I)        # number of elements iteration of v delivers
seq_at = Function('seq_at', Val, I, Val)     # j-th element
key = Function('key', Val, I)                # total order used only for the comparator inverse table

# ------------------------------------------------------------------ nodes
nid = Function('nid', Node, I)               # node._id_  (injective: IDGenerator contract)
node_of = Function('node_of', I, Node)       # _id_expression_map_[i]
NoneNode = Const('NoneNode', Node)
f_child = Function('f_child', Node, Node)
f_left = Function('f_left', Node, Node)
f_right = Function('f_right', Node, Node)
f_var = Function('f_var', Node, Node)
inv = Function('inv', Node, B)               # node._invert_ (constant during evaluation)
Sub = Function('Sub', Node, ArrNB)           # Sub(n)[d]  <=> d is n or a descendant of n
SubIds = Function('SubIds', Node, ArrIB)     # ids of those nodes
cond_pos = Function('cond_pos', Node, B)     # node stands in condition position (truth matters)
selects_conclusions = Function('selects_conclusions', Node, B)   # node._selects_conclusions_ (class constant: the node is a ConclusionSelector)
is_value = Function('is_value', Node, B)     # node binds its own id to a value (CanBehaveLikeAVariable)
attr_name = Function('attr_name', Node, Str)
index_key = Function('index_key', Node, Val)
call_args = Function('call_args', Node, Val)
optag = Function('optag', Node, I)           # Comparator.operation as a tag

# ------------------------------------------------------------------ spec functions (ghost)
Den = Function('Den', Node, Env, B)          # truth of a node under an environment
ValOf = Function('ValOf', Node, Env, Val)    # value of a node under an environment
WD = Function('WD', Node, Env, B)            # environment is a well-formed total valuation of the node's subtree
truth_node = Function('truth_node', Node, B) # node filters by its own truth whatever its position (descriptors, quantifiers, operators)
indom = Function('indom', Node, HV, B)       # hv is an element of Dom(x)
_G0 = Function('G0', Node, ArrIB, ArrIH, B)  # GoodRow on the restriction of a row to the node's subtree


class ZMap:
    """Content of a binding dict: finite map Int -> HV as two arrays."""
    __slots__ = ('has', 'val')

    def __init__(self, has, val):
        self.has, self.val = has, val

    @staticmethod
    def empty():
        return ZMap(K(I, BoolVal(False)), FreshConst(ArrIH, 'dflt'))

    @staticmethod
    def fresh(name='m'):
        return ZMap(FreshConst(ArrIB, name + '_h'), FreshConst(ArrIH, name + '_v'))

    def contains(self, k):
        return Select(self.has, k)

    def get(self, k):
        return Select(self.val, k)

    def store(self, k, v):
        return ZMap(Store(self.has, k, BoolVal(True)), Store(self.val, k, v))

    def merge(self, other):
        """self.update(other): other's entries win."""
        return ZMap(ZMapF(OR_D, self.has, other.has), ZMapF(ITE_HV, other.has, other.val, self.val))

    def restrict(self, ids):
        h = ZMapF(AND_D, self.has, ids)
        return ZMap(h, self.val)

    def is_empty(self):
        return self.has == K(I, BoolVal(False))

    def norm_val(self):
        return ZMapF(ITE_HV, self.has, self.val, K(I, mkhv(NoneVal, IntVal(0))))

    def same(self, other):
        return And(self.has == other.has, self.norm_val() == other.norm_val())

    def consistent_with(self, other):
        """the two maps agree wherever both are defined."""
        both = ZMapF(AND_D, self.has, other.has)
        return ZMapF(ITE_HV, both, self.val, other.val) == other.val

    def subset_of_ids(self, ids):
        return ZMapF(IMP_D, self.has, ids) == K(I, BoolVal(True))

    def extends(self, other):
        """self is a superset of other (as partial maps)."""
        return And(ZMapF(IMP_D, other.has, self.has) == K(I, BoolVal(True)),
                   ZMapF(ITE_HV, other.has, other.val, self.val) == self.val)


def ext(rho, m):
    """total environment rho agrees with m on dom m."""
    return ZMapF(ITE_HV, m.has, m.val, rho) == rho


def env_of(m, rho0):
    """the total environment that is m on dom m and rho0 elsewhere."""
    return ZMapF(ITE_HV, m.has, m.val, rho0)


def ids_union(a, b):
    return ZMapF(OR_D, a, b)


def good_row(n, m):
    r = m.restrict(SubIds(n))
    return _G0(n, r.has, r.norm_val())


def havoc_sub(arr, c, ite):
    """arr' equal to arr outside Sub(c), arbitrary inside."""
    fresh = FreshConst(arr.sort(), 'hv')
    return ZMapF(ite, Sub(c), fresh, arr)


OPS = {'lt': 0, 'le': 1, 'gt': 2, 'ge': 3, 'eq': 4, 'ne': 5, 'contains': 6, 'not_contains': 7}
opapp = Function('opapp', I, Val, Val, B)    # operation(a, b) for an operation tag
contains_f = Function('contains_f', Val, Val, B)


def op_sem(tag, a, b):
    """Python semantics of operator.<tag>(a, b) for totally ordered, eq-consistent values (via key)."""
    t = OPS[tag] if isinstance(tag, str) else tag
    return {0: key(a) < key(b), 1: key(a) <= key(b), 2: key(a) > key(b), 3: key(a) >= key(b),
            4: key(a) == key(b), 5: key(a) != key(b), 6: contains_f(a, b), 7: Not(contains_f(a, b))}[t]
