"""eqlvc command line.

  python3-vt -m eqlvc check <PROPERTY> [--tier quick|thorough]
  python3-vt -m eqlvc replay <replay-file>
  python3-vt -m eqlvc list

exit codes: 0 property held on everything explored (KNOWN-FINDING lines possible) / 1 VIOLATION /
            2 UNDECIDED (solver unknown, code outside the supported subset) / 3 checker crash
"""
from __future__ import annotations

import argparse
import hashlib
import json
import multiprocessing as mp
import os
import sys
import time
import traceback

ROOT = os.path.dirname(os.path.dirname(os.path.abspath(__file__)))
sys.path.insert(0, ROOT)


def _verif_hash():
    h = hashlib.sha256()
    for d in ('eqlvc', 'contracts'):
        for f in sorted(os.listdir(os.path.join(ROOT, d))):
            if f.endswith('.py'):
                h.update(open(os.path.join(ROOT, d, f), 'rb').read())
    return h.hexdigest()[:16]


def _repo_hash(src):
    h = hashlib.sha256()
    for m in sorted(src.text):
        h.update(src.text[m].encode())
    return h.hexdigest()[:16]


def _task(args):
    cname, mode = args
    try:
        from eqlvc.source import SourceIndex
        from eqlvc.runner import run_contract
        import contracts.registry as reg
        src = SourceIndex()
        cls = reg.by_name(cname)
        c = cls(src)
        t0 = time.time()
        res, info = run_contract(c, src, mode)
        out = [{k: v for k, v in r.items() if not k.startswith('_')} for r in res]
        info['wall_s'] = round(time.time() - t0, 2)
        info['contract'] = cname
        return out, info
    except Exception:  # noqa
        return [], {'contract': cname, 'mode': mode, 'status': 'crash', 'reason': traceback.format_exc()}


class _NoDaemonProcess(mp.get_context('fork').Process):
    # task processes fork their own solver workers
    @property
    def daemon(self):
        return False

    @daemon.setter
    def daemon(self, value):
        pass


class _NoDaemonContext(type(mp.get_context('fork'))):
    Process = _NoDaemonProcess


def run_tasks(tasks, jobs):
    if not tasks:
        return []
    import multiprocessing.pool
    with multiprocessing.pool.Pool(min(jobs, len(tasks)), context=_NoDaemonContext()) as pool:
        # heavy functions first
        return pool.map(_task, tasks, chunksize=1)


def main(argv=None):
    ap = argparse.ArgumentParser(prog='eqlvc')
    sub = ap.add_subparsers(dest='cmd', required=True)
    c = sub.add_parser('check')
    c.add_argument('prop')
    c.add_argument('--tier', default=os.environ.get('VERIF_TIER', 'quick'))
    c.add_argument('--jobs', type=int, default=int(os.environ.get('EQLVC_JOBS', '16')))
    c.add_argument('--no-cache', action='store_true')
    r = sub.add_parser('replay')
    r.add_argument('path')
    sub.add_parser('list')
    a = ap.parse_args(argv)
    try:
        if a.cmd == 'list':
            import contracts.registry as reg
            for cls in reg.all_contracts():
                print(cls.__name__, cls.qual, ','.join(cls.props), ','.join(cls.modes))
            return 0
        if a.cmd == 'replay':
            from eqlvc import report
            return report.replay_file(a.path)
        from eqlvc import report
        return report.check_property(a.prop, a.tier, a.jobs, use_cache=not a.no_cache)
    except SystemExit:
        raise
    except Exception:  # noqa
        traceback.print_exc()
        print("CHECKER-CRASH")
        return 3


if __name__ == '__main__':
    sys.exit(main())
