"""Runs contracts over the real source and discharges the obligations."""
from __future__ import annotations

import os
import time
import traceback
from typing import List

import z3

from .interp import Engine, OutOfSubset, Obligation
from .libmodel import base_modenv
from .source import SourceIndex

TIMEOUT_MS = int(os.environ.get('EQLVC_TIMEOUT_MS', '60000'))


def _mk_solver(kind, timeout_ms):
    # 'auflia': z3's solver configured for the quantifier-free array/UF/LIA fragment (all obligations are in it,
    # plus datatypes); 'default': the general-purpose configuration, used when the first returns unknown
    s = z3.SolverFor('QF_AUFLIA') if kind == 'auflia' else z3.Solver()
    s.set('timeout', timeout_ms)
    return s


def solve(ob: Obligation, timeout_ms=TIMEOUT_MS):
    asm, concl = ob.formula_parts()
    t0 = time.time()
    r = z3.unknown
    s = None
    for kind in ('auflia', 'default'):
        s = _mk_solver(kind, timeout_ms)
        s.add(*asm)
        if ob.kind != 'cover':
            s.add(z3.Not(concl))
        r = s.check()
        if r != z3.unknown:
            break
    dt = time.time() - t0
    if ob.kind == 'cover':
        return ('cover-ok' if r == z3.sat else ('cover-fail' if r == z3.unsat else 'unknown')), dt, None, s
    if r == z3.unsat:
        return 'discharged', dt, None, s
    if r == z3.sat:
        return 'failed', dt, s.model(), s
    return 'unknown', dt, None, s


def second_opinion(s: z3.Solver, timeout_s=20):
    """re-run the same query on the independent system z3 (4.8.12 CLI) via SMT-LIB."""
    import subprocess
    import tempfile
    import os
    txt = "(set-option :timeout %d)\n" % (timeout_s * 1000) + s.to_smt2()
    fd, p = tempfile.mkstemp(suffix='.smt2', dir=os.environ.get('EQLVC_TMP', None))
    try:
        with os.fdopen(fd, 'w') as f:
            f.write(txt)
        out = subprocess.run(['/usr/bin/z3', p], capture_output=True, text=True, timeout=timeout_s + 5).stdout.strip()
        return out.splitlines()[0] if out else 'error'
    except Exception as e:  # noqa
        return 'error'
    finally:
        try:
            os.unlink(p)
        except OSError:
            pass


def model_summary(model, ob: Obligation, limit=40):
    if model is None:
        return None
    out = {}
    for d in model.decls():
        if d.arity() == 0:
            v = model[d]
            s = str(v)
            if len(s) < 120:
                out[d.name()] = s
        if len(out) >= limit:
            break
    return out


def run_contract(contract, src: SourceIndex, mode: str, quick=True, keep_models=False):
    """returns (results, info) for one function under one mode."""
    qual = contract.qual
    fdef = src.get(qual)
    info = {'function': qual, 'mode': mode, 'source_hash': src.fhash(qual), 'status': 'ok', 'notes': []}
    if fdef is None:
        info['status'] = 'undecided'
        info['reason'] = f"function {qual} not found in the working tree"
        return [], info
    eng = Engine(fdef, contract, contract.modenv() if hasattr(contract, 'modenv') else base_modenv(), mode=mode,
                 fname=f"{qual.replace(':', '.')}[{mode}]")
    contract.eng = eng
    t0 = time.time()
    try:
        eng.run()
    except OutOfSubset as e:
        info['status'] = 'undecided'
        info['reason'] = str(e)
        info['trace'] = traceback.format_exc(limit=6)
        # obligations generated before the unsupported construct was met are still decided (a failing one is reported)
        eng.obligations = [o for o in eng.obligations if o.meta.get('definite')]
        if not eng.obligations:
            return [], info
    info['vcgen_s'] = round(time.time() - t0, 3)
    info['paths'] = eng.n_paths
    info['notes'] = sorted(set(eng.notes))
    results = []
    global _OBS, _CONTRACT
    _OBS, _CONTRACT = eng.obligations, contract
    inner = int(os.environ.get('EQLVC_INNER_JOBS', '6'))
    if keep_models or inner <= 1 or len(_OBS) < 24:
        for i in range(len(_OBS)):
            results.append(_solve_index(i, keep_models))
    else:
        # the obligations live in this process' memory; forked workers solve them by index (z3 terms are not
        # picklable and the SMT-LIB printer does not round-trip `(_ map ite)`)
        import multiprocessing as mp
        with mp.get_context('fork').Pool(inner) as pool:
            results = pool.map(_solve_index, range(len(_OBS)), chunksize=4)
    # a query the solver gave up on (these obligations take well under a second on an idle machine, so `unknown` means the
    # machine is busy): asked once more, one at a time, with four times the budget
    for i, r in enumerate(results):
        if r['status'] == 'unknown':
            r2 = _solve_index(i, keep_models, timeout_ms=4 * TIMEOUT_MS)
            r2['time_s'] = round(r2['time_s'] + r['time_s'], 4)
            r2['retried'] = True
            results[i] = r2
    info['solve_s'] = round(sum(r['time_s'] for r in results), 3)
    info['solve_wall_s'] = round(time.time() - t0 - info['vcgen_s'], 3)
    return results, info


_OBS = []
_CONTRACT = None


def _solve_index(i, keep_models=False, timeout_ms=None):
    ob = _OBS[i]
    status, dt, model, solver = solve(ob) if timeout_ms is None else solve(ob, timeout_ms)
    backend = 'none' if status == 'unknown' else 'z3-5.1-api'
    sig = None
    if status == 'failed' and model is not None and hasattr(_CONTRACT, 'signature'):
        try:
            sig = _CONTRACT.signature(ob, model)
        except Exception as e:  # noqa
            sig = {'signature-error': repr(e)}
    r = {'name': ob.name, 'status': status, 'time_s': round(dt, 4), 'backend': backend,
         'kind': ob.kind, 'path': ob.meta.get('path'), 'line': ob.meta.get('line'),
         'model': model_summary(model, ob), 'size': len(ob.pc) + len(ob.hyp), 'signature': sig}
    if keep_models:
        r['_model'] = model
        r['_ob'] = ob
    return r
