"""Runs contracts over the real source and discharges the obligations."""
from __future__ import annotations

import time
import traceback
from typing import List

import z3

from .interp import Engine, OutOfSubset, Obligation
from .libmodel import base_modenv
from .source import SourceIndex

TIMEOUT_MS = 20000


def _mk_solver(kind, timeout_ms):
    # 'auflia': z3's solver configured for the quantifier-free array/UF/LIA fragment (all obligations are in it,
    # plus datatypes); 'default': the general-purpose configuration, used when the first returns unknown
    s = z3.SolverFor('QF_AUFLIA') if kind == 'auflia' else z3.Solver()
    s.set('timeout', timeout_ms)
    return s


def solve(ob: Obligation, timeout_ms=TIMEOUT_MS):
    asm, concl = ob.formula_parts()
    t0 = time.time()
    r = z3.unknown
    s = None
    for kind in ('auflia', 'default'):
        s = _mk_solver(kind, timeout_ms)
        s.add(*asm)
        if ob.kind != 'cover':
            s.add(z3.Not(concl))
        r = s.check()
        if r != z3.unknown:
            break
    dt = time.time() - t0
    if ob.kind == 'cover':
        return ('cover-ok' if r == z3.sat else ('cover-fail' if r == z3.unsat else 'unknown')), dt, None, s
    if r == z3.unsat:
        return 'discharged', dt, None, s
    if r == z3.sat:
        return 'failed', dt, s.model(), s
    return 'unknown', dt, None, s


def second_opinion(s: z3.Solver, timeout_s=20):
    """re-run the same query on the independent system z3 (4.8.12 CLI) via SMT-LIB."""
    import subprocess
    import tempfile
    import os
    txt = "(set-option :timeout %d)\n" % (timeout_s * 1000) + s.to_smt2()
    fd, p = tempfile.mkstemp(suffix='.smt2', dir=os.environ.get('EQLVC_TMP', None))
    try:
        with os.fdopen(fd, 'w') as f:
            f.write(txt)
        out = subprocess.run(['/usr/bin/z3', p], capture_output=True, text=True, timeout=timeout_s + 5).stdout.strip()
        return out.splitlines()[0] if out else 'error'
    except Exception as e:  # noqa
        return 'error'
    finally:
        try:
            os.unlink(p)
        except OSError:
            pass


def model_summary(model, ob: Obligation, limit=40):
    if model is None:
        return None
    out = {}
    for d in model.decls():
        if d.arity() == 0:
            v = model[d]
            s = str(v)
            if len(s) < 120:
                out[d.name()] = s
        if len(out) >= limit:
            break
    return out


def run_contract(contract, src: SourceIndex, mode: str, quick=True):
    """returns (results, info) for one function under one mode."""
    qual = contract.qual
    fdef = src.get(qual)
    info = {'function': qual, 'mode': mode, 'source_hash': src.fhash(qual), 'status': 'ok', 'notes': []}
    if fdef is None:
        info['status'] = 'undecided'
        info['reason'] = f"function {qual} not found in the working tree"
        return [], info
    eng = Engine(fdef, contract, contract.modenv() if hasattr(contract, 'modenv') else base_modenv(), mode=mode,
                 fname=f"{qual.replace(':', '.')}[{mode}]")
    contract.eng = eng
    t0 = time.time()
    try:
        eng.run()
    except OutOfSubset as e:
        info['status'] = 'undecided'
        info['reason'] = str(e)
        info['trace'] = traceback.format_exc(limit=6)
        return [], info
    info['vcgen_s'] = round(time.time() - t0, 3)
    info['paths'] = eng.n_paths
    info['notes'] = sorted(set(eng.notes))
    results = []
    # merge obligations with the same name (one logical obligation, several paths): all must hold
    for ob in eng.obligations:
        status, dt, model, solver = solve(ob)
        backend = 'none' if status == 'unknown' else 'z3-5.1-api'
        results.append({'name': ob.name, 'status': status, 'time_s': round(dt, 4), 'backend': backend,
                        'kind': ob.kind, 'path': ob.meta.get('path'), 'line': ob.meta.get('line'),
                        'model': model_summary(model, ob), 'size': len(ob.pc) + len(ob.hyp),
                        '_model': model, '_ob': ob})
    info['solve_s'] = round(time.time() - t0 - info['vcgen_s'], 3)
    return results, info
