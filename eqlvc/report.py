"""Per-property verdicts, evidence files, known findings, replay."""
from __future__ import annotations

import collections
import hashlib
import json
import os
import re
import subprocess
import sys
import time

ROOT = os.path.dirname(os.path.dirname(os.path.abspath(__file__)))
# EQLVC_OUT redirects everything a run writes (used when the checks are run against a scratch copy with a seeded change)
OUT = os.environ.get('EQLVC_OUT', ROOT)
EVID = os.path.join(OUT, 'evidence')
REPLAYS = os.path.join(OUT, 'replays')
CACHE = os.path.join(OUT, '.cache')
KNOWN = os.path.join(ROOT, 'known_findings.json')
VENV_PY = '/venv/bin/python'

ASSUMPTIONS = [
    "A1 machine integers treated as mathematical (only ids, indices and counters occur)",
    "A2 CPython object protocol (type.__call__ / __new__ / MRO / isinstance) as stated in DESIGN.md section 8",
    "A3 dataclasses-generated __init__ and field defaults",
    "A4 generator / contextmanager protocol: close() raises GeneratorExit at the suspended yield, finally blocks run",
    "A5 a single contextvars context (no threads / asyncio tasks)",
    "A6 built-ins used as primitives (dict insertion order, copy.copy shallow, filter / generator expressions lazy, "
    "itertools.product materialises its inputs, sorted, all, zip)",
    "A9 structural induction over the finite acyclic expression graph and induction over finite histories (the "
    "meta-theorem of modular verification) is argued in DESIGN.md, not machine-checked",
    "A10 user code (attribute getters, predicates, constructors) is a function of its arguments and does not touch "
    "library state",
    "A11 the encoding of Python semantics in eqlvc (DESIGN.md 2.2 / 11); mitigated by seeded-change runs",
    "T1 operator / mapping nodes occur once in an expression (tree above the leaves); only variables are shared",
    "T2 comparators and logical operators stand in condition position",
    "LeafExt lemma schema about good_row: proved by z3 from the quantified definition in lemmas/leafext.py on every run that "
    "uses the interface contract (see coverage.lemmas); that each class's `own` clause has the shape the definition assumes is "
    "by inspection of /verif/contracts",
    "T3 selected expressions / the universal variable of for_all are evaluated as values; T4 an else-if whose left operand "
    "yields nothing even when asked for false rows has no well-defined environment (empty variable domain)",
    "R8 alias-once and the other interface clauses are proved for every override under contract and assumed for callees",
]


def load_known():
    if not os.path.exists(KNOWN):
        return {'findings': [], 'fixed': []}
    return json.load(open(KNOWN))


def slug(s):
    return re.sub(r'[^A-Za-z0-9_.#@-]+', '_', s)[:150]


def sig_matches(want: dict, got: dict) -> bool:
    if not want:
        return True
    if got is None:
        return False
    return all(str(got.get(k)) == str(v) for k, v in want.items())


def short_name(full):
    # 'symbolic.X._evaluate__[witness]/C1-complete/covered' -> same (names carry no path information)
    return full


def check_property(prop, tier, jobs, use_cache=True):
    t0 = time.time()
    sys.path.insert(0, ROOT)
    import contracts.registry as reg
    from eqlvc.source import SourceIndex
    from eqlvc.__main__ import run_tasks, _verif_hash, _repo_hash
    seed = int(os.environ.get('VERIF_SEED', '0') or 0)
    src = SourceIndex()
    classes = [c for c in reg.all_contracts() if prop in c.props and tier in getattr(c, 'tiers', ('quick', 'thorough'))]
    na = reg.not_applicable().get(prop) if hasattr(reg, 'not_applicable') else None
    if not classes:
        print(f"UNDECIDED property={prop} no contract serves this property")
        return 2
    tasks = [(c.__name__, m) for c in classes for m in c.modes]
    os.makedirs(CACHE, exist_ok=True)
    vh, rh = _verif_hash(), _repo_hash(src)
    results = {}
    todo = []
    for t in tasks:
        key = hashlib.sha256(f"{vh}:{rh}:{t[0]}:{t[1]}".encode()).hexdigest()[:24]
        p = os.path.join(CACHE, key + '.json')
        if use_cache and os.path.exists(p):
            try:
                results[t] = tuple(json.load(open(p)))
                results[t][1]['cached'] = True
                continue
            except Exception:  # noqa
                pass
        todo.append((t, p))
    fresh = run_tasks([t for t, _ in todo], jobs)
    for (t, p), r in zip(todo, fresh):
        results[t] = r
        if r[1].get('status') == 'ok' and not any(x['status'] == 'unknown' for x in r[0]):
            json.dump(r, open(p + '.tmp', 'w'))
            os.replace(p + '.tmp', p)
    # bounded stand-ins / native parts of this property
    standins = []
    if hasattr(reg, 'standins'):
        for sd in reg.standins(prop, tier):
            standins.append(run_standin(sd, seed))

    # lemma schemas the interface proofs instantiate: checked against their quantified definition on every run
    lemmas = []
    uses_interface = any(hasattr(c, 'assume_row') for c in classes)
    if uses_interface:
        t1 = time.time()
        try:
            lr = subprocess.run([sys.executable, os.path.join(ROOT, 'lemmas', 'leafext.py')], capture_output=True, text=True, timeout=600)
            lemmas.append({'name': 'LeafExt (lemmas/leafext.py, z3 with quantifiers)', 'status': 'proved' if lr.returncode == 0 else
                           ('refuted' if lr.returncode == 1 else 'unknown'), 'output': lr.stdout.strip().splitlines(),
                           'time_s': round(time.time() - t1, 2)})
        except Exception as e:  # noqa
            lemmas.append({'name': 'LeafExt', 'status': 'unknown', 'output': [repr(e)]})

    # ---- aggregate
    obligations = collections.OrderedDict()
    funcs = []
    undecided = []
    crashed = []
    solver_s = 0.0
    backends = collections.Counter()
    for t in tasks:
        res, info = results[t]
        funcs.append({'function': info.get('function'), 'mode': info.get('mode'), 'source_hash': info.get('source_hash'),
                      'status': info.get('status'), 'reason': info.get('reason'), 'inlined': info.get('notes'),
                      'vcgen_s': info.get('vcgen_s'), 'solve_s': info.get('solve_s'), 'cached': info.get('cached', False)})
        if info.get('status') == 'crash':
            crashed.append(info)
            continue
        if info.get('status') == 'undecided':
            undecided.append(f"{info.get('function')}[{info.get('mode')}]: {info.get('reason')}")
            if not res:
                continue
        solver_s += info.get('solve_s') or 0
        for r in res:
            only = re.search(r'/(C\d\d)-only/', r['name'])
            if only and only.group(1) != prop:
                continue        # an obligation stated for one property only (the contract serves several)
            o = obligations.setdefault(r['name'], {'name': r['name'], 'paths': 0, 'discharged': 0, 'failed': [], 'unknown': 0,
                                                    'kind': r['kind'], 'time_s': 0.0, 'contract': t[0]})
            o['paths'] += 1
            o['time_s'] += r['time_s']
            backends[r['backend']] += 1
            if r['status'] in ('discharged', 'cover-ok'):
                o['discharged'] += 1
            elif r['status'] in ('failed', 'cover-fail'):
                o['failed'].append(r)
            else:
                o['unknown'] += 1
    if crashed:
        for c in crashed:
            print(c.get('reason'))
        print(f"CHECKER-CRASH property={prop}")
        return 3
    # a cover obligation asks that the site is reachable on SOME path (vacuity guard); infeasible extra paths are fine
    for o in obligations.values():
        if o['kind'] == 'cover' and o['discharged'] > 0:
            o['failed'] = []
            o['unknown'] = 0
        elif o['kind'] == 'cover' and o['unknown'] > 0:
            # no path was shown reachable, but on some the solver gave up (a busy machine): undecided, never a violation
            o['failed'] = []
        elif o['kind'] == 'cover':
            # unreachable on every path that was followed.  Whether such a path is followed at all depends on the pruning
            # of infeasible branches (a 300 ms solver call: on an idle machine the path is pruned and this obligation does not
            # exist, on a busy one it is kept) - so this is the same as a pruned path, not a finding.  Vacuity is guarded
            # per function below: at least one yield / exit of every function under contract must be reachable.
            o['failed'] = []
            o['unreachable'] = True
    by_contract = collections.defaultdict(lambda: [0, 0])
    for o in obligations.values():
        if o['kind'] == 'cover':
            by_contract[o['name'].split('/')[0]][0] += 1
            by_contract[o['name'].split('/')[0]][1] += 0 if o.get('unreachable') else 1
    for fn, (n_cov, n_reach) in by_contract.items():
        if n_cov and not n_reach and not any(o['unknown'] for o in obligations.values() if o['name'].startswith(fn + '/')):
            undecided.append(f"{fn}: no yield of the function is reachable under the contract's preconditions (vacuous)")
    for name in [k for k, o in obligations.items() if o.get('unreachable')]:
        del obligations[name]
    n_obl = len(obligations)
    n_ok = sum(1 for o in obligations.values() if not o['failed'] and not o['unknown'])
    for o in obligations.values():
        if o['unknown']:
            undecided.append(f"{o['name']}: solver returned unknown on {o['unknown']} path(s)")
    if n_obl == 0 and not standins:
        undecided.append("zero obligations generated")
    for lm in lemmas:
        if lm['status'] != 'proved':
            undecided.append(f"lemma {lm['name']}: {lm['status']}")

    # ---- failures: known finding or violation
    known = load_known()
    known_lines = []
    violations = []
    for o in obligations.values():
        if not o['failed']:
            continue
        unmatched = []
        matched = {}
        for r in o['failed']:
            hit = None
            for kf in known['findings']:
                if kf['property'] == prop and kf['obligation'] == o['name'] and sig_matches(kf.get('signature'), r.get('signature')):
                    hit = kf
                    break
            if hit is None:
                unmatched.append(r)
            else:
                matched[hit['id']] = hit
        for kf in matched.values():
            known_lines.append(f"KNOWN-FINDING: property={prop} {kf['what_fails']} [{kf['id']}: obligation {o['name']}]")
        if unmatched:
            violations.append((o, unmatched))
    for sd in standins:
        for f in sd.get('failures', []):
            hit = None
            for kf in known['findings']:
                if kf['property'] == prop and kf['obligation'] == sd['name'] and sig_matches(kf.get('signature'), f.get('signature')):
                    hit = kf
                    break
            if hit is not None:
                line = f"KNOWN-FINDING: property={prop} {hit['what_fails']} [{hit['id']}: bounded check {sd['name']}]"
                if line not in known_lines:
                    known_lines.append(line)
            else:
                violations.append(({'name': sd['name'], 'standin': True}, [f]))
        if sd.get('status') == 'error':
            undecided.append(f"bounded stand-in {sd['name']}: {sd.get('error')}")

    viol_lines = []
    for o, fails in violations:
        os.makedirs(os.path.join(REPLAYS, prop), exist_ok=True)
        rp = os.path.join(REPLAYS, prop, slug(o['name']) + '.json')
        if o.get('standin'):
            rec = {'property': prop, 'obligation': o['name'], 'kind': 'bounded-standin', 'failing_input': fails[0],
                   'replayed': True}
            json.dump(rec, open(rp, 'w'), indent=1, default=str)
            viol_lines.append(f"VIOLATION property={prop} replay={rp}")
            continue
        rec = {'property': prop, 'obligation': o['name'], 'kind': 'failed-proof-obligation',
               'solver_output': [{'path': r.get('path'), 'model': r.get('model'), 'signature': r.get('signature'),
                                  'line': r.get('line')} for r in fails[:6]],
               'note': 'the obligation was discharged on the unchanged tree; see evidence for the contract'}
        rr = native_replay(prop, o['name'], fails)
        rec['replay'] = rr
        json.dump(rec, open(rp, 'w'), indent=1, default=str)
        if rr.get('found'):
            viol_lines.append(f"VIOLATION property={prop} replay={rp}")
        else:
            viol_lines.append(f"VIOLATION property={prop} replay={rp} obligation={o['name']} no-failing-input-found")

    # ---- evidence
    all_deductive_ok = (n_ok == n_obl and n_obl > 0)
    claimed = getattr(reg, 'CLAIMS', {}).get(prop, {}).get('level', 'proof')
    level = claimed if (all_deductive_ok and not known_lines and not undecided) else 'other'
    samples = []
    for o in list(obligations.values())[:12]:
        samples.append({'obligation': o['name'], 'paths': o['paths'], 'kind': o['kind'],
                        'status': 'discharged' if not o['failed'] and not o['unknown'] else ('failed' if o['failed'] else 'unknown')})
    cov = {
        'obligations': n_obl,
        'discharged': n_ok,
        'checker_cmd': f"python3-vt -m eqlvc check {prop} --tier {tier}",
        'trusted_base': trusted_base(classes),
        'samples': samples,
        'path_level_queries': sum(o['paths'] for o in obligations.values()),
        'functions_under_contract': funcs,
        'backends': dict(backends),
        'solver_time_s': round(solver_s, 2),
        'failed_obligations': [{'name': o['name'], 'paths_failed': len(o['failed']),
                                'signatures': [r.get('signature') for r in o['failed'][:4]]}
                               for o in obligations.values() if o['failed']],
        'lemmas': lemmas,
        'known_findings_reported': known_lines,
        'undecided': undecided,
        'bounded_standins': [{k: v for k, v in sd.items() if k != 'failures'} | {'n_failures': len(sd.get('failures', []))}
                             for sd in standins],
        'explanation': explanation(prop, level, n_obl, n_ok, known_lines, undecided, standins),
    }
    ev = {'property_id': prop, 'tier': tier if tier in ('quick', 'thorough') else 'quick', 'seed': seed, 'level': level,
          'coverage': cov, 'assumptions': ASSUMPTIONS, 'wall_s': round(time.time() - t0, 2),
          'violations': len(viol_lines)}
    os.makedirs(EVID, exist_ok=True)
    json.dump(ev, open(os.path.join(EVID, prop + '.json'), 'w'), indent=1, default=str)

    viol_lines = list(dict.fromkeys(viol_lines))
    for l in known_lines:
        print(l)
    print(f"property={prop} obligations={n_obl} discharged={n_ok} functions={len(classes)} "
          f"solver_s={round(solver_s, 1)} wall_s={round(time.time() - t0, 1)}")
    if viol_lines:
        for l in viol_lines:
            print(l)
        return 1
    if undecided:
        for u in undecided:
            print(f"UNDECIDED property={prop} {u}")
        return 2
    return 0


def explanation(prop, level, n_obl, n_ok, known_lines, undecided, standins):
    s = (f"{n_ok} of {n_obl} named proof obligations (each possibly checked on several execution paths) generated from "
         f"the current source of the functions under contract were discharged by z3. ")
    if known_lines:
        s += (f"{len(known_lines)} obligation group(s) fail for reasons recorded in known_findings.json (genuine defects of "
              f"the unchanged tree, reported as KNOWN-FINDING); therefore this is not a proof-level claim. ")
    if standins:
        s += f"{len(standins)} bounded stand-in(s) ran (labelled bounded, not counted as discharged). "
    if undecided:
        s += "Some parts are undecided (see 'undecided')."
    return s


def trusted_base(classes):
    tb = ["z3 5.1 (python API; QF_AUFLIA configuration first, general configuration on `unknown`) as the deciding back end",
          "eqlvc front end: Python subset semantics of DESIGN.md 2.2 / 11",
          "the interface contract I is assumed for every callee (each override is proved against it separately)"]
    for c in classes:
        for t in getattr(c, 'trusted', ()):
            tb.append(f"{c.qual}: {t}")
    return tb


def run_standin(sd, seed):
    """a bounded stand-in: a native (CPython, real package) exhaustive small-scope check; labelled bounded."""
    t0 = time.time()
    try:
        out = subprocess.run([VENV_PY, os.path.join(ROOT, 'replay', 'native.py'), 'standin', sd['name'], str(seed),
                              json.dumps(sd.get('args', {}))], capture_output=True, text=True, timeout=sd.get('timeout', 600),
                             env=dict(os.environ, PYTHONPATH=os.path.join(os.environ.get('EQL_REPO', '/repo'), 'src')))
        last = out.stdout.strip().splitlines()[-1] if out.stdout.strip() else ''
        r = json.loads(last)
        r['name'] = sd['name'] + (':' + sd['label'] if sd.get('label') else '')
        r['bounded'] = sd.get('bound', '')
        r['wall_s'] = round(time.time() - t0, 2)
        return r
    except Exception as e:  # noqa
        return {'name': sd['name'] + (':' + sd['label'] if sd.get('label') else ''), 'status': 'error', 'error': repr(e) + (out.stderr[-400:] if 'out' in dir() else ''),
                'failures': []}


def native_replay(prop, obligation, fails):
    """search the real code (CPython, /venv) for a concrete input violating the property, guided by the model."""
    hints = {'obligation': obligation, 'signatures': [r.get('signature') for r in fails[:4]]}
    try:
        out = subprocess.run([VENV_PY, os.path.join(ROOT, 'replay', 'native.py'), 'replay', prop, json.dumps(hints)],
                             capture_output=True, text=True, timeout=300,
                             env=dict(os.environ, PYTHONPATH=os.path.join(os.environ.get('EQL_REPO', '/repo'), 'src')))
        last = out.stdout.strip().splitlines()[-1] if out.stdout.strip() else ''
        return json.loads(last)
    except Exception as e:  # noqa
        return {'found': False, 'error': repr(e)}


def replay_file(path):
    rec = json.load(open(path))
    print(json.dumps(rec, indent=1)[:4000])
    rp = rec.get('replay') or {}
    if rec.get('kind') == 'bounded-standin' or rp.get('found'):
        # re-run the concrete input natively
        inp = rec.get('failing_input') or rp.get('input')
        out = subprocess.run([VENV_PY, os.path.join(ROOT, 'replay', 'native.py'), 'rerun', rec['property'], json.dumps(inp)],
                             capture_output=True, text=True, timeout=300,
                             env=dict(os.environ, PYTHONPATH=os.path.join(os.environ.get('EQL_REPO', '/repo'), 'src')))
        print(out.stdout[-2000:])
        return 1 if 'STILL-FAILS' in out.stdout else 0
    return 1
