"""Brute-force reference semantics for EQL queries + random query generator (native side; /venv/bin/python).

Used only (a) to look for a concrete failing input on the real code after a proof obligation failed, and (b) as the
bounded stand-in where a function is outside the verifier's reach.  It never counts as proof."""
from __future__ import annotations

import itertools
import operator
import random
from dataclasses import dataclass, field

import entity_query_language as eql
from entity_query_language import (symbol, let, an, the, entity, set_of, and_, or_, not_, contains, in_, symbolic_mode,
                                   flatten, concatenate, for_all)
from entity_query_language.cache_data import enable_caching, disable_caching
from entity_query_language.symbolic import Variable


@symbol
@dataclass(eq=False)
class Item:
    name: str
    size: int
    flag: bool = False
    tags: list = field(default_factory=list)
    props: dict = field(default_factory=dict)

    def big(self):
        return self.size > 1

    def __repr__(self):
        return f"Item({self.name!r},{self.size},{self.flag},{self.tags})"


@symbol
@dataclass(eq=False)
class It:
    a: int
    b: int
    c: int
    tags: list = field(default_factory=list)

    def __repr__(self):
        return f"It({self.a},{self.b},{self.c},{self.tags})"


@symbol
@dataclass
class EqFullItem:
    """the fields of Item, but instances with equal fields compare equal (dataclass eq) while being distinct objects"""
    name: str
    size: int
    flag: bool = False
    tags: list = field(default_factory=list)
    props: dict = field(default_factory=dict)

    def big(self):
        return self.size > 1


OPS = {'lt': operator.lt, 'le': operator.le, 'gt': operator.gt, 'ge': operator.ge, 'eq': operator.eq, 'ne': operator.ne}


def reset_registry():
    for c in Variable._cache_.values():
        c.clear()
    Variable._cache_.clear()


# ------------------------------------------------------------------ data
def make_domain(rng, n, falsy=False, prefix='o', equal_values=False, none_names=False):
    out = []
    for i in range(n):
        sizes = [0, 1, 2, 3] if falsy else [1, 2, 3]
        names = ['', 'a', 'b'] if falsy else ['a', 'b', 'c']
        if none_names:
            names = names + [None]
        tagpool = [0, 1, 2] if falsy else [1, 2, 3]
        if equal_values:
            # distinct objects that compare equal with == (a plain dataclass): small pools, so equal ones are frequent
            z = rng.choice([1, 2])
            out.append(EqFullItem(name=rng.choice(['a', 'b'] + ([None] if none_names else [])), size=z, flag=False, tags=[z],
                                  props={'k': rng.choice([1, 2])}))
            continue
        out.append(Item(name=rng.choice(names), size=rng.choice(sizes), flag=rng.random() < 0.5,
                        tags=[rng.choice(tagpool) for _ in range(rng.randint(0 if falsy else 1, 2))],
                        props={'k': rng.choice(sizes)}))
    return out


# ------------------------------------------------------------------ condition ASTs
NOLIT = [False]      # generator switch: conditions without literals (a literal's id is part of the operators' cache keys, so
#                      only literal-free conditions ever hit the result caches)


def gen_operand(rng, nvars, falsy):
    v = rng.randrange(nvars)
    k = rng.random()
    if NOLIT[0]:
        return rng.choice([('attr', v, 'size'), ('index', v, 'k'), ('attr', v, 'size')])
    if k < 0.45:
        return ('attr', v, 'size')
    if k < 0.6:
        return ('index', v, 'k')
    if k < 0.8:
        return ('lit', rng.choice([0, 1, 2, 3] if falsy else [1, 2, 3]))
    return ('attr', v, 'size')


def gen_leaf(rng, nvars, falsy, vocab):
    k = rng.choice(vocab)
    if k == 'cmp':
        a = gen_operand(rng, nvars, falsy)
        b = gen_operand(rng, nvars, falsy)
        if a[0] == 'lit' and b[0] == 'lit':
            a = ('attr', rng.randrange(nvars), 'size')
        return ('cmp', rng.choice(list(OPS)), a, b)
    if k == 'name':
        if NOLIT[0]:
            return ('cmp', rng.choice(['eq', 'ne']), ('attr', rng.randrange(nvars), 'name'), ('attr', rng.randrange(nvars), 'name'))
        return ('cmp', rng.choice(['eq', 'ne']), ('attr', rng.randrange(nvars), 'name'),
                ('lit', rng.choice(['', 'a', 'b'] if falsy else ['a', 'b', 'c'])))
    if k == 'listeq':
        # a list attribute compared with a constant that is itself a list (the constant is ONE value, not a domain)
        pool = [0, 1, 2] if falsy else [1, 2, 3]
        return ('cmp', rng.choice(['eq', 'ne']), ('attr', rng.randrange(nvars), 'tags'),
                ('lit', [rng.choice(pool) for _ in range(rng.randint(0, 2))]))
    if k == 'none':
        # comparison with the constant None (the data has None names)
        return ('cmp', rng.choice(['eq', 'ne']), ('attr', rng.randrange(nvars), 'name'), ('lit', None))
    if k == 'truth':
        return ('truth', ('attr', rng.randrange(nvars), 'flag'))
    if k == 'truthy':
        # a bare attribute / index / call expression of any type as a condition: Python truthiness of its value
        v = rng.randrange(nvars)
        return ('truth', rng.choice([('attr', v, 'tags'), ('attr', v, 'name'), ('attr', v, 'size'), ('index', v, 'k')]))
    if k == 'call':
        return ('truth', ('call', rng.randrange(nvars), 'big'))
    if k == 'contains':
        return (rng.choice(['contains', 'in']), ('attr', rng.randrange(nvars), 'tags'),
                ('lit', rng.choice([0, 1, 2] if falsy else [1, 2, 3])))
    if k == 'member':
        # a literal container on the left, the variable's value as the item (the variable is the comparator's right side)
        pool = [0, 1, 2, 3] if falsy else [1, 2, 3]
        return (rng.choice(['contains', 'in']), ('lit', sorted(rng.sample(pool, rng.choice([1, 2])))),
                ('attr', rng.randrange(nvars), 'size'))
    if k == 'pred':
        return (rng.choice(['pred_fn', 'pred_cls']), rng.randrange(nvars), rng.choice([0, 1, 2]))
    if k == 'pred1':
        # predicates with a single argument (function and class form)
        return (rng.choice(['pred1_fn', 'pred1_cls']), rng.randrange(nvars), 1)
    raise ValueError(k)


def gen_cond(rng, nvars, depth, falsy=False, vocab=('cmp', 'name', 'truth', 'call', 'contains'), neg=True, nested_neg=True):
    if depth == 0 or rng.random() < 0.25:
        return gen_leaf(rng, nvars, falsy, vocab)
    k = rng.random()
    if k < 0.4:
        return ('and', gen_cond(rng, nvars, depth - 1, falsy, vocab, neg, nested_neg),
                gen_cond(rng, nvars, depth - 1, falsy, vocab, neg, nested_neg))
    if k < 0.8:
        return ('or', gen_cond(rng, nvars, depth - 1, falsy, vocab, neg, nested_neg),
                gen_cond(rng, nvars, depth - 1, falsy, vocab, neg, nested_neg))
    if neg:
        return ('not', gen_cond(rng, nvars, depth - 1, falsy, vocab, nested_neg, nested_neg))
    return gen_leaf(rng, nvars, falsy, vocab)


def vars_of(c):
    if c[0] in ('attr', 'index', 'call', 'pred_fn', 'pred_cls', 'pred1_fn', 'pred1_cls'):
        return {c[1]}
    if c[0] == 'var':
        return {c[1]}
    if c[0] == 'lit':
        return set()
    out = set()
    for x in c[1:]:
        if isinstance(x, tuple):
            out |= vars_of(x)
    return out


# ------------------------------------------------------------------ reference semantics (ordinary Python)
def val(o, env):
    if o[0] == 'lit':
        return o[1]
    if o[0] == 'var':
        return env[o[1]]
    if o[0] == 'attr':
        return getattr(env[o[1]], o[2])
    if o[0] == 'index':
        return env[o[1]].props[o[2]]
    if o[0] == 'call':
        return getattr(env[o[1]], o[2])()
    raise ValueError(o)


def holds(c, env):
    k = c[0]
    if k == 'cmp':
        return bool(OPS[c[1]](val(c[2], env), val(c[3], env)))
    if k == 'truth':
        return bool(val(c[1], env))
    if k in ('pred_fn', 'pred_cls', 'pred1_fn', 'pred1_cls'):
        return env[c[1]].size > c[2]
    if k in ('contains', 'in'):
        return val(c[2], env) in val(c[1], env)
    if k == 'and':
        return holds(c[1], env) and holds(c[2], env)
    if k == 'or':
        return holds(c[1], env) or holds(c[2], env)
    if k == 'not':
        return not holds(c[1], env)
    raise ValueError(c)


# ------------------------------------------------------------------ building the real query
def build_operand(o, xs):
    if o[0] == 'lit':
        return o[1]
    if o[0] == 'var':
        return xs[o[1]]
    if o[0] == 'attr':
        return getattr(xs[o[1]], o[2])
    if o[0] == 'index':
        return xs[o[1]].props[o[2]]
    if o[0] == 'call':
        return getattr(xs[o[1]], o[2])()
    raise ValueError(o)


def build(c, xs):
    k = c[0]
    if k == 'cmp':
        a, b = build_operand(c[2], xs), build_operand(c[3], xs)
        op = c[1]
        if c[2][0] == 'lit':
            # literal on the left: Python reflects the operator onto the symbolic right operand
            return OPS[op](a, b)
        return OPS[op](a, b)
    if k == 'truth':
        return build_operand(c[1], xs)
    if k == 'pred_fn':
        return is_big_fn(xs[c[1]], limit=c[2])
    if k == 'pred_cls':
        return IsBig(xs[c[1]], limit=c[2])
    if k == 'pred1_fn':
        return is_large_fn(xs[c[1]])
    if k == 'pred1_cls':
        return IsLarge(xs[c[1]])
    if k == 'contains':
        return contains(build_operand(c[1], xs), build_operand(c[2], xs))
    if k == 'in':
        return in_(build_operand(c[2], xs), build_operand(c[1], xs))
    if k == 'and':
        return and_(build(c[1], xs), build(c[2], xs))
    if k == 'or':
        return or_(build(c[1], xs), build(c[2], xs))
    if k == 'not':
        return not_(build(c[1], xs))
    raise ValueError(c)


def run_single(dom, cond, variant=0):
    """single-variable query: list of results of the real engine, and the reference list.  `variant` picks one of the
    equivalent spellings of the query: an(entity(x, c)) / an(set_of([x], c)) / the conditions given one by one when c is a
    conjunction / evaluated inside a symbolic block"""
    with symbolic_mode():
        x = let(type_=type(dom[0]) if dom else Item, domain=dom)
        if variant % 4 == 1:
            q = an(set_of([x], build(cond, [x])))
        elif variant % 4 == 2 and cond[0] == 'and':
            q = an(entity(x, build(cond[1], [x]), build(cond[2], [x])))
        else:
            q = an(entity(x, build(cond, [x])))
    unwrap = (lambda r: r[x]) if variant % 4 == 1 else (lambda r: r)
    if variant % 4 == 3:
        with symbolic_mode():
            got = [unwrap(r) for r in q.evaluate()]
    else:
        got = [unwrap(r) for r in q.evaluate()]
    want = [o for o in dom if holds(cond, {0: o})]

    class _Q:       # re-evaluation handle giving plain objects whatever the spelling
        def evaluate(self_inner):
            return (unwrap(r) for r in q.evaluate())
    return got, want, _Q()


def run_multi(doms, cond, sel=None, decl=None, sel_order=None, flat=False):
    """decl: the order in which the variables are declared (their ids, hence the key order of every result cache, follow
    it); sel_order: the order in which the selected variables are listed; flat: the conjuncts of a top-level conjunction
    are passed to set_of one by one.  Rows are compared as tuples in the order of `sel`."""
    with symbolic_mode():
        xs = [None] * len(doms)
        for i in (decl if decl is not None else range(len(doms))):
            xs[i] = let(type_=type(doms[i][0]) if doms[i] else Item, domain=doms[i])
        sel = list(range(len(xs))) if sel is None else sel
        listed = [xs[i] for i in (sel_order if sel_order is not None else sel)]
        if flat and cond[0] == 'and':
            conds = []

            def conjuncts(c):
                if c[0] == 'and':
                    conjuncts(c[1])
                    conjuncts(c[2])
                else:
                    conds.append(build(c, xs))
            conjuncts(cond)
            q = an(set_of(listed, *conds))
        else:
            q = an(set_of(listed, build(cond, xs)))
    rows = list(q.evaluate())
    got = [tuple(id(r[xs[i]]) for i in sel) for r in rows]
    want = []
    for combo in itertools.product(*doms):
        env = dict(enumerate(combo))
        if holds(cond, env):
            want.append(tuple(id(env[i]) for i in sel))
    q._eql_verif_sel_ = [xs[i] for i in sel]
    return got, want, q


def same_list_by_identity(a, b):
    return len(a) == len(b) and all(x is y for x, y in zip(a, b))


# ------------------------------------------------------------------ flatten / concatenate (C16, C17)
def run_flatten(dom, with_cond, select_parent, cond=None, element_first=False):
    """set_of([x?, flatten(x.tags)], cond?) against UNNEST semantics (the parent listed before or after the element)"""
    with symbolic_mode():
        x = let(type_=Item, domain=dom)
        t = flatten(x.tags)
        sel = ([x] if select_parent else []) + [t]
        if element_first:
            sel = list(reversed(sel))
        props = [build(cond, [x])] if with_cond else []
        q = an(set_of(sel, *props))
    rows = list(q.evaluate())
    got = sorted((id(r[x]) if select_parent else 0, r[t]) for r in rows)
    # a non-iterable value (also a string) counts as a single element
    want = sorted((id(o) if select_parent else 0, e) for o in dom if (not with_cond or holds(cond, {0: o}))
                  for e in (o.tags if isinstance(o.tags, (list, tuple)) else [o.tags]))
    return got, want, q


# ------------------------------------------------------------------ the / an consistency (C06), modes (C08, C09), sub-queries (C15)
from entity_query_language import predicate, Predicate, HasType, MultipleSolutionFound, NoSolutionFound, rule_mode  # noqa: E402
from entity_query_language.symbolic import _symbolic_mode, SymbolicExpression  # noqa: E402


@symbol
@dataclass
class EqItem:
    """instances with equal fields compare equal (dataclass eq) but are distinct objects"""
    name: str
    size: int


@predicate
def is_big_fn(o, limit=1):
    return o.size > limit


@predicate
def is_large_fn(o):
    """a predicate with ONE argument"""
    return o.size > 1


@dataclass(eq=False)
class IsLarge(Predicate):
    """a predicate class with ONE field"""
    obj: object

    def __call__(self):
        return self.obj.size > 1


@predicate
def elem_within(elem, parent, slack=0):
    """a predicate over a flattened element AND the object it was taken from"""
    return elem <= parent.size + slack


@dataclass(eq=False)
class IsBig(Predicate):
    obj: object
    limit: int = 1

    def __call__(self):
        return self.obj.size > self.limit


def outcome_of_the(dom, cond, cls=Item, inside=None, setof=False):
    """('value', id) | ('none',) | ('multiple',) | ('error', repr)"""
    with symbolic_mode():
        x = let(type_=cls, domain=dom)
        q = the(set_of([x], build(cond, [x]))) if setof else the(entity(x, build(cond, [x])))

    def ev():
        try:
            r = q.evaluate()
            return ('value', id(r[x] if setof else r))
        except MultipleSolutionFound:
            return ('multiple',)
        except NoSolutionFound:
            return ('none',)
        except Exception as e:  # noqa
            return ('error', repr(e))
    if inside == 'query':
        with symbolic_mode():
            r = [ev(), ev()]
    elif inside == 'rule':
        with rule_mode():
            r = [ev(), ev()]
    else:
        r = [ev(), ev()]
    return r


def mode_state():
    return (str(_symbolic_mode.get()), len(SymbolicExpression._symbolic_expression_stack_))


def run_select_exprs(doms, cond, sel_spec):
    """set_of over variables and attribute expressions of them; returns multisets of value tuples"""
    with symbolic_mode():
        xs = [let(type_=Item, domain=d) for d in doms]
        sel = [xs[i] if a is None else getattr(xs[i], a) for i, a in sel_spec]
        props = [build(cond, xs)] if cond is not None else []
        q = an(set_of(sel, *props))
    rows = list(q.evaluate())

    def keyof(v):
        return id(v) if isinstance(v, Item) else ('v', repr(v))
    got = sorted(tuple(keyof(r[s]) for s in sel) for r in rows)
    want = []
    for combo in itertools.product(*doms):
        env = dict(enumerate(combo))
        if cond is None or holds(cond, env):
            want.append(tuple(keyof(env[i] if a is None else getattr(env[i], a)) for i, a in sel_spec))
    # variables that are not selected do not multiply rows only if ... they do (SQL semantics): one row per assignment
    return got, sorted(want), q


def run_select_attr(dom, attr, cond):
    with symbolic_mode():
        x = let(type_=Item, domain=dom)
        props = [build(cond, [x])] if cond is not None else []
        q = an(entity(getattr(x, attr), *props))
    got = list(q.evaluate())
    want = [getattr(o, attr) for o in dom if cond is None or holds(cond, {0: o})]
    return got, want, q


# ------------------------------------------------------------------ predicate form (C13) and the registry (C14)
from entity_query_language import From  # noqa: E402


@symbol
@dataclass(eq=False)
class PBase:
    name: str
    size: int = 1


@symbol
@dataclass(eq=False)
class PSub(PBase):
    extra: int = 0


@dataclass(eq=False)
class PSubSub(PSub):
    """undecorated grandchild: inherits the registering constructor through the MRO"""
    deep: int = 0


class PHand(PSubSub):
    """undecorated great-grandchild with a hand-written __init__"""

    def __init__(self, name, size=1):
        super().__init__(name, size)
        self.hand = True


@symbol
@dataclass(eq=False)
class PInit:
    """the dataclass field order differs from the constructor's parameter order: `uid` is not a constructor parameter"""
    uid: int = field(init=False, default=7)
    name: str = 'x'
    size: int = 1


@symbol
@dataclass(eq=False)
class PDef:
    """every field has a default: PDef() is a complete construction with no arguments at all"""
    name: str = 'dflt'
    size: int = 1


@dataclass(eq=False)
class PDefSub(PDef):
    """undecorated subclass, also constructible without arguments"""
    extra: int = 0


class PDefHand(PDef):
    """hand-written __init__ without parameters"""

    def __init__(self):
        super().__init__('hand', 3)


import abc  # noqa: E402


@symbol
@dataclass(eq=False)
class PAbc(abc.ABC):
    """a @symbol class whose metaclass is not `type` itself (abc.ABCMeta): still a class, with subclasses"""
    name: str = 'abc'
    size: int = 1


@dataclass(eq=False)
class PAbcSub(PAbc):
    extra: int = 0


@symbol
@dataclass(eq=False)
class PPost:
    """`area` is a field that is NOT a constructor parameter: it is computed in __post_init__"""
    name: str
    size: int = 1
    area: int = field(init=False, default=0)

    def __post_init__(self):
        self.area = self.size * 2


@symbol
@dataclass(eq=False)
class POther:
    name: str
    size: int = 1


# ------------------------------------------------------------------ rules (C11, C12)
from entity_query_language import Add, infer, refinement, alternative  # noqa: E402


@symbol
@dataclass(eq=False)
class Built:
    """instances constructed by rule inference"""
    a: object = None
    b: object = None
    tag: str = ''


@symbol
@dataclass(eq=False)
class BuiltB(Built):
    pass


@symbol
@dataclass
class BuiltEq(Built):
    """an inferred class whose instances compare equal when their fields do (dataclass eq): distinct bindings can build equal
    instances, which are still distinct results"""


@symbol
@dataclass(eq=False)
class KwBase:
    """a keyword-only field declared BEFORE the positional ones of the subclass: the dataclass field order (source, a, b) is
    not the constructor's parameter order (a, b, *, source)"""
    source: str = field(default='src', kw_only=True)


@symbol
@dataclass(eq=False)
class BuiltKw(KwBase):
    a: object = None
    b: object = None


@symbol
@dataclass(eq=False)
class BuiltEmpty(Built):
    """an inferred class whose instances are falsy (container-like and empty)"""

    def __len__(self):
        return 0


@symbol
@dataclass(eq=False)
class BuiltC(Built):
    pass


@symbol
@dataclass(eq=False)
class BuiltD(Built):
    pass
