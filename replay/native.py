"""Native (CPython, real package from the working tree) side of the harness: replay of counter-models, bounded
stand-ins.  Run with /venv/bin/python and PYTHONPATH=<repo>/src.  Last stdout line is a JSON verdict."""
import json
import sys


def main():
    cmd = sys.argv[1]
    if cmd == 'replay':
        prop, hints = sys.argv[2], json.loads(sys.argv[3])
        from probes import replay
        print(json.dumps(replay(prop, hints), default=str))
    elif cmd == 'standin':
        name, seed, args = sys.argv[2], int(sys.argv[3]), json.loads(sys.argv[4])
        from probes import standin
        print(json.dumps(standin(name, seed, args), default=str))
    elif cmd == 'rerun':
        prop, inp = sys.argv[2], json.loads(sys.argv[3])
        from probes import rerun
        r = rerun(prop, inp)
        print(json.dumps(r, default=str))
        print('STILL-FAILS' if r.get('fails') else 'PASSES-NOW')


if __name__ == '__main__':
    import os
    sys.path.insert(0, os.path.dirname(os.path.abspath(__file__)))
    main()
