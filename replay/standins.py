"""Bounded stand-ins: exhaustive small-scope checks of real functions against the contract taken from the property
statement.  Always labelled `bounded` in the evidence; never counted as proved."""
from __future__ import annotations

import itertools
import time


def run(name, seed, args):
    t0 = time.time()
    fn = globals().get('standin_' + name)
    if fn is None:
        return {'status': 'error', 'error': 'unknown stand-in ' + name, 'failures': []}
    r = fn(seed, args)
    r['status'] = 'ok'
    r['wall_s'] = round(time.time() - t0, 2)
    return r


# ------------------------------------------------------------------------------------------------ C20
_LIBRARY_IDS = [False]      # True: values are wrapped the way the library wraps them (HashedValue(v): its own id rule)
_ATOMS = {}


def _mk(v):
    from entity_query_language.hashed_data import HashedValue
    if _LIBRARY_IDS[0]:
        # one Python object per distinct (type, value) of the alphabet, wrapped WITHOUT an explicit id: two values are the same
        # key exactly when they are the same object, whatever their hash (hash(-1) == hash(-2), hash(1) == hash(True))
        return HashedValue(_ATOMS.setdefault((type(v).__name__, v), v))
    return HashedValue(v, id_=hash((type(v).__name__, v)))     # equal values share an id; False, '' and () do not


def _same(a, b):
    return type(a) is type(b) and a == b


def cache_reference(keys, inserts):
    """abstract view: list of (binding, output) in insertion order, later insert with the same full path overwrites"""
    entries = {}
    for b, o in inserts:
        path = tuple((type(b[k]).__name__, b[k]) if k in b else '*' for k in keys)      # True and 1 are different values
        entries[path] = (dict(b), o)
    return entries


CLEAR = ('CLEAR', None)


def cache_case(keys, inserts, lookup):
    """run the real IndexedCache; `inserts` is a history of (binding, output) insertions and CLEAR markers; returns None or
    a failure description"""
    from entity_query_language.cache_data import IndexedCache
    c = IndexedCache(list(keys))
    live = []
    flat_want = []
    for b, o in inserts:
        if (b, o) == CLEAR:
            c.clear()
            live, flat_want = [], []
            continue
        if b:
            c.insert({k: _mk(v) for k, v in b.items()}, o)
            live.append((b, o))
        else:
            c.insert({}, _mk(o))     # an empty binding goes to the flat store (how the registry of instances is kept)
            flat_want.append(o)
    history = inserts
    inserts = live
    flat_got = [getattr(v, 'value', v) for _, v in c.retrieve(None, from_index=False)]
    if sorted(map(str, flat_got)) != sorted(map(str, set(flat_want))):
        return {'what': 'flat', 'keys': list(keys), 'inserts': history, 'lookup': lookup, 'got': sorted(map(str, flat_got)),
                'want': sorted(map(str, set(flat_want))), 'signature': {'kind': 'flat-store'}}
    entries = cache_reference(keys, inserts)
    stored = [b for b, _ in inserts if b]
    q = {k: _mk(v) for k, v in lookup.items()}
    # coverage
    if lookup:
        want_cov = any(all(k in lookup and _same(lookup[k], v) for k, v in b.items()) for b in stored)
        got_cov = c.check(dict(q))
        if bool(got_cov) != want_cov:
            return {'what': 'check', 'keys': list(keys), 'inserts': history, 'lookup': lookup, 'got': bool(got_cov), 'want': want_cov}
    # retrieval: every stored entry agreeing with the lookup on every key they share, each once, merged
    want, want_paths = [], {}
    for path, (b, o) in entries.items():
        if all(_same(lookup[k], b[k]) for k in b if k in lookup):
            merged = dict(lookup)
            merged.update(b)
            item = (tuple(sorted((k, repr(v)) for k, v in merged.items())), o)
            want.append(item)
            want_paths[item] = path
    got = []
    for res, o in c.retrieve(dict(q)):
        got.append((tuple(sorted((k, repr(getattr(v, 'value', v))) for k, v in res.items())), o))     # (anything else than a wrapped value: shown as it is)
    if sorted(got, key=repr) != sorted(want, key=repr):
        missing = set(want) - set(got)
        kind = 'missing' if missing else ('extra' if set(got) - set(want) else 'multiplicity')
        sig = {'kind': kind}
        if kind == 'missing':
            # is every missed entry explained by the recorded branch preference (KF-C20-retrieve-misses)?  At some level
            # of its path the lookup binds the key, the entry has the wildcard there and a sibling entry (same path
            # before that level) has the lookup's concrete value; or the lookup does not bind the key, the entry is
            # concrete there and a sibling entry has the wildcard.
            def shadowed(path):
                for i, k in enumerate(keys):
                    sibs = [p for p in entries if p[:i] == path[:i] and p != path]
                    if k in lookup and path[i] == '*' and any(p[i] == lookup[k] for p in sibs):
                        return True
                    if k not in lookup and path[i] != '*' and any(p[i] == '*' for p in sibs):
                        return True
                return False
            sig['every_missed_entry_is_shadowed_by_a_sibling_branch'] = all(shadowed(want_paths[m]) for m in missing)
            sig['nothing_extra'] = not (set(got) - set(want))
        return {'what': 'retrieve', 'keys': list(keys), 'inserts': history, 'lookup': lookup, 'got': sorted(got, key=repr), 'want': sorted(want, key=repr),
                'signature': sig}
    return None


def standin_C20_cache(seed, args):
    nkeys = args.get('nkeys', 2)
    alphabet = args.get('alphabet', ['a', 'b'])
    _LIBRARY_IDS[0] = bool(args.get('library_ids'))
    _ATOMS.clear()
    max_inserts = args.get('max_inserts', 2)
    budget = args.get('budget_s', 120)
    keys = list(range(1, nkeys + 1))
    bindings = []
    for r in range(0, nkeys + 1):
        for ks in itertools.combinations(keys, r):
            for vals in itertools.product(alphabet, repeat=r):
                bindings.append(dict(zip(ks, vals)))
    nonempty = [b for b in bindings if b]
    failures = []
    per_sig = {}
    n = 0
    t0 = time.time()
    exhaustive = True
    for k in range(0, max_inserts + 1):
        # the stored outputs: distinct truthy values, and distinct FALSY ones (the operators store False for every true row)
        for ins0, falsy_outputs in ((i0, fo) for i0 in itertools.product(bindings, repeat=k) for fo in ((False, True) if k else (False,))):
          base = [(b, (False, '', ())[i] if falsy_outputs else f"o{i}") for i, b in enumerate(ins0)]
          # the same history with a clear() at every position (also after the last insertion), and without one
          variants = [base] + [base[:j] + [CLEAR] + base[j:] for j in range(1, k + 1)]
          for inserts in variants:
            for lookup in bindings:
                n += 1
                d = cache_case(keys, inserts, lookup)
                if d is not None:
                    d.setdefault('signature', {'kind': d['what']})
                    sk = repr(sorted(d['signature'].items()))
                    per_sig[sk] = per_sig.get(sk, 0) + 1
                    if per_sig[sk] <= 3:       # a few witnesses per distinct kind of failure
                        failures.append(d)
          if time.time() - t0 > budget:
              exhaustive = False
              break
        if not exhaustive:
            break
    return {'evaluations': n, 'exhaustive': exhaustive,
            'scope': f"{nkeys} keys, alphabet {alphabet}, <= {max_inserts} inserts (outputs: distinct truthy values, and distinct falsy "
                     f"ones), a clear() at every position or none, every lookup",
            'failures': failures, 'n_failures': sum(per_sig.values()), 'failures_by_signature': per_sig}


def rerun_C20(inp):
    d = cache_case(inp['keys'], [tuple(x) for x in inp['inserts']], inp['lookup'])
    return d


# ------------------------------------------------------------------------------------------------ SeenSet.discard (C12)
def standin_C12_retract(seed, args):
    """SeenSet.add / discard / check, exhaustively over small histories on the real code: constraints are dict OBJECTS (two
    distinct objects may be equal); discard(a) takes back exactly the object a - all its occurrences, nothing else - and
    all_seen is what the remaining constraints say (an empty constraint covers everything)."""
    from entity_query_language.cache_data import SeenSet
    pool_specs = [{}, {1: 'a'}, {1: 'a'}, {1: 'b'}, {1: 'a', 2: 'x'}, {2: 'x'}]      # index 1 and 2: equal, distinct objects
    lookups = [{1: 'a'}, {1: 'b'}, {2: 'x'}, {1: 'a', 2: 'x'}, {1: 'b', 2: 'y'}]
    max_len = args.get('max_adds', 3)
    failures, n = [], 0
    for k in range(0, max_len + 1):
        for hist in itertools.product(range(len(pool_specs)), repeat=k):
            for victim in range(len(pool_specs)):
                n += 1
                pool = [dict((kk, _mk(v)) for kk, v in spec.items()) for spec in pool_specs]
                s = SeenSet()
                ref = []          # reference: the list of added objects (add stops recording once everything is seen)
                everything = False
                for i in hist:
                    s.add(pool[i])
                    if not everything:
                        ref.append(pool[i])
                        if not pool[i]:
                            everything = True
                s.discard(pool[victim])
                ref = [c for c in ref if c is not pool[victim]]
                want_all = any(not c for c in ref)
                got_ids = [id(c) for c in s.seen]
                if got_ids != [id(c) for c in ref] or bool(s.all_seen) != want_all:
                    failures.append({'what': 'discard', 'adds': list(hist), 'discarded': victim, 'got': [pool.index(c) if c in pool else '?' for c in s.seen],
                                     'want': [[id(p) for p in pool].index(id(c)) for c in ref], 'all_seen': [bool(s.all_seen), want_all],
                                     'signature': {'kind': 'discard'}})
                    continue
                for q in lookups:
                    qq = {kk: _mk(v) for kk, v in q.items()}
                    want = want_all or any(all(kk in qq and qq[kk] == v for kk, v in c.items()) for c in ref)
                    if bool(s.check(qq)) != want:
                        failures.append({'what': 'check-after-discard', 'adds': list(hist), 'discarded': victim, 'lookup': q,
                                         'got': bool(s.check(qq)), 'want': want, 'signature': {'kind': 'check-after-discard'}})
                        break
                if len(failures) > 5:
                    break
    return {'evaluations': n, 'exhaustive': True,
            'scope': f"SeenSet: <= {max_len} additions from a pool of 6 constraint objects (two of them equal, one empty), one discard "
                     f"of any pool object, 5 lookups", 'failures': failures[:3], 'n_failures': len(failures)}



# ------------------------------------------------------------------------------------------------ _most_general_ (C05)
def most_general_case(specs):
    """specs: list of (binding as {key: value}, stored value); runs the real BinaryOperator._most_general_ on fresh objects"""
    from entity_query_language.symbolic import BinaryOperator
    _LIBRARY_IDS[0] = False
    given = [({k: _mk(v) for k, v in b.items()}, val) for b, val in specs]
    snapshot = [(dict(b), val) for b, val in given]
    kept = BinaryOperator._most_general_(iter(given))
    ids = [id(t[0]) for t in given]
    # (1) some of the given pairs, each as it was, in the given order, none twice
    pos = []
    for k in kept:
        if id(k[0]) not in ids or k[1] != given[ids.index(id(k[0]))][1]:
            return {'what': 'most_general', 'specs': specs, 'problem': 'an entry that was not given (or with another value) is returned',
                    'signature': {'kind': 'not-a-given-entry'}}
        pos.append(ids.index(id(k[0])))
    if pos != sorted(set(pos)):
        return {'what': 'most_general', 'specs': specs, 'problem': 'order changed or an entry returned twice', 'kept': pos,
                'signature': {'kind': 'order-or-multiplicity'}}
    if [(dict(b), val) for b, val in given] != snapshot:
        return {'what': 'most_general', 'specs': specs, 'problem': 'the given entries were modified', 'signature': {'kind': 'modified'}}
    # (2) every given entry is represented: some kept entry says at most what it says (its items are a subset)
    for i, (b, _) in enumerate(given):
        if not any(given[j][0].items() <= b.items() for j in pos):
            return {'what': 'most_general', 'specs': specs, 'problem': f'entry {i} is represented by no kept entry', 'kept': pos,
                    'signature': {'kind': 'entry-lost'}}
    # (3) nothing is said twice: no kept entry is made redundant by another given one (a strictly more general one, or an
    #     equal one given earlier)
    for j in pos:
        for i, (b, _) in enumerate(given):
            if i != j and (b.items() < given[j][0].items() or (b.items() == given[j][0].items() and i < j)):
                return {'what': 'most_general', 'specs': specs, 'problem': f'kept entry {j} is redundant given entry {i}', 'kept': pos,
                        'signature': {'kind': 'redundant-entry-kept'}}
    return None


def standin_C05_most_general(seed, args):
    """BinaryOperator._most_general_ exhaustively on the real code: every list of up to max_entries entries whose bindings
    are partial assignments of 2 keys over 2 values (9 bindings), with a truth value each"""
    max_entries = args.get('max_entries', 3)
    bindings = [dict(zip((1, 2), vals)) for vals in itertools.product(['a', 'b', None], repeat=2)]
    bindings = [{k: v for k, v in b.items() if v is not None} for b in bindings]
    failures, n = [], 0
    for k in range(0, max_entries + 1):
        for combo in itertools.product(range(len(bindings)), repeat=k):
            for vals in itertools.product([False, True], repeat=k):
                n += 1
                d = most_general_case([(bindings[i], v) for i, v in zip(combo, vals)])
                if d is not None and len(failures) < 3:
                    failures.append(d)
    return {'evaluations': n, 'exhaustive': True,
            'scope': f"_most_general_: every list of <= {max_entries} (binding, truth value) entries, bindings = the 9 partial "
                     f"assignments of 2 keys over 2 values", 'failures': failures, 'n_failures': len(failures)}

# ------------------------------------------------------------------------------------------------ reference-semantics oracle
def standin_oracle(seed, args):
    """random small queries (generator parameters in args['family']) evaluated by the real engine and by brute force
    over the Cartesian product of the domains (ordinary Python semantics); deterministic in the seed"""
    import probes
    fam = dict(args['family'])
    n = args.get('cases', 150)
    budget = args.get('budget_s', 60)
    t0 = time.time()
    failures = []
    tried = 0
    for s in range(seed * 100000, seed * 100000 + n):
        if time.time() - t0 > budget:
            break
        p = dict(fam, seed=s)
        tried += 1
        d = probes.run_case(p)
        if d is not None:
            kinds = {f['signature']['kind'] for f in failures}
            if len(failures) < 3 or d.get('signature_kind', '') not in kinds:
                failures.append({'input': p, 'detail': d,
                                 'signature': {'family': args.get('label', ''), 'kind': d.get('signature_kind', '')}})
    return {'evaluations': tried, 'exhaustive': False,
            'scope': f"{tried} random cases of family '{args.get('label', '')}', generator parameters {fam} (unset parameters: the "
                     f"generator's defaults in replay/probes.py)",
            'failures': failures, 'n_failures': len(failures)}
