"""Concrete probes against the real package (filled in per property)."""


def replay(prop, hints):
    return {'found': False, 'reason': 'no native probe for this property yet'}


def standin(name, seed, args):
    return {'status': 'error', 'error': 'unknown stand-in ' + name, 'failures': []}


def rerun(prop, inp):
    return {'fails': False}
