"""Concrete probes against the real package: look for an input on which the real code violates a property.

A case is fully described by a small JSON dict (generator parameters + seed), so `rerun` reproduces it."""
from __future__ import annotations

import random
import time
import traceback

import oracle as O


def gen_case(p):
    rng = random.Random(p['seed'])
    nv = p.get('nvars', 1)
    doms = [O.make_domain(rng, p.get('n', 3), falsy=p.get('falsy', False)) for _ in range(nv)]
    cond = O.gen_cond(rng, nv, p.get('depth', 2), falsy=p.get('falsy', False),
                      vocab=tuple(p.get('vocab', ('cmp', 'name', 'truth', 'call', 'contains'))),
                      neg=p.get('neg', True), nested_neg=p.get('nested_neg', False))
    return doms, cond


def run_flatten_case(p):
    O.reset_registry()
    rng = random.Random(p['seed'])
    dom = O.make_domain(rng, p.get('n', 3), falsy=p.get('falsy', False))
    cond = O.gen_cond(rng, 1, 1, falsy=False, vocab=('cmp', 'name'), neg=False)
    try:
        got, want, q = O.run_flatten(dom, p.get('with_cond', False), p.get('select_parent', True), cond)
        if got != want:
            return {'query': f"an(set_of([{'x, ' if p.get('select_parent', True) else ''}flatten(x.tags)]"
                             f"{', ' + repr(cond) if p.get('with_cond') else ''}))",
                    'domain': repr(dom), 'got_rows': len(got), 'want_rows': len(want)}
    except Exception as e:  # noqa
        return {'exception': repr(e), 'trace': traceback.format_exc(limit=4)}
    return None


def run_case(p):
    """returns None if the real engine agrees with the reference, else a description of the disagreement."""
    if p.get('kind') == 'flatten':
        return run_flatten_case(p)
    O.reset_registry()
    doms, cond = gen_case(p)
    if p.get('caching', True):
        O.enable_caching()
    else:
        O.disable_caching()
    try:
        if p.get('nvars', 1) == 1:
            got, want, q = O.run_single(doms[0], cond)
            ok = O.same_list_by_identity(got, want)
            if ok and p.get('reeval'):
                got2 = list(q.evaluate())
                ok = O.same_list_by_identity(got2, want)
                got = got2
            if not ok:
                return {'condition': repr(cond), 'domain': repr(doms[0]), 'got': repr(got), 'want': repr(want)}
        else:
            # the condition must mention every variable for a pure join reading
            got, want, q = O.run_multi(doms, cond)
            ok = sorted(got) == sorted(want) if p.get('count', True) else set(got) == set(want)
            if not ok:
                return {'condition': repr(cond), 'domains': repr(doms), 'got_rows': len(got), 'want_rows': len(want),
                        'missing': len(set(want) - set(got)), 'extra': len(set(got) - set(want))}
    except Exception as e:  # noqa
        return {'condition': repr(cond), 'exception': repr(e), 'trace': traceback.format_exc(limit=4)}
    finally:
        O.enable_caching()
    return None


def search(base, seeds, budget_s=60):
    t0 = time.time()
    tried = 0
    for s in seeds:
        if time.time() - t0 > budget_s:
            break
        p = dict(base, seed=s)
        tried += 1
        d = run_case(p)
        if d is not None:
            return {'found': True, 'input': p, 'detail': d, 'tried': tried}
    return {'found': False, 'tried': tried}


FAMILIES = {
    # property -> list of generator settings to try (most specific first)
    'C01': [dict(nvars=1, depth=2, neg=True, nested_neg=False), dict(nvars=1, depth=3, neg=True, nested_neg=True)],
    'C19': [dict(nvars=1, depth=1, falsy=True, neg=False, vocab=['cmp', 'name', 'contains'])],
    'C03': [dict(nvars=1, depth=3, neg=True, nested_neg=True), dict(nvars=2, depth=2, neg=True, nested_neg=True)],
    'C02': [dict(nvars=2, depth=2, neg=False, vocab=['cmp', 'name']), dict(nvars=3, depth=2, neg=False, vocab=['cmp'])],
    'C05': [dict(nvars=2, depth=2, neg=True, caching=True, reeval=True), dict(nvars=1, depth=3, caching=True, reeval=True)],
    'C18': [dict(nvars=2, depth=2, neg=False)],
    'C16': [dict(kind='flatten', with_cond=False, select_parent=True), dict(kind='flatten', with_cond=True, select_parent=True),
            dict(kind='flatten', with_cond=False, select_parent=False), dict(kind='flatten', with_cond=True, select_parent=False, falsy=True)],
}


def replay(prop, hints):
    sigs = hints.get('signatures') or []
    fams = list(FAMILIES.get(prop, FAMILIES['C01']))
    # model-guided: a counter-model with a falsy own value in value position asks for falsy data
    if any(s and s.get('truthy(own value)') == 'False' for s in sigs):
        fams.insert(0, dict(nvars=1, depth=1, falsy=True, neg=False, vocab=['cmp', 'name', 'contains']))
    tried = 0
    for fam in fams:
        r = search(fam, range(400), budget_s=40)
        tried += r['tried']
        if r['found']:
            r['tried'] = tried
            return r
    return {'found': False, 'tried': tried}


def rerun(prop, inp):
    d = run_case(inp)
    return {'fails': d is not None, 'detail': d}


def standin(name, seed, args):
    import standins
    return standins.run(name, seed, args)
