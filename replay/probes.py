"""Concrete probes against the real package: look for an input on which the real code violates a property.

A case is fully described by a small JSON dict (generator parameters + seed), so `rerun` reproduces it."""
from __future__ import annotations

import itertools
import operator
import random
import time
import traceback

import oracle as O


def gen_case(p):
    rng = random.Random(p['seed'])
    nv = p.get('nvars', 1)
    doms = [O.make_domain(rng, p.get('n', 3), falsy=p.get('falsy', False), equal_values=p.get('equal_values', False),
                          none_names=p.get('none_names', False)) for _ in range(nv)]
    cond = O.gen_cond(rng, nv, p.get('depth', 2), falsy=p.get('falsy', False),
                      vocab=tuple(p.get('vocab', ('cmp', 'name', 'truth', 'call', 'contains'))),
                      neg=p.get('neg', True), nested_neg=p.get('nested_neg', False))
    return doms, cond


def run_flatten_case(p):
    O.reset_registry()
    rng = random.Random(p['seed'])
    dom = O.make_domain(rng, p.get('n', 3), falsy=p.get('falsy', False))
    cond = O.gen_cond(rng, 1, 1, falsy=False, vocab=('cmp', 'name'), neg=False)
    if p.get('singletons'):
        # some parents hold ONE non-iterable value (an int, a string) instead of a collection: a single element
        for o in dom:
            if rng.random() < 0.5:
                o.tags = rng.choice([7, 0, 'xy', 3])
    try:
        got, want, q = O.run_flatten(dom, p.get('with_cond', False), p.get('select_parent', True), cond,
                                     element_first=p.get('element_first', False))
        if got != want:
            return {'query': f"an(set_of([{'x, ' if p.get('select_parent', True) else ''}flatten(x.tags)]"
                             f"{', ' + repr(cond) if p.get('with_cond') else ''}))",
                    'domain': repr(dom), 'got_rows': len(got), 'want_rows': len(want)}
    except Exception as e:  # noqa
        return {'exception': repr(e), 'trace': traceback.format_exc(limit=4)}
    return None


def run_flatten_elem_case(p):
    """C16 / C05: conditions on the flattened ELEMENT itself (and on its parent), any nesting of and / or / not; rows are
    (parent, element) pairs; the lists hold distinct elements (whether the same object listed twice counts twice under a
    disjunction is not something C16 settles, see DESIGN)"""
    from entity_query_language import symbolic_mode, let, an, set_of, and_, or_, not_, flatten
    O.reset_registry()
    (O.enable_caching if p.get('caching', True) else O.disable_caching)()
    rng = random.Random(p['seed'])
    dom = O.make_domain(rng, p.get('n', 3))
    for o in dom:
        o.tags = rng.sample([0, 1, 2, 3, 4, 5], rng.randint(0, 4))

    def gen(d):
        if d == 0 or rng.random() < 0.3:
            if p.get('predicates') and rng.random() < 0.4:
                # a @predicate function over the element and the parent it was taken from (or the parent's size as a value)
                return ('pair', rng.choice(['fn_parent', 'fn_value']), rng.choice([0, 1, 2]))
            if rng.random() < 0.65:
                return ('elem', rng.choice(['lt', 'le', 'gt', 'ge', 'eq', 'ne']), rng.choice([1, 2, 3, 4]))
            kk = rng.random()
            if kk < 0.4:
                return ('par', rng.choice(['lt', 'ge', 'eq', 'ne']), rng.choice([1, 2, 3]))
            # literal-free conditions on the parent alone (a literal's id is part of the operators' cache keys, so only these
            # are ever replayed from a result cache - for every further element of the same parent)
            if kk < 0.75:
                return ('parnl', rng.choice(['lt', 'ge', 'eq', 'ne', 'le']))
            return ('parflag',)
        k = rng.random()
        if k < 0.4:
            return ('and', gen(d - 1), gen(d - 1))
        if k < 0.8:
            return ('or', gen(d - 1), gen(d - 1))
        return ('not', gen(d - 1))

    def holds(c, o, e):
        if c[0] == 'elem':
            return O.OPS[c[1]](e, c[2])
        if c[0] == 'par':
            return O.OPS[c[1]](o.size, c[2])
        if c[0] == 'parnl':
            return O.OPS[c[1]](o.size, o.props['k'])
        if c[0] == 'parflag':
            return bool(o.flag)
        if c[0] == 'pair':
            return e <= o.size + c[2]
        if c[0] == 'not':
            return not holds(c[1], o, e)
        return (holds(c[1], o, e) and holds(c[2], o, e)) if c[0] == 'and' else (holds(c[1], o, e) or holds(c[2], o, e))

    def build(c, b, it):
        if c[0] == 'elem':
            return O.OPS[c[1]](it, c[2])
        if c[0] == 'par':
            return O.OPS[c[1]](b.size, c[2])
        if c[0] == 'parnl':
            return O.OPS[c[1]](b.size, b.props['k'])
        if c[0] == 'parflag':
            return b.flag
        if c[0] == 'pair':
            return O.elem_within(it, b, slack=c[2]) if c[1] == 'fn_parent' else O.elem_within(elem=it, parent=b, slack=c[2])
        if c[0] == 'not':
            return not_(build(c[1], b, it))
        return (and_ if c[0] == 'and' else or_)(build(c[1], b, it), build(c[2], b, it))

    def n_elem(c):
        return 1 if c[0] in ('elem', 'pair') else (0 if c[0] in ('par', 'parnl', 'parflag') else sum(n_elem(x) for x in c[1:]))
    cond = gen(p.get('depth', 2))
    if p.get('or_and_parent'):
        # or_(and_(<condition on the element>, <literal-free condition on the parent alone>), <another condition>): the
        # conjunction's cached result for the parent-only operand is looked up again for every further element of the parent
        first = ('and', ('elem', rng.choice(['lt', 'le', 'gt', 'ge', 'ne']), rng.choice([1, 2, 3, 4])),
                 rng.choice([('parnl', rng.choice(['lt', 'ge', 'eq', 'ne', 'le'])), ('parflag',)]))
        if rng.random() < 0.3:
            first = ('and', first[2], first[1])
        cond = ('or', first, gen(1)) if rng.random() < 0.8 else ('or', gen(1), first)
        for o in dom:
            if len(o.tags) < 2:
                o.tags = rng.sample([0, 1, 2, 3, 4, 5], rng.randint(2, 4))
    try:
        with symbolic_mode():
            b = let(type_=O.Item, domain=dom)
            it = flatten(b.tags)
            sel = [b, it] if p.get('select_parent', True) else [it]
            q = an(set_of(sel, build(cond, b, it)))
        ok = True
        for _ in range(2):          # evaluated twice
            rows = list(q.evaluate())
            got = sorted(((dom.index(r[b]),) if p.get('select_parent', True) else ()) + (r[it],) for r in rows)
            want = sorted(((i,) if p.get('select_parent', True) else ()) + (e,) for i, o in enumerate(dom) for e in o.tags if holds(cond, o, e))
            if got != want:
                ok = False
                break
    except Exception as e:  # noqa
        return {'condition': repr(cond), 'exception': repr(e), 'trace': traceback.format_exc(limit=4), 'signature_kind': 'exception'}
    finally:
        O.enable_caching()
    if not ok:
        kind = 'mismatch'
        core = cond
        while core[0] == 'not':
            core = core[1]
        if p.get('caching', True) and n_elem(cond) >= 1 and core[0] in ('and', 'or'):
            # KF-C16-flattened-element-behind-result-cache: a logical operator whose operand depends on the flattened element
            kind = 'cache-on:logical-operator-over-a-condition-on-the-flattened-element'
        return {'condition': repr(cond), 'domain': repr([(o.name, o.size, o.tags) for o in dom]), 'got': got, 'want': want,
                'signature_kind': kind}
    return None


def run_the_case(p):
    """C06: the() against the number of satisfying objects, twice, consistent with an()"""
    O.reset_registry()
    rng = random.Random(p['seed'])
    cls = O.EqItem if p.get('equal_instances') else O.Item
    if p.get('equal_instances'):
        dom = [O.EqItem(rng.choice('ab'), rng.choice([1, 2])) for _ in range(p.get('n', 3))]
        cond = ('cmp', rng.choice(['eq', 'ge', 'lt']), ('attr', 0, 'size'), ('lit', rng.choice([1, 2])))
    else:
        dom = O.make_domain(rng, p.get('n', 3))
        cond = O.gen_cond(rng, 1, p.get('depth', 2), vocab=tuple(p.get('vocab', ('cmp', 'name', 'truth', 'contains'))),
                          neg=True, nested_neg=True)
        if p.get('distinct_sizes'):
            # sizes 0..n-1 in random order and a threshold condition: the three cases 0 / 1 / >= 2 solutions are all
            # frequent, and the unique solution is rarely the last object of the domain
            sizes = list(range(len(dom)))
            rng.shuffle(sizes)
            for o, z in zip(dom, sizes):
                o.size = z
            lim = rng.choice([len(dom) - 2, len(dom) - 2, len(dom) - 1, len(dom) - 3])
            leaf = rng.choice([('pred_cls', 0, lim), ('pred_fn', 0, lim), ('cmp', 'gt', ('attr', 0, 'size'), ('lit', lim))]
                              if 'pred' in p.get('vocab', ()) else [('cmp', 'gt', ('attr', 0, 'size'), ('lit', lim))])
            cond = leaf if rng.random() < 0.6 else ('and', leaf, ('cmp', 'ge', ('attr', 0, 'size'), ('lit', 0)))
            if p.get('shape') == 'and_or':
                # a disjunction of point conditions two conjunction levels below the descriptor; one alternative holds
                n = len(dom)
                pick = rng.randrange(n)
                alts = [('cmp', 'eq', ('attr', 0, 'size'), ('lit', (pick + n + j) % (2 * n))) for j in (5, 0, 7)]
                rng.shuffle(alts)
                orr = ('or', ('or', alts[0], alts[1]), alts[2])
                cond = ('and', ('and', orr, ('cmp', 'ge', ('attr', 0, 'size'), ('lit', 0))), ('cmp', 'le', ('attr', 0, 'size'), ('lit', n)))
    sat = [o for o in dom if O.holds(cond, {0: o})]
    want = ('value', id(sat[0])) if len(sat) == 1 else (('none',) if not sat else ('multiple',))
    try:
        got = O.outcome_of_the(dom, cond, cls=cls, inside=p.get('inside'), setof=p.get('setof', False))
    except Exception as e:  # noqa
        return {'exception': repr(e), 'trace': traceback.format_exc(limit=4)}
    if got != [want, want]:
        return {'condition': repr(cond), 'domain': repr(dom), 'satisfying': len(sat), 'got': repr(got), 'want': repr([want, want])}
    return None


def run_mode_case(p):
    """C08 / C09: a random interleaving of block entries / exits and result-iterator steps; after every step the mode
    and the expression stack must be those of the reference stack machine, and results must not depend on the mode"""
    from entity_query_language import symbolic_mode, rule_mode, let, an, entity
    O.reset_registry()
    # the result cache is switched off here: abandoned evaluations with the cache on are the subject of C04 / C05
    (O.enable_caching if p.get('caching') else O.disable_caching)()
    rng = random.Random(p['seed'])
    dom = O.make_domain(rng, 4)
    with symbolic_mode():
        x = let(type_=O.Item, domain=dom)
        from entity_query_language import set_of, and_
        setof = bool(p.get('setof')) and rng.random() < 0.5
        if p.get('predicates'):
            conds = [O.is_big_fn(x), O.IsBig(x, 0)] if rng.random() < 0.5 else [O.is_big_fn(x)]
        else:
            conds = [x.size >= 1]
        q = an(set_of([x], *conds)) if setof else an(entity(x, *conds))
    want_all = [o for o in dom if (o.size > 1 if p.get('predicates') else o.size >= 1)]
    base = O.mode_state()
    ref = [base]              # reference stack of (mode, stack depth)
    blocks = []               # open context managers
    iters = []
    log = []
    try:
        for step in range(p.get('steps', 10)):
            # one live iterator per query at a time: interleaved iterators of one query share its evaluation state
            ops = ['enter_q', 'enter_r', 'enter_expr', 'construct', 'operator'] + ([] if iters else ['new_iter', 'new_iter'])
            if blocks:
                ops += ['leave', 'leave_exc']
            if iters:
                ops += ['advance', 'advance', 'close', 'drop', 'finish']
            op = rng.choice(ops)
            log.append(op)
            if op in ('enter_q', 'enter_r'):
                cm = symbolic_mode() if op == 'enter_q' else rule_mode()
                cm.__enter__()
                blocks.append(cm)
                ref.append(('EQLMode.Query' if op == 'enter_q' else 'EQLMode.Rule', ref[-1][1]))
            elif op == 'operator':
                # a symbolic operator on a variable builds an expression inside a block and is rejected outside one
                import operator as _op
                f = rng.choice([_op.eq, _op.ne, _op.lt, _op.le, _op.gt, _op.ge])
                rhs = rng.choice([2, x, 'a'])
                try:
                    r_ = f(x.size if ref[-1][0] != 'None' else x, rhs)
                    built = True
                except AttributeError:
                    built, r_ = False, None
                if built != (ref[-1][0] != 'None'):
                    return {'log': log, 'what': 'symbolic operator ' + f.__name__ + (' accepted outside' if built else ' rejected inside') +
                            ' symbolic mode', 'mode': ref[-1][0], 'result': repr(r_), 'signature_kind': 'operator'}
            elif op == 'construct':
                # calling a @symbol class builds a real instance exactly when symbolic mode is off, whatever expression
                # blocks are open
                made = O.POther('made%d' % step, step)
                if isinstance(made, O.POther) != (ref[-1][0] == 'None'):
                    return {'log': log, 'what': 'construction of a @symbol class does not follow the symbolic mode',
                            'mode': ref[-1][0], 'built': type(made).__name__, 'signature_kind': 'construct'}
            elif op == 'enter_expr':
                # `with q:` - the expression-context stack grows by one entry, the mode is untouched
                q.__enter__()
                blocks.append(q)
                ref.append((ref[-1][0], ref[-1][1] + 1))
            elif op == 'leave':
                blocks.pop().__exit__(None, None, None)
                ref.pop()
            elif op == 'leave_exc':
                cm = blocks.pop()
                try:
                    try:
                        raise KeyError('boom')
                    except KeyError as e:
                        if not cm.__exit__(KeyError, e, e.__traceback__):
                            raise
                except KeyError:
                    pass
                ref.pop()
            elif op == 'new_iter':
                iters.append([q.evaluate(), []])
            elif op == 'advance':
                it = rng.choice(iters)
                try:
                    r_ = next(it[0])
                    it[1].append(r_[x] if setof else r_)
                except StopIteration:
                    if not O.same_list_by_identity(it[1], want_all):
                        return {'log': log, 'what': 'results depend on the mode / history', 'got': repr(it[1]), 'want': repr(want_all)}
                    iters.remove(it)
            elif op == 'finish':
                it = rng.choice(iters)
                it[1].extend([r_[x] if setof else r_ for r_ in it[0]])
                iters.remove(it)
                if not O.same_list_by_identity(it[1], want_all):
                    return {'log': log, 'what': 'results depend on the mode / history', 'got': repr(it[1]), 'want': repr(want_all)}
            elif op == 'close':
                it = rng.choice(iters)
                it[0].close()
                iters.remove(it)
            elif op == 'drop':
                it = rng.choice(iters)
                iters.remove(it)
                del it
                import gc
                gc.collect()
            if O.mode_state() != ref[-1]:
                return {'log': log, 'what': 'mode / expression stack differs from the reference', 'got': O.mode_state(), 'want': ref[-1]}
            if p.get('single_iterator') and len(iters) > 1:
                pass
    except Exception as e:  # noqa
        return {'log': log, 'exception': repr(e), 'trace': traceback.format_exc(limit=5)}
    finally:
        for it in iters:
            try:
                it[0].close()
            except Exception:  # noqa
                pass
        while blocks:
            blocks.pop().__exit__(None, None, None)
        _ = O._symbolic_mode.set(None)
        del O.SymbolicExpression._symbolic_expression_stack_[:]
        O.enable_caching()
    return None


# ---------------------------------------------------------------------------------------------------------------------
# differential family over three integer attributes (ported from a fuzz script a seeding sub-agent wrote, which found the
# defect fixed by db0fee5 on the unchanged tree): and_/or_ with two or three operands nested up to three levels, comparisons
# between attributes of the same or of different variables, membership in a list attribute, 1-3 variables, random
# declaration order, listing order, operator spelling (& | vs and_ or_), conjuncts passed one by one, domain permutation
_FQ_OPS = {'<': operator.lt, '>': operator.gt, '<=': operator.le, '>=': operator.ge, '==': operator.eq, '!=': operator.ne}
_FQ_MIRROR = {'<': '>', '>': '<', '<=': '>=', '>=': '<=', '==': '==', '!=': '!='}


def _fq_atom(rng, vars_, literal_free):
    kind = rng.random()
    v1, v2 = rng.choice(vars_), rng.choice(vars_)
    f1, f2 = rng.choice('abc'), rng.choice('abc')
    op = rng.choice(list(_FQ_OPS))
    if kind < 0.15:
        return ('contains', v1, v2, f2)
    if kind < 0.55 and not literal_free:
        return ('cmpl', v1, f1, op, rng.randint(0, 3))
    if v1 == v2 and f1 == f2:
        f2 = 'abc'[('abc'.index(f1) + 1) % 3]
    return ('cmp', v1, f1, op, v2, f2)


def _fq_formula(rng, vars_, depth, literal_free):
    if depth == 0 or rng.random() < 0.3:
        return _fq_atom(rng, vars_, literal_free)
    k = rng.choice(['and', 'or'])
    return (k,) + tuple(_fq_formula(rng, vars_, depth - 1, literal_free) for _ in range(rng.choice([2, 2, 3])))


def _fq_ev(f, env):
    t = f[0]
    if t == 'and':
        return all(_fq_ev(g, env) for g in f[1:])
    if t == 'or':
        return any(_fq_ev(g, env) for g in f[1:])
    if t == 'cmp':
        return _FQ_OPS[f[3]](getattr(env[f[1]], f[2]), getattr(env[f[4]], f[5]))
    if t in ('cmpl', 'cmplr'):
        return _FQ_OPS[f[3]](getattr(env[f[1]], f[2]), f[4])
    return getattr(env[f[2]], f[3]) in env[f[1]].tags


def _fq_rewrite(rng, f):
    t = f[0]
    if t in ('and', 'or'):
        subs = [_fq_rewrite(rng, g) for g in f[1:]]
        rng.shuffle(subs)
        if len(subs) == 3 and rng.random() < 0.6:
            subs = [(t, subs[0], subs[1]), subs[2]] if rng.random() < 0.5 else [subs[0], (t, subs[1], subs[2])]
        return (t,) + tuple(subs)
    if t == 'cmp' and rng.random() < 0.5:
        return ('cmp', f[4], f[5], _FQ_MIRROR[f[3]], f[1], f[2])
    if t == 'cmpl' and rng.random() < 0.5:
        return ('cmplr', f[1], f[2], f[3], f[4])
    if t == 'contains' and rng.random() < 0.5:
        return ('in', f[1], f[2], f[3])
    return f


def _fq_build(f, V, style):
    from entity_query_language import and_, or_, contains, in_
    t = f[0]
    if t in ('and', 'or'):
        subs = [_fq_build(g, V, style) for g in f[1:]]
        if style == 'ops':
            r = subs[0]
            for s_ in subs[1:]:
                r = (r & s_) if t == 'and' else (r | s_)
            return r
        return and_(*subs) if t == 'and' else or_(*subs)
    if t == 'cmp':
        return _FQ_OPS[f[3]](getattr(V[f[1]], f[2]), getattr(V[f[4]], f[5]))
    if t == 'cmpl':
        return _FQ_OPS[f[3]](getattr(V[f[1]], f[2]), f[4])
    if t == 'cmplr':
        return _FQ_OPS[_FQ_MIRROR[f[3]]](f[4], getattr(V[f[1]], f[2]))
    if t == 'contains':
        return contains(V[f[1]].tags, getattr(V[f[2]], f[3]))
    return in_(getattr(V[f[2]], f[3]), V[f[1]].tags)


def run_fuzzq_case(p):
    """C02 / C05 / C18: see the comment above; every spelling gives the plain-Python result set (and row count when every
    variable is selected), with the result cache on (default) or off, on the first evaluation and on re-evaluation"""
    from entity_query_language import symbolic_mode, let, an, entity, set_of
    O.reset_registry()
    rng = random.Random(p['seed'])
    nv = p.get('nvars') or rng.choice([2, 3, 3])
    names = ['x', 'y', 'z'][:nv]
    domains = {nm: [O.It(rng.randint(0, 3), rng.randint(0, 3), rng.randint(0, 3), [rng.randint(0, 3) for _ in range(rng.randint(0, 2))])
                    for _ in range(rng.randint(1, p.get('n', 4)))] for nm in names}
    lf = p.get('nolit') if p.get('nolit') is not None else (p['seed'] % 2 == 0)
    f = _fq_formula(rng, names, rng.choice([2, 2, 3]), lf)
    if p.get('shape') == 'and_of_ors':
        # a conjunction of disjunctions of atoms: a true first disjunct leaves the other disjuncts' variables open, so the
        # operators' result caches receive entries over some of their keys only, next to entries over all of them
        f = ('and',) + tuple(('or',) + tuple(_fq_atom(rng, names, lf) for _ in range(rng.choice([2, 2, 3])))
                             for _ in range(rng.choice([2, 2, 3])))
    sel = names if p.get('all_selected', True) and rng.random() < 0.6 else rng.sample(names, rng.randint(1, nv))
    key = sorted(sel)
    expected = sorted(tuple(id(env[nm]) for nm in key) for combo in itertools.product(*[domains[nm] for nm in names])
                      for env in [dict(zip(names, combo))] if _fq_ev(f, env))
    count = len(sel) == nv
    (O.enable_caching if p.get('caching', True) else O.disable_caching)()
    try:
        for variant in range(4):
            g = f if variant == 0 else _fq_rewrite(rng, f)
            doms = {k: (v if variant == 0 else rng.sample(v, len(v))) for k, v in domains.items()}
            decl = names if variant == 0 else rng.sample(names, nv)
            so = list(sel) if variant == 0 else rng.sample(list(sel), len(sel))
            style = 'fn' if variant == 0 else rng.choice(['fn', 'ops'])
            flat = False if variant == 0 else rng.random() < 0.5
            try:
                with symbolic_mode():
                    V = {}
                    for nm in decl:
                        V[nm] = let(type_=O.It, domain=doms[nm])
                    conds = [_fq_build(h, V, style) for h in g[1:]] if (flat and g[0] == 'and') else [_fq_build(g, V, style)]
                    q = an(entity(V[so[0]], *conds)) if len(so) == 1 else an(set_of([V[n_] for n_ in so], *conds))
                for n_eval in range(2):
                    if len(so) == 1:
                        got = sorted((id(r),) for r in q.evaluate())
                    else:
                        got = sorted(tuple(id(r[V[nm]]) for nm in key) for r in q.evaluate())
                    ok = got == expected if count else sorted(set(got)) == sorted(set(expected))
                    if not ok:
                        return {'formula': repr(g), 'declared': decl, 'selected': so, 'style': style, 'flat': flat, 'variant': variant,
                                'evaluation': n_eval + 1, 'domains': repr(doms), 'got_rows': len(got), 'want_rows': len(expected),
                                'missing': len(set(expected) - set(got)), 'extra': len(set(got) - set(expected)),
                                'signature_kind': 'variant%d' % variant}
            except Exception as e:  # noqa
                return {'formula': repr(g), 'exception': repr(e), 'trace': traceback.format_exc(limit=4), 'signature_kind': 'exception'}
    finally:
        O.enable_caching()
    return None


def run_subquery_operand_case(p):
    """C15: an attribute of a sub-query big = an(entity(x, c0)) used as a bare condition (big.flag) or as an operand of a
    comparison (big.size == y.size), combined with another condition by and_ / or_ in either operand order: the operand is
    restricted to the sub-query's solutions, i.e. the condition means (c0 and <the same with x>)"""
    from entity_query_language import symbolic_mode, let, an, entity, set_of, and_, or_
    O.reset_registry()
    rng = random.Random(p['seed'])
    d0 = O.make_domain(rng, 4, falsy=True)
    d1 = O.make_domain(rng, 3)
    c0 = ('cmp', rng.choice(['gt', 'ge', 'lt']), ('attr', 0, 'size'), ('lit', rng.choice([0, 1, 2])))
    form = rng.choice(['bare', 'cmp', 'cmp_other'])
    conn = rng.choice(['or', 'and'])
    sub_first = rng.random() < 0.5
    if form == 'cmp_other':
        sub_first = False      # (kept away from the recorded finding: the sub-query attribute is not the first operand of or_)
    other1 = O.gen_cond(rng, 1, 1, falsy=True, vocab=('cmp', 'name'), neg=False)
    other2 = ('cmp', rng.choice(['eq', 'le', 'ne']), ('attr', 0, 'size'), ('index', 1, 'k'))
    op = rng.choice(['eq', 'le', 'ge', 'ne'])
    try:
        with symbolic_mode():
            x = let(type_=O.Item, domain=d0)
            y = let(type_=O.Item, domain=d1)
            big = an(entity(x, O.build(c0, [x])))
            if form == 'bare':
                sub_c, oc = big.flag, O.build(other1, [x])
                ref = lambda a, b: ((O.holds(c0, {0: a}) and bool(a.flag)), O.holds(other1, {0: a}))  # noqa
            elif form == 'cmp_other':
                # the sub-query SELECTS y while its condition is about x only: its variables are x and y all the same
                sel_y = an(entity(y, O.build(c0, [x])))
                sub_c, oc = O.OPS[op](sel_y.size, x.size), O.build(other2, [x, y])
                ref = lambda a, b: ((O.holds(c0, {0: a}) and O.OPS[op](b.size, a.size)), O.holds(other2, {0: a, 1: b}))  # noqa
            else:
                sub_c, oc = O.OPS[op](big.size, y.size), O.build(other2, [x, y])
                ref = lambda a, b: ((O.holds(c0, {0: a}) and O.OPS[op](a.size, b.size)), O.holds(other2, {0: a, 1: b}))  # noqa
            f = or_ if conn == 'or' else and_
            cond = f(sub_c, oc) if sub_first else f(oc, sub_c)
            q = an(entity(x, cond)) if form == 'bare' else an(set_of((x, y), cond))
        comb = (lambda u, v: u or v) if conn == 'or' else (lambda u, v: u and v)
        if form == 'bare':
            got = sorted(set(d0.index(r) for r in q.evaluate()))
            want = [i for i, a in enumerate(d0) if comb(*ref(a, None))]
        else:
            got = sorted(set((d0.index(r[x]), d1.index(r[y])) for r in q.evaluate()))
            want = sorted((i, j) for i, a in enumerate(d0) for j, b in enumerate(d1) if comb(*ref(a, b)))
    except Exception as e:  # noqa
        return {'form': form, 'exception': repr(e), 'trace': traceback.format_exc(limit=4), 'signature_kind': 'exception'}
    if got != want:
        kind = f"{form}:{conn}:{'sub-query-operand-first' if sub_first else 'sub-query-operand-second'}"
        return {'form': form, 'connective': conn, 'sub_first': sub_first, 'c0': repr(c0), 'other': repr(other1 if form == 'bare' else other2),
                'op': op, 'd0': repr(d0), 'd1': repr(d1), 'got': got, 'want': want, 'signature_kind': kind}
    return None


def run_nextrule_case(p):
    """C04 (rule trees with next_rule, which no other property names): a rule and a consequent rule attached with
    next_rule; the answer is the same on every evaluation - also after an abandoned one - and it is: the first rule's
    conclusion for every match of its condition plus the consequent rule's conclusion for every match of its own"""
    from entity_query_language import symbolic_mode, rule_mode, let, infer, Add
    from entity_query_language.rule import next_rule, refinement
    O.reset_registry()
    rng = random.Random(p['seed'])
    (O.enable_caching if p.get('caching', True) else O.disable_caching)()
    dom = O.make_domain(rng, p.get('n', 5))
    c1 = O.gen_cond(rng, 1, 1, vocab=('cmp', 'name', 'truth'), neg=False)
    c2 = O.gen_cond(rng, 1, 1, vocab=('cmp', 'name', 'truth'), neg=False)
    c3 = O.gen_cond(rng, 1, 1, vocab=('cmp', 'name'), neg=False)
    with_ref = rng.random() < 0.4
    try:
        with symbolic_mode():
            x = let(type_=O.Item, domain=dom)
            q = infer(v := let(type_=O.Built), O.build(c1, [x]))
        with rule_mode(q):
            Add(v, O.Built(a=x, tag='A'))
            if with_ref:
                with refinement(O.build(c3, [x])):
                    Add(v, O.Built(a=x, tag='R'))
            with next_rule(O.build(c2, [x])):
                Add(v, O.BuiltB(a=x, tag='B'))
        want = sorted([(i, ('R' if with_ref and O.holds(c3, {0: o}) else 'A')) for i, o in enumerate(dom) if O.holds(c1, {0: o})] +
                      [(i, 'B') for i, o in enumerate(dom) if O.holds(c2, {0: o})])
        outs = []
        if p.get('abandon') and rng.random() < 0.5:
            it = q.evaluate()
            for _ in range(rng.randrange(1, 3)):
                if next(it, None) is None:
                    break
            it.close()
        for _ in range(3):
            outs.append(sorted((dom.index(g.a), g.tag) for g in q.evaluate()))
    except Exception as e:  # noqa
        return {'exception': repr(e), 'trace': traceback.format_exc(limit=4), 'signature_kind': 'exception'}
    finally:
        O.enable_caching()
    if outs != [want] * 3:
        return {'c1': repr(c1), 'c2': repr(c2), 'c3': repr(c3) if with_ref else None, 'domain': repr(dom), 'got': outs, 'want': want,
                'signature_kind': 'first-evaluation' if outs[0] != want else 're-evaluation'}
    return None


def run_kwonly_positional_case(p):
    """C11 / C13: positional arguments of a @symbol dataclass whose FIELD order differs from its constructor's PARAMETER
    order (a keyword-only field inherited from the base comes first among the fields): T(e1, e2) in a rule head binds
    e1, e2 to the first and second constructor parameter; T(From(d), v1) constrains the first parameter"""
    from entity_query_language import symbolic_mode, rule_mode, let, an, entity, infer, From
    O.reset_registry()
    rng = random.Random(p['seed'])
    d0, d1 = O.make_domain(rng, 3), O.make_domain(rng, 3)
    op = rng.choice(['le', 'ne', 'gt', 'eq'])
    try:
        if rng.random() < 0.6:
            form = rng.choice(['a_b', 'a_kwb', 'a_b_kwsource'])
            with rule_mode():
                x = let(type_=O.Item, domain=d0)
                y = let(type_=O.Item, domain=d1)
                head = {'a_b': lambda: O.BuiltKw(x, y.name), 'a_kwb': lambda: O.BuiltKw(x, b=y.name),
                        'a_b_kwsource': lambda: O.BuiltKw(x, y.name, source='given')}[form]()
                q = infer(entity(head, O.OPS[op](x.size, y.size)))
            got = sorted((d0.index(g.a), g.b, g.source) for g in q.evaluate() if isinstance(g.a, O.Item) and isinstance(g.b, (str, type(None))))
            n_got = len(list(q.evaluate()))
            want = sorted((i, b.name, 'given' if form == 'a_b_kwsource' else 'src') for i, a in enumerate(d0) for b in d1 if O.OPS[op](a.size, b.size))
            if got != want or n_got != len(want):
                return {'form': 'head:' + form, 'got': got, 'instances': n_got, 'want': want, 'signature_kind': 'head-fields'}
        else:
            objs = [O.BuiltKw(rng.choice(['p', 'q']), rng.choice([1, 2]), source=rng.choice(['src', 'other'])) for _ in range(5)]
            v = rng.choice(['p', 'q'])
            form = rng.choice(['pos_a', 'pos_a_b', 'pos_a_kwsource'])
            with symbolic_mode():
                t = {'pos_a': lambda: O.BuiltKw(From(objs), v), 'pos_a_b': lambda: O.BuiltKw(From(objs), v, 1),
                     'pos_a_kwsource': lambda: O.BuiltKw(From(objs), v, source='other')}[form]()
                q = an(entity(t))
            got = [objs.index(r) for r in q.evaluate()]
            want = [i for i, o in enumerate(objs) if o.a == v and (form != 'pos_a_b' or o.b == 1) and (form != 'pos_a_kwsource' or o.source == 'other')]
            if got != want:
                return {'form': 'term:' + form, 'value': v, 'objects': repr([(o.a, o.b, o.source) for o in objs]), 'got': got, 'want': want,
                        'signature_kind': 'term-fields'}
    except Exception as e:  # noqa
        return {'exception': repr(e), 'trace': traceback.format_exc(limit=4), 'signature_kind': 'exception'}
    return None


def run_predform_shared_case(p):
    """C13: ONE From(d) object handed to two terms of different types: each term ranges over the members of d that are
    instances of ITS type; the From object (the caller's) still holds d afterwards"""
    from entity_query_language import symbolic_mode, an, set_of, entity, From
    O.reset_registry()
    rng = random.Random(p['seed'])
    mk = [lambda: O.PBase(rng.choice('ab'), rng.choice([1, 2])), lambda: O.PSub(rng.choice('ab'), rng.choice([1, 2]), 5),
          lambda: O.POther(rng.choice('ab'), rng.choice([1, 2]))]
    dom = [rng.choice(mk)() for _ in range(rng.choice([3, 4, 5, 6]))]
    T1, T2 = rng.sample([O.PBase, O.PSub, O.POther], 2)
    op = rng.choice(['eq', 'ne', 'le'])
    fs = rng.choice([None, None, None, 1, 2])          # an additional field constraint on the second term, or none
    only_b = rng.random() < 0.3
    try:
        with symbolic_mode():
            src = From(dom)
            a = T1(src)
            b = T2(src) if fs is None else T2(src, size=fs)
            q = an(entity(b, O.OPS[op](b.size, a.size))) if only_b else an(set_of([a, b], O.OPS[op](a.size, b.size)))
        rows = list(q.evaluate())
    except Exception as e:  # noqa
        return {'exception': repr(e), 'trace': traceback.format_exc(limit=4), 'signature_kind': 'exception'}
    if src.domain is not dom:
        return {'what': 'the From object that was passed in no longer holds the supplied domain', 'signature_kind': 'from-object-modified'}
    A = [o for o in dom if isinstance(o, T1)]
    B = [o for o in dom if isinstance(o, T2) and (fs is None or o.size == fs)]
    if only_b:
        got = sorted(set(dom.index(r) for r in rows))
        want = sorted(set(dom.index(y) for y in B if any(O.OPS[op](y.size, x.size) for x in A)))
    else:
        got = sorted((dom.index(r[a]), dom.index(r[b])) for r in rows)
        want = sorted((dom.index(x), dom.index(y)) for x in A for y in B if O.OPS[op](x.size, y.size))
    if got != want:
        return {'types': (T1.__name__, T2.__name__), 'op': op, 'second_term_size': fs,
                'domain': repr([(type(o).__name__, o.name, o.size) for o in dom]), 'got': got, 'want': want, 'signature_kind': 'mismatch'}
    return None


def run_empty_unselected_case(p):
    """C02 with an EMPTY domain: a query over 2-3 variables, one of which ranges over an empty domain and is not selected.
    The Cartesian product of the domains is empty, so no assignment satisfies the condition and no row is returned -
    whatever the condition is."""
    O.reset_registry()
    rng = random.Random(p['seed'])
    nv = rng.choice([2, 3])
    empty = rng.randrange(nv)
    doms = [([] if i == empty else O.make_domain(rng, 3)) for i in range(nv)]
    cond = O.gen_cond(rng, nv, p.get('depth', 2), vocab=('cmp', 'name'), neg=p.get('neg', False))
    if empty not in O.vars_of(cond):
        other = rng.choice([i for i in range(nv) if i != empty])
        extra = ('cmp', rng.choice(['le', 'ne', 'eq']), ('attr', other, 'size'), ('attr', empty, 'size'))
        cond = (rng.choice(['and', 'or']), cond, extra) if rng.random() < 0.5 else (rng.choice(['and', 'or']), extra, cond)
    sel = [i for i in range(nv) if i != empty]
    try:
        got, want, q = O.run_multi(doms, cond, sel=sel)
        again = [tuple(id(r[x]) for x in q._eql_verif_sel_) for r in q.evaluate()]
    except Exception as e:  # noqa
        return {'condition': repr(cond), 'empty_variable': empty, 'exception': repr(e), 'trace': traceback.format_exc(limit=4),
                'signature_kind': 'exception'}
    if want:
        return {'what': 'harness: the reference is not empty', 'signature_kind': 'harness'}
    if got or again:
        # what the engine returns here: the rows of the operands of or_ that do not mention the empty variable, i.e. the
        # assignments of the OTHER variables under which the condition holds when every comparison that mentions the empty
        # variable counts as false
        def holds_without(c, env):
            if c[0] == 'and':
                return holds_without(c[1], env) and holds_without(c[2], env)
            if c[0] == 'or':
                return holds_without(c[1], env) or holds_without(c[2], env)
            if c[0] == 'not':
                return None
            return False if empty in O.vars_of(c) else O.holds(c, env)
        ignoring = set()
        for combo in itertools.product(*[doms[i] for i in sel]):
            env = dict(zip(sel, combo))
            if holds_without(cond, env):
                ignoring.add(tuple(id(env[i]) for i in sel))
        reading = ('exactly the rows of the or_ operands that do not mention the empty variable'
                   if set(got) == ignoring and set(again) == ignoring and 'not' not in repr(cond) else 'some of those rows')
        return {'condition': repr(cond), 'empty_variable': empty, 'selected': sel, 'domains': repr(doms), 'got_rows': len(got),
                'want_rows': 0, 'what_came_back': reading, 'signature_kind': 'rows-returned-although-an-unselected-variable-has-an-empty-domain'}
    return None


def run_nextrule_nested_case(p):
    """C05 (and C04): a rule over two variables whose refinement carries a consequent rule (next_rule nested in the
    refinement block), literal-free conditions (the ones that hit the result caches): with the result cache on the answer
    is the one with the cache off, which is: for every match of the base rule the refinement's conclusion if its condition
    holds, and the consequent rule's conclusion if its own holds, and the base conclusion if neither does; three times"""
    from entity_query_language import symbolic_mode, rule_mode, let, infer, Add
    from entity_query_language.rule import next_rule, refinement
    rng = random.Random(p['seed'])
    ops = ['le', 'ge', 'eq', 'ne', 'lt']
    o0, o1, o2 = rng.choice(ops), rng.choice(ops), rng.choice(ops)
    dx_spec = [(rng.randrange(0, 3), rng.randrange(0, 3), rng.randrange(0, 3)) for _ in range(rng.choice([2, 3, 4]))]
    dy_spec = [rng.randrange(0, 4) for _ in range(rng.choice([2, 3, 4]))]
    results = {}
    for caching in (True, False):
        O.reset_registry()
        (O.enable_caching if caching else O.disable_caching)()
        dx = [O.Item(name='x%d' % i, size=a, props={'k': b, 'j': c}) for i, (a, b, c) in enumerate(dx_spec)]
        dy = [O.Item(name='y%d' % i, size=a) for i, a in enumerate(dy_spec)]
        try:
            with symbolic_mode():
                x = let(type_=O.Item, domain=dx)
                y = let(type_=O.Item, domain=dy)
                q = infer(v := let(type_=O.Built), O.OPS[o0](x.size, y.size))
            with rule_mode(q):
                Add(v, O.Built(a=x, b=y, tag='base'))
                with refinement(O.OPS[o1](x.size, x.props['k'])):
                    Add(v, O.Built(a=x, b=y, tag='R'))
                    with next_rule(O.OPS[o2](x.size, x.props['j'])):
                        Add(v, O.Built(a=x, b=y, tag='N'))
            outs = [sorted((dx.index(g.a), dy.index(g.b), g.tag) for g in q.evaluate()) for _ in range(3)]
        except Exception as e:  # noqa
            O.enable_caching()
            return {'caching': caching, 'exception': repr(e), 'trace': traceback.format_exc(limit=4), 'signature_kind': 'exception'}
        finally:
            O.enable_caching()
        results[caching] = outs
    want = []
    for i, (a, b, c) in enumerate(dx_spec):
        for j, ys in enumerate(dy_spec):
            if O.OPS[o0](a, ys):
                kinds = (['R'] if O.OPS[o1](a, b) else []) + (['N'] if O.OPS[o2](a, c) else [])
                want.extend((i, j, k) for k in (kinds or ['base']))
    want = sorted(want)
    if results[True] != results[False]:
        return {'ops': (o0, o1, o2), 'x': dx_spec, 'y': dy_spec, 'cache_on': results[True], 'cache_off': results[False],
                'signature_kind': 'cache-on-differs-from-cache-off'}
    if results[False] != [want] * 3:
        return {'ops': (o0, o1, o2), 'x': dx_spec, 'y': dy_spec, 'got': results[False], 'want': want, 'signature_kind': 'reference'}
    return None


def run_the_nested_case(p):
    """C06 / C15: `the` used inside another query.  (a) correlated: the(entity(o, o.name == x.name)) over owners with
    distinct names has exactly one solution per x; its attribute is an operand of the enclosing description, so the
    enclosing the / an behaves like the plain Python filter.  (b) a `the` term as the selected term of an enclosing
    description with a further condition keeps its own outcome: NoSolutionFound / MultipleSolutionFound for 0 / >= 2
    solutions, and for one solution u the enclosing the returns u or raises NoSolutionFound (an: [u] or []) by the further
    condition.  Everything twice."""
    from entity_query_language import symbolic_mode, let, an, the, entity, set_of
    from entity_query_language import MultipleSolutionFound, NoSolutionFound
    O.reset_registry()
    rng = random.Random(p['seed'])
    n = p.get('n', 4)
    d0 = O.make_domain(rng, n)
    sizes = list(range(n))
    rng.shuffle(sizes)
    for o, z in zip(d0, sizes):
        o.size = z
    owners = [O.Item(name=nm, size=rng.choice([1, 2, 3])) for nm in 'abc']
    form = rng.choice(p.get('forms', ['corr_the', 'corr_an', 'the_the', 'the_entity_the', 'an_entity_the', 'the_setof_the']))
    lo = rng.choice([n - 2, n - 2, n - 1, n - 3])
    c0 = ('cmp', 'gt', ('attr', 0, 'size'), ('lit', lo))
    c1 = O.gen_cond(rng, 1, 1, vocab=('cmp', 'name'), neg=False)
    lim = rng.choice([1, 2, 3])
    op = rng.choice(['ge', 'lt', 'eq'])

    def outcome(f, key):
        try:
            return ('value', key(f()))
        except MultipleSolutionFound:
            return ('multiple',)
        except NoSolutionFound:
            return ('none',)
    try:
        with symbolic_mode():
            x = let(type_=O.Item, domain=d0)
            o = let(type_=O.Item, domain=owners)
            if form.startswith('corr'):
                owner_of_x = the(entity(o, o.name == x.name))
                conds = [O.build(c0, [x]), O.build(('cmp', op, ('attr', 0, 'size'), ('lit', lim)), [owner_of_x])]
                q = (the if form == 'corr_the' else an)(entity(x, *conds))
            else:
                inner = the(entity(x, O.build(c0, [x])))
                if form == 'the_the':
                    q = the(inner, O.build(c1, [x]))
                elif form == 'the_entity_the':
                    q = the(entity(inner, O.build(c1, [x])))
                elif form == 'an_entity_the':
                    q = an(entity(inner, O.build(c1, [x])))
                else:
                    q = the(set_of([inner, o], o.name == x.name, O.build(c1, [x])))
        by_name = {w.name: w for w in owners}
        if form.startswith('corr'):
            sat = [a for a in d0 if O.holds(c0, {0: a}) and O.OPS[op](by_name[a.name].size, lim)]
            if form == 'corr_the':
                want = ('value', id(sat[0])) if len(sat) == 1 else (('none',) if not sat else ('multiple',))
                got = [outcome(q.evaluate, id) for _ in range(2)]
            else:
                want = ('value', sorted(id(a) for a in sat))
                got = [outcome(lambda: list(q.evaluate()), lambda r: sorted(id(a) for a in r)) for _ in range(2)]
        else:
            inner_sat = [a for a in d0 if O.holds(c0, {0: a})]
            if len(inner_sat) != 1:
                want = ('none',) if not inner_sat else ('multiple',)
            else:
                u = inner_sat[0]
                ok = O.holds(c1, {0: u})
                if form == 'an_entity_the':
                    want = ('value', [id(u)] if ok else [])
                elif form == 'the_setof_the':
                    want = ('value', (id(u), id(by_name[u.name]))) if ok else ('none',)
                else:
                    want = ('value', id(u)) if ok else ('none',)
            if form == 'an_entity_the':
                got = [outcome(lambda: list(q.evaluate()), lambda r: [id(a) for a in r]) for _ in range(2)]
            elif form == 'the_setof_the':
                got = [outcome(q.evaluate, lambda r: (id(r[x]), id(r[o]))) for _ in range(2)]
            else:
                got = [outcome(q.evaluate, id) for _ in range(2)]
    except Exception as e:  # noqa
        return {'form': form, 'exception': repr(e), 'trace': traceback.format_exc(limit=4), 'signature_kind': form + ':exception'}
    if got != [want, want]:
        return {'form': form, 'inner': repr(c0), 'further': repr(c1), 'owner_test': (op, lim), 'domain': repr(d0),
                'owners': repr(owners), 'got': repr(got), 'want': repr([want, want]), 'signature_kind': form}
    return None


def run_subquery_case(p):
    """C15: an(entity(v, c)) used as a condition / operand means c inlined"""
    from entity_query_language import symbolic_mode, let, an, entity, set_of, and_, or_
    O.reset_registry()
    rng = random.Random(p['seed'])
    d0 = O.make_domain(rng, 3)
    d1 = O.make_domain(rng, 3)
    c0 = O.gen_cond(rng, 1, 1, vocab=('cmp', 'name'), neg=False)
    c1 = ('cmp', rng.choice(['eq', 'lt', 'ge']), ('attr', 0, 'size'), ('attr', 1, 'size'))
    conn = rng.choice(['and', 'or']) if p.get('connectives', True) else 'and'
    if p.get('shared'):
        # ONE sub-query object used as a condition in several places of the enclosing condition (branches of a
        # disjunction, conjuncts; the library refuses a negation over a quantifier): it means its conditions inlined at each of them
        ca, cb, cc = (O.gen_cond(rng, 1, 1, vocab=('cmp', 'name'), neg=False) for _ in range(3))
        shape = rng.choice(['or3', 'or3', 'or_and', 'and_or', 'two_vars'])
        try:
            with symbolic_mode():
                x = let(type_=O.Item, domain=d0)
                y = let(type_=O.Item, domain=d1)
                sub = an(entity(x, O.build(c0, [x])))
                A, B, Cc = O.build(ca, [x]), O.build(cb, [x]), O.build(cc, [x])
                if shape == 'or3':
                    cond, ref = or_(and_(sub, A), and_(sub, B), Cc), lambda a, b: (O.holds(c0, {0: a}) and O.holds(ca, {0: a})) or (O.holds(c0, {0: a}) and O.holds(cb, {0: a})) or O.holds(cc, {0: a})
                elif shape == 'or_and':
                    cond, ref = or_(and_(A, sub), and_(B, sub), Cc), lambda a, b: (O.holds(c0, {0: a}) and (O.holds(ca, {0: a}) or O.holds(cb, {0: a}))) or O.holds(cc, {0: a})
                elif shape == 'and_or':
                    cond, ref = and_(or_(sub, A), or_(sub, B)), lambda a, b: O.holds(c0, {0: a}) or (O.holds(ca, {0: a}) and O.holds(cb, {0: a}))
                else:
                    J = O.build(c1, [x, y])
                    cond, ref = or_(and_(sub, J), and_(sub, A), Cc), lambda a, b: (O.holds(c0, {0: a}) and (O.holds(c1, {0: a, 1: b}) or O.holds(ca, {0: a}))) or O.holds(cc, {0: a})
                q = an(set_of([x, y], cond)) if shape == 'two_vars' else an(entity(x, cond))
            outs = []
            for _ in range(2):
                if shape == 'two_vars':
                    outs.append(sorted((id(r[x]), id(r[y])) for r in q.evaluate()))
                else:
                    outs.append(sorted(id(r) for r in q.evaluate()))
            want = sorted((id(a), id(b)) for a in d0 for b in d1 if ref(a, b)) if shape == 'two_vars' else \
                sorted(id(a) for a in d0 if ref(a, None))
        except Exception as e:  # noqa
            return {'shape': shape, 'exception': repr(e), 'trace': traceback.format_exc(limit=4), 'signature_kind': 'shared:' + shape + ':exception'}
        if [sorted(set(o_)) for o_ in outs] != [sorted(set(want))] * 2:
            return {'shape': shape, 'sub': repr(c0), 'a': repr(ca), 'b': repr(cb), 'c': repr(cc), 'got_rows': [len(o_) for o_ in outs],
                    'want_rows': len(want), 'signature_kind': 'shared:' + shape}
        return None
    try:
        with symbolic_mode():
            x = let(type_=O.Item, domain=d0)
            y = let(type_=O.Item, domain=d1)
            if p.get('binds_new'):
                # the sub-query's variable x is already bound when the sub-query is reached (a condition on x stands before
                # it, or it is a comparison operand after such a condition); its own condition relates x to y, which the
                # sub-query binds: EVERY matching y comes up, as with the condition inlined
                sub = an(entity(x, O.build(c1, [x, y])))
                pre = O.build(c0, [x])
                if conn == 'and':
                    cond = and_(pre, sub)
                else:
                    cond = and_(pre, sub.size >= 0)       # the sub-query as a comparison operand (through an attribute)
            elif p.get('correlated'):
                # the sub-query's own condition mentions the outer variable y; it stands after conditions on x and y
                # (so the enclosing conjunction sees it for several y per x and for several x per y)
                sub = an(entity(x, O.build(c1, [x, y])))
                pre = O.build(c0, [x])
                cy = O.build(('cmp', 'ne', ('attr', 1, 'name'), ('lit', 'zz')), [x, y])
                cond = and_(pre, cy, sub) if conn == 'and' else and_(cy, or_(pre, sub))
            else:
                sub = an(entity(x, O.build(c0, [x])))
                join = O.build(c1, [x, y])
                cond = and_(sub, join) if conn == 'and' else or_(sub, join)
            q = an(set_of([x, y], cond))
        got = sorted((id(r[x]), id(r[y])) for r in q.evaluate())
        def sat(a, b):
            l, r = O.holds(c0, {0: a}), O.holds(c1, {0: a, 1: b})
            if p.get('binds_new'):
                return l and r
            return (l and r) if conn == 'and' else (l or r)
        want = sorted((id(a), id(b)) for a in d0 for b in d1 if sat(a, b))
    except Exception as e:  # noqa
        return {'exception': repr(e), 'trace': traceback.format_exc(limit=4)}
    if set(got) != set(want):
        return {'sub': repr(c0), 'join': repr(c1), 'connective': conn, 'got_rows': len(got), 'want_rows': len(want),
                'missing': len(set(want) - set(got)), 'extra': len(set(got) - set(want))}
    return None


def run_select_case(p):
    """C02 / C19: selected expressions (variables and attributes of them, also of variables the condition does not
    mention): one row per satisfying assignment, each expression with its value under that assignment"""
    O.reset_registry()
    rng = random.Random(p['seed'])
    try:
        if p.get('single_attr'):
            dom = O.make_domain(rng, 4, falsy=True)
            for o in dom:
                if rng.random() < 0.3:
                    o.name = None
            attr = rng.choice(['name', 'size', 'flag'])
            cond = O.gen_cond(rng, 1, 1, vocab=('cmp',), neg=False) if rng.random() < 0.5 else None
            got, want, q = O.run_select_attr(dom, attr, cond)
            if got != want:
                return {'query': f"an(entity(x.{attr}, {cond!r}))", 'domain': repr(dom), 'got': repr(got), 'want': repr(want)}
            return None
        doms = [O.make_domain(rng, 3), O.make_domain(rng, 2)]
        cond = O.gen_cond(rng, 2, 1, vocab=('cmp', 'name'), neg=False) if rng.random() < 0.7 else None
        if cond is not None and rng.random() < 0.5:
            cond = O.gen_cond(rng, 1, 1, vocab=('cmp', 'name'), neg=False)     # mentions only variable 0
        spec = rng.choice([[(0, None), (0, 'name'), (1, None)], [(1, None), (1, 'size'), (0, None)], [(0, 'name'), (0, 'size'), (1, None)],
                           [(0, None), (1, None), (1, 'name')],
                           # an attribute listed BEFORE the variable it is taken from (the result does not depend on the order)
                           [(0, 'name'), (0, None), (1, None)], [(1, 'size'), (0, None), (1, None)], [(1, 'name'), (0, 'size'), (1, None), (0, None)]])
        got, want, q = O.run_select_exprs(doms, cond, spec)
        if got != want:
            return {'select': spec, 'condition': repr(cond), 'got_rows': len(got), 'want_rows': len(want)}
    except Exception as e:  # noqa
        return {'exception': repr(e), 'trace': traceback.format_exc(limit=4)}
    return None


def run_cache_case(p):
    """C05: the same query, result cache on and off, first evaluation and re-evaluation: the same result set (and row
    count, all variables being selected)"""
    from entity_query_language import symbolic_mode, let, an, set_of
    rng0 = random.Random(p['seed'])
    nv = rng0.choice([1, 2, 2])
    outcomes = {}
    want = None
    for caching in (True, False):
        O.reset_registry()
        rng = random.Random(p['seed'] + 1)
        doms = [O.make_domain(rng, 3) for _ in range(nv)]
        cond = O.gen_cond(rng, nv, 2, vocab=('cmp', 'name', 'truth', 'contains'), neg=True, nested_neg=True)
        (O.enable_caching if caching else O.disable_caching)()
        try:
            with symbolic_mode():
                xs = [let(type_=O.Item, domain=d) for d in doms]
                q = an(set_of(xs, O.build(cond, xs)))
            # identify objects by their position in the domain (fresh objects per configuration)
            pos = [{id(o): i for i, o in enumerate(d)} for d in doms]
            for k in ('first', 'again'):
                rows = list(q.evaluate())
                outcomes[(caching, k)] = sorted(tuple(pos[i][id(r[x])] for i, x in enumerate(xs)) for r in rows)
            import itertools
            want = sorted(c for c in itertools.product(*[range(len(d)) for d in doms])
                          if O.holds(cond, {i: doms[i][j] for i, j in enumerate(c)}))
        except Exception as e:  # noqa
            O.enable_caching()
            return {'exception': repr(e), 'caching': caching, 'condition': repr(cond), 'trace': traceback.format_exc(limit=4)}
        finally:
            O.enable_caching()
    vals = list(outcomes.values())
    if any(v != vals[0] for v in vals) or vals[0] != want:
        return {'condition': repr(cond), 'rows': {f"caching={k[0]},{k[1]}": len(v) for k, v in outcomes.items()}, 'want_rows': len(want),
                'signature_kind': 'differs-between-configurations' if any(v != vals[0] for v in vals) else 'all-wrong'}
    return None


def run_history_case(p):
    """C04: a history of full / partial / aborted evaluations of queries sharing a variable, then every query is evaluated
    fully and compared with the reference; the user's domain list and objects must be untouched"""
    from entity_query_language import symbolic_mode, let, an, entity, predicate
    O.reset_registry()
    (O.enable_caching if p.get('caching', True) else O.disable_caching)()
    rng = random.Random(p['seed'])
    dom = O.make_domain(rng, 4)
    if p.get('duplicates') and rng.random() < 0.7:
        dom.append(dom[rng.randrange(len(dom))])       # the same object listed twice
    snapshot = [(id(o), o.name, o.size, o.flag, list(o.tags), dict(o.props)) for o in dom]
    calls = {'n': 0, 'raise_at': None}

    @predicate
    def fragile(o):
        calls['n'] += 1
        if calls['raise_at'] is not None and calls['n'] == calls['raise_at']:
            raise KeyError('user code failed')
        return o.size >= 2

    conds = [O.gen_cond(rng, 1, 2, vocab=('cmp', 'name', 'truth'), neg=True, nested_neg=True) for _ in range(2)]
    log = []
    try:
        with symbolic_mode():
            x = let(type_=O.Item, domain=dom)
            qs = [an(entity(x, O.build(conds[0], [x]))), an(entity(x, O.build(conds[1], [x]))), an(entity(x, fragile(x)))]
        refs = [[o for o in dom if O.holds(conds[0], {0: o})], [o for o in dom if O.holds(conds[1], {0: o})],
                [o for o in dom if o.size >= 2]]
        if len(set(map(id, dom))) < len(dom):
            # an object listed more than once: the property only asks that the first and every later evaluation agree;
            # the reference is what an identical, never evaluated query delivers
            with symbolic_mode():
                x2 = let(type_=O.Item, domain=list(dom))
                fresh = [an(entity(x2, O.build(conds[0], [x2]))), an(entity(x2, O.build(conds[1], [x2]))), an(entity(x2, fragile(x2)))]
            refs = [list(f.evaluate()) for f in fresh]
        for step in range(p.get('steps', 4)):
            i = rng.randrange(3 if p.get('exceptions', True) else 2)
            op = rng.choice(['full', 'partial', 'partial'] + (['raise'] if i == 2 else []))
            log.append((op, i))
            calls['raise_at'] = None
            if op == 'full':
                list(qs[i].evaluate())
            elif op == 'partial':
                it = qs[i].evaluate()
                for _ in range(rng.randrange(0, 3)):
                    next(it, None)
                it.close()
            else:
                calls['n'] = 0
                calls['raise_at'] = rng.randrange(1, len(dom) + 1)
                try:
                    list(qs[i].evaluate())
                except KeyError:
                    pass
                calls['raise_at'] = None
        for i, q in enumerate(qs):
            got = list(q.evaluate())
            if not O.same_list_by_identity(got, refs[i]):
                return {'history': log, 'query': i, 'condition': repr(conds[i]) if i < 2 else 'fragile(x)', 'domain': repr(dom),
                        'got': repr(got), 'want': repr(refs[i]),
                        'signature_kind': ('after-abandoned-evaluation' if any(o in ('partial', 'raise') for o, _ in log) else 'plain')
                        + (',duplicates-in-domain' if len(set(map(id, dom))) < len(dom) else '')}
        if [(id(o), o.name, o.size, o.flag, list(o.tags), dict(o.props)) for o in dom] != snapshot:
            return {'history': log, 'what': 'the domain list or its objects were modified', 'signature_kind': 'user-data-modified'}
    except Exception as e:  # noqa
        return {'history': log, 'exception': repr(e), 'trace': traceback.format_exc(limit=4), 'signature_kind': 'exception'}
    finally:
        O.enable_caching()
    return None


def run_reuse_case(p):
    """C19: one expression object used first as a condition and then as an operand of a comparison: the second use must
    not inherit the truthiness filter of the first.  With p['both_roles']: ONE query in which the expression is a selected
    output and, at the same time, a condition (either operand of an or_ / and_): as a condition it is a truth value, as a
    selected output it is passed on whatever it is"""
    from entity_query_language import symbolic_mode, let, an, entity
    O.reset_registry()
    rng = random.Random(p['seed'])
    dom = O.make_domain(rng, 4, falsy=True)
    attr = rng.choice(['size', 'name', 'flag'])
    falsy = {'size': 0, 'name': '', 'flag': False}[attr]
    if p.get('shared_condition'):
        # ONE comparison object standing at two places of the condition (the library negates in place, so no not_ here)
        from entity_query_language import or_, and_
        c0 = O.gen_cond(rng, 1, 0, falsy=True, vocab=('cmp',), neg=False)
        a0 = O.gen_cond(rng, 1, 1, falsy=True, vocab=('cmp', 'name', 'truth'), neg=False)
        b0 = O.gen_cond(rng, 1, 1, falsy=True, vocab=('cmp', 'name', 'truth'), neg=False)
        shape = rng.choice(['or_or', 'or_and', 'and_or', 'or3'])
        try:
            with symbolic_mode():
                x = let(type_=O.Item, domain=dom)
                c = O.build(c0, [x])
                A, B = O.build(a0, [x]), O.build(b0, [x])
                cond, ref = {
                    'or_or': (lambda: or_(c, or_(A, c)), lambda o: O.holds(c0, {0: o}) or O.holds(a0, {0: o})),
                    'or_and': (lambda: or_(and_(c, A), and_(B, c)), lambda o: O.holds(c0, {0: o}) and (O.holds(a0, {0: o}) or O.holds(b0, {0: o}))),
                    'and_or': (lambda: and_(or_(c, A), or_(B, c)), lambda o: O.holds(c0, {0: o}) or (O.holds(a0, {0: o}) and O.holds(b0, {0: o}))),
                    'or3': (lambda: or_(A, c, B, c), lambda o: O.holds(a0, {0: o}) or O.holds(c0, {0: o}) or O.holds(b0, {0: o}))}[shape]
                q = an(entity(x, cond()))
            outs = [sorted(dom.index(r) for r in q.evaluate()) for _ in range(2)]
            want = [i for i, o in enumerate(dom) if ref(o)]
        except Exception as ex:  # noqa
            return {'shape': shape, 'exception': repr(ex), 'trace': traceback.format_exc(limit=4), 'signature_kind': 'shared-condition:exception'}
        if [sorted(set(o_)) for o_ in outs] != [want, want]:
            return {'shape': shape, 'c': repr(c0), 'a': repr(a0), 'b': repr(b0), 'domain': repr(dom), 'got': outs, 'want': want,
                    'signature_kind': 'shared-condition:' + shape}
        return None
    if p.get('both_roles'):
        from entity_query_language import set_of, or_, and_
        other = O.gen_cond(rng, 1, 1, falsy=True, vocab=('cmp', 'name'), neg=False)
        shape = rng.choice(['or_right', 'or_left', 'and_right', 'and_left'])
        listing = rng.choice(['x_e', 'e_x', 'e_only', 'argument', 'argument'])
        if p.get('both_roles') == 'argument':
            listing, shape = 'argument', rng.choice(['or_right', 'or_left'])
        if listing == 'argument':
            # the expression is a constructor argument of an inferred instance AND a condition of the same rule: as an argument
            # it is a value (C19 "constructor argument"), passed on whatever it is
            from entity_query_language import rule_mode, infer
            try:
                with rule_mode():
                    x = let(type_=O.Item, domain=dom)
                    e = getattr(x, attr) if rng.random() < 0.8 else x.props['k']
                    oc = O.build(other, [x])
                    # (the head is built before or after the condition: which of the two first takes the expression as its
                    # child differs)
                    head_first = rng.random() < 0.5
                    head = O.Built(a=x, b=e, tag='t') if head_first else None
                    cond = {'or_right': lambda: or_(oc, e), 'or_left': lambda: or_(e, oc), 'and_right': lambda: and_(oc, e),
                            'and_left': lambda: and_(e, oc)}[shape]()
                    q = infer(entity(head if head_first else O.Built(a=x, b=e, tag='t'), cond))
                val = (lambda o: getattr(o, attr)) if e._name_.endswith(attr) else (lambda o: o.props['k'])
                sat = [o for o in dom if ((O.holds(other, {0: o}) or bool(val(o))) if shape.startswith('or') else (O.holds(other, {0: o}) and bool(val(o))))]
                outs = [sorted((id(r.a), repr(r.b)) for r in q.evaluate()) for _ in range(2)]
                want = sorted((id(o), repr(val(o))) for o in sat)
            except Exception as ex:  # noqa
                return {'shape': shape, 'listing': listing, 'exception': repr(ex), 'trace': traceback.format_exc(limit=4),
                        'signature_kind': 'both-roles:argument:exception'}
            if outs != [want, want]:
                return {'shape': shape, 'listing': listing, 'attr': attr, 'other': repr(other), 'domain': repr(dom), 'got': repr(outs),
                        'want': repr(want), 'signature_kind': 'both-roles:argument:' + shape}
            return None
        try:
            with symbolic_mode():
                x = let(type_=O.Item, domain=dom)
                e = getattr(x, attr) if rng.random() < 0.8 else x.props['k']
                oc = O.build(other, [x])
                cond = {'or_right': lambda: or_(oc, e), 'or_left': lambda: or_(e, oc), 'and_right': lambda: and_(oc, e),
                        'and_left': lambda: and_(e, oc)}[shape]()
                q = an(set_of([x, e], cond)) if listing == 'x_e' else (an(set_of([e, x], cond)) if listing == 'e_x' else an(entity(e, cond)))
            val = (lambda o: getattr(o, attr)) if e._name_.endswith(attr) else (lambda o: o.props['k'])
            sat = [o for o in dom if ((O.holds(other, {0: o}) or bool(val(o))) if shape.startswith('or') else (O.holds(other, {0: o}) and bool(val(o))))]
            outs = []
            for _ in range(2):
                rows = list(q.evaluate())
                outs.append(sorted(((id(r[x]), repr(r[e])) if listing != 'e_only' else (0, repr(r))) for r in rows))
            want = sorted(((id(o), repr(val(o))) if listing != 'e_only' else (0, repr(val(o)))) for o in sat)
        except Exception as ex:  # noqa
            return {'shape': shape, 'exception': repr(ex), 'trace': traceback.format_exc(limit=4), 'signature_kind': 'both-roles:exception'}
        ok = all((o_ == want) if listing != 'e_only' else (sorted(set(o_)) == sorted(set(want))) for o_ in outs)
        if not ok:
            return {'shape': shape, 'listing': listing, 'attr': attr, 'other': repr(other), 'domain': repr(dom), 'got': repr(outs),
                    'want': repr(want), 'signature_kind': 'both-roles:' + shape}
        return None
    try:
        with symbolic_mode():
            x = let(type_=O.Item, domain=dom)
            e = getattr(x, attr)
            q1 = an(entity(x, e))
        got1 = list(q1.evaluate())
        want1 = [o for o in dom if getattr(o, attr)]
        if not O.same_list_by_identity(got1, want1):
            return {'step': 'as condition', 'attr': attr, 'domain': repr(dom), 'got': repr(got1), 'want': repr(want1)}
        with symbolic_mode():
            q2 = an(entity(x, e == falsy))
        got2 = list(q2.evaluate())
        want2 = [o for o in dom if getattr(o, attr) == falsy]
        if not O.same_list_by_identity(got2, want2):
            return {'step': 'as operand after use as condition', 'attr': attr, 'domain': repr(dom), 'got': repr(got2), 'want': repr(want2)}
    except Exception as e:  # noqa
        return {'exception': repr(e), 'trace': traceback.format_exc(limit=4)}
    return None


def run_domain_subquery_case(p):
    """C09: predicates inside a sub-query that is the domain of a variable, evaluated under each ambient mode"""
    from contextlib import nullcontext
    from entity_query_language import symbolic_mode, rule_mode, let, an, entity
    rng = random.Random(p['seed'])
    results = {}
    want = None
    for label, ambient in (('none', nullcontext), ('query', symbolic_mode), ('rule', rule_mode)):
        O.reset_registry()
        r2 = random.Random(p['seed'] + 7)
        dom = O.make_domain(r2, 5)
        lim = r2.choice([0, 1, 2])
        use_cls = r2.random() < 0.5
        try:
            with symbolic_mode():
                c = let(type_=O.Item, domain=dom)
                sub = an(entity(c, O.IsBig(c, limit=lim) if use_cls else O.is_big_fn(c, limit=lim)))
                x = let(type_=O.Item, domain=sub)
                q = an(entity(x, x.name != 'a'))
            with ambient():
                got = [dom.index(o) for o in q.evaluate()]
            results[label] = got
            want = [i for i, o in enumerate(dom) if o.size > lim and o.name != 'a']
        except Exception as e:  # noqa
            return {'ambient': label, 'exception': repr(e), 'trace': traceback.format_exc(limit=4)}
    if any(v != want for v in results.values()):
        return {'results_by_ambient_mode': results, 'want': want}
    return None


def run_infer_modes_case(p):
    """C09 / C08: infer(entity(T(...), conditions with class / function predicates)) consumed under each ambient mode (no
    block, a symbolic_mode block, a rule_mode block, the rule's own rule_mode(q) block): the same real instances every time;
    and a @predicate function called INSIDE a block (query or rule) builds an expression instead of running its body"""
    from contextlib import nullcontext
    from entity_query_language import symbolic_mode, rule_mode, let, infer, entity, and_
    from entity_query_language.symbolic import SymbolicExpression
    rng = random.Random(p['seed'])
    results = {}
    want = None
    for label in ('none', 'query', 'rule', 'own_rule_block'):
        O.reset_registry()
        r2 = random.Random(p['seed'] + 7)
        dom = O.make_domain(r2, 5)
        lim = r2.choice([0, 1, 2])
        use = r2.choice(['cls', 'fn', 'both'])
        try:
            with rule_mode():
                x = let(type_=O.Item, domain=dom)
                conds = []
                if use in ('cls', 'both'):
                    conds.append(O.IsBig(x, limit=lim))
                if use in ('fn', 'both'):
                    pf = O.is_big_fn(x, limit=lim)
                    if not isinstance(pf, SymbolicExpression):
                        return {'what': '@predicate function called inside a rule_mode block did not build an expression', 'got': repr(pf),
                                'signature_kind': 'predicate-executed-inside-a-block'}
                    conds.append(pf)
                conds.append(x.size >= 0)
                q = infer(entity(O.Built(a=x, tag='t'), and_(*conds)))
            ambient = {'none': nullcontext, 'query': symbolic_mode, 'rule': rule_mode, 'own_rule_block': lambda: rule_mode(q)}[label]
            with ambient():
                got = list(q.evaluate())
            if any(not isinstance(g, O.Built) for g in got):
                return {'ambient': label, 'what': 'infer did not build real instances', 'got': repr([type(g).__name__ for g in got]),
                        'signature_kind': 'symbolic-objects'}
            results[label] = sorted(dom.index(g.a) for g in got)
            want = sorted(i for i, o in enumerate(dom) if o.size > lim)
        except Exception as e:  # noqa
            return {'ambient': label, 'exception': repr(e), 'trace': traceback.format_exc(limit=4), 'signature_kind': 'exception'}
    if any(v != want for v in results.values()):
        return {'results_by_ambient_mode': results, 'want': want, 'signature_kind': 'differs'}
    return None


def run_infer_nested_case(p):
    """C04: an inferring query whose constructor argument is itself a term WITHOUT a domain, constrained by keyword
    (Built(a=POther(name=v))): one instance per registered POther with that name - also when the query is evaluated again
    after evaluations that were abandoned after a few results (or before the first one)"""
    from entity_query_language import rule_mode, symbolic_mode, infer, an, entity
    O.reset_registry()
    rng = random.Random(p['seed'])
    names = ['a', 'b', 'c']
    objs = [O.POther(rng.choice(names), rng.choice([1, 2])) for _ in range(rng.choice([3, 4, 5, 6]))]
    v_name, v_size = rng.choice(names), rng.choice([1, 2])
    style = rng.choice(['name', 'name_size', 'query_nested'])
    log = []
    try:
        if style == 'query_nested':
            # the same shape in a plain query: PSub instances whose ... no nesting available without inference, so the
            # keyword-constrained term is the selected entity itself and is evaluated through a second query that shares it
            with symbolic_mode():
                t = O.POther(name=v_name)
                q = an(entity(t))
            key = lambda r: r                                                         # noqa
            want = [o for o in objs if o.name == v_name]
        else:
            with rule_mode():
                inner = O.POther(name=v_name) if style == 'name' else O.POther(name=v_name, size=v_size)
                q = infer(entity(O.Built(a=inner, tag='t')))
            key = lambda r: r.a                                                       # noqa
            want = [o for o in objs if o.name == v_name and (style == 'name' or o.size == v_size)]
        for step in range(rng.choice([1, 2, 3])):
            op = rng.choice(['full', 'partial', 'partial'])
            log.append(op)
            if op == 'full':
                got = [key(r) for r in q.evaluate()]
                if not O.same_list_by_identity(got, want):
                    return {'history': log, 'style': style, 'registered': repr(objs), 'name': v_name, 'size': v_size, 'got': repr(got),
                            'want': repr(want), 'signature_kind': 'after-abandoned-evaluation' if 'partial' in log else 'plain'}
            else:
                it = q.evaluate()
                for _ in range(rng.randrange(0, 3)):
                    next(it, None)
                it.close()
        got = [key(r) for r in q.evaluate()]
    except Exception as e:  # noqa
        return {'history': log, 'style': style, 'exception': repr(e), 'trace': traceback.format_exc(limit=4), 'signature_kind': 'exception'}
    if not O.same_list_by_identity(got, want):
        return {'history': log, 'style': style, 'registered': repr(objs), 'name': v_name, 'size': v_size, 'got': repr(got), 'want': repr(want),
                'signature_kind': 'after-abandoned-evaluation' if 'partial' in log else 'plain'}
    return None


def run_the_operand_case(p):
    """C15: the(entity(m, c)) as a comparison operand, c correlated with the enclosing query (unique match per binding)"""
    from entity_query_language import symbolic_mode, let, an, the, entity
    O.reset_registry()
    rng = random.Random(p['seed'])
    n = 4
    inner = [O.Item(f"k{i}", i) for i in range(n)]                       # unique names: exactly one match per key
    outer = [O.Item(f"k{rng.randrange(n)}", rng.randrange(n)) for _ in range(5)]
    try:
        with symbolic_mode():
            y = let(type_=O.Item, domain=outer)
            m = let(type_=O.Item, domain=inner)
            q = an(entity(y, y.size == the(entity(m, m.name == y.name)).size))
        got = list(q.evaluate())
        want = [o for o in outer if o.size == [k for k in inner if k.name == o.name][0].size]
    except Exception as e:  # noqa
        return {'exception': repr(e), 'trace': traceback.format_exc(limit=4)}
    if not O.same_list_by_identity(got, want):
        return {'outer': repr(outer), 'got': repr(got), 'want': repr(want)}
    return None


def run_predform_case(p):
    """C13: T(From(d), fields...) == explicit query with one equality per given field; the variable ranges over exactly
    the members of d that are instances of T (subclasses included)"""
    from entity_query_language import symbolic_mode, let, an, entity, From, and_
    O.reset_registry()
    rng = random.Random(p['seed'])
    names = ['a', 'b', None] if p.get('none_values', True) else ['a', 'b']
    mk = [lambda: O.PBase(rng.choice(names), rng.choice([1, 2])), lambda: O.PSub(rng.choice(names), rng.choice([1, 2]), 5),
          lambda: O.POther(rng.choice(names), rng.choice([1, 2]))]
    # instances that exist (and are registered) but are NOT in the supplied domain: an explicit domain, even an empty one,
    # is never replaced by the registry
    outside = [rng.choice(mk)() for _ in range(3)]
    n = rng.choice([0, 0, 3, 4, 5]) if p.get('allow_empty') else rng.choice([3, 4, 5])
    dom = [rng.choice(mk)() for _ in range(n)]
    T = rng.choice([O.PBase, O.PSub, O.PInit, O.PSubSub, O.PHand, O.PPost])
    if T in (O.PInit, O.PSubSub, O.PHand, O.PPost):
        # PSubSub / PHand: UNDECORATED subclasses of a @symbol class (the term ranges over the class that is called, not over
        # the decorated ancestor); PPost: a field that is not a constructor parameter
        mk = mk + [lambda: T(rng.choice(names), rng.choice([1, 2]))] * 3 + [lambda: O.PSubSub(rng.choice(names), rng.choice([1, 2]))]
        dom = [rng.choice(mk)() for _ in range(n)]
    style = rng.choice(['kw_name', 'pos_name', 'pos_name_size', 'kw_size', 'none', 'let'] + (['kw_noninit'] * 3 if T is O.PPost else []))
    members = list(dom)
    # the domain may be any iterable: a list, a tuple, a generator, a dict view, a frozenset (compared as sets then)
    container = rng.choice(['list', 'list', 'tuple', 'generator', 'dict_values', 'frozenset', 'iterator'])
    if container == 'tuple':
        dom = tuple(members)
    elif container == 'generator':
        dom = (o for o in members)
    elif container == 'dict_values':
        dom = {i: o for i, o in enumerate(members)}.values()
    elif container == 'frozenset':
        dom = frozenset(members)
    elif container == 'iterator':
        dom = iter(members)
    if rng.random() < 0.25:
        # the registry is cleared after the instances were made: the type filter does not depend on what is registered
        O.reset_registry()
    v_name, v_size = rng.choice(names), rng.choice([1, 2])
    if rng.random() < 0.25:
        # a bool as the required value is a VALUE like any other (True == 1, False == 0; never "is truthy")
        v_size = rng.choice([True, False])
        for o in members:
            if rng.random() < 0.5:
                o.size = rng.choice([0, 1, 2, 3])
    if rng.random() < 0.15:
        v_name = rng.choice([True, False, ''])
        for o in members:
            if rng.random() < 0.5:
                o.name = rng.choice([True, False, '', 'a', None, 1])
    try:
        with symbolic_mode():
            if style == 'kw_name':
                q = T(From(dom), name=v_name)
                fields = {'name': v_name}
            elif style == 'pos_name':
                q = T(From(dom), v_name)
                fields = {'name': v_name}
            elif style == 'pos_name_size':
                q = T(From(dom), v_name, v_size)
                fields = {'name': v_name, 'size': v_size}
            elif style == 'kw_size':
                q = T(From(dom), size=v_size)
                fields = {'size': v_size}
            elif style == 'kw_noninit':
                v_area = rng.choice([2, 4])
                if rng.random() < 0.5:
                    q = T(From(dom), area=v_area)
                    fields = {'area': v_area}
                else:
                    q = T(From(dom), v_name, area=v_area)
                    fields = {'name': v_name, 'area': v_area}
            elif style == 'none':
                q = an(entity(T(From(dom))))
                fields = {}
            else:
                # "however the variable was declared": with or without a name, positionally or by keyword
                how = rng.choice(['plain', 'named', 'named', 'positional', 'positional_named'])
                x = {'plain': lambda: let(type_=T, domain=dom), 'named': lambda: let(type_=T, domain=dom, name='v'),
                     'positional': lambda: let(T, dom), 'positional_named': lambda: let(T, dom, 'v')}[how]()
                style = 'let:' + how
                q = an(entity(x))
                fields = {}
        got = list(q.evaluate())
        want = [o for o in members if isinstance(o, T) and all(getattr(o, f) == v for f, v in fields.items())]
        if container == 'frozenset':
            got, want = sorted(got, key=id), sorted(want, key=id)
        dom = members
    except Exception as e:  # noqa
        return {'style': style, 'container': container, 'exception': repr(e), 'trace': traceback.format_exc(limit=4)}
    if not O.same_list_by_identity(got, want):
        return {'style': style, 'type': T.__name__, 'fields': fields, 'domain': repr([(type(o).__name__, o.name, o.size) for o in dom]),
                'got': repr([(type(o).__name__, o.name, o.size) for o in got]),
                'want': repr([(type(o).__name__, o.name, o.size) for o in want]),
                'signature_kind': 'empty-or-no-instance-domain' if not [o for o in dom if isinstance(o, T)] else 'mismatch'}
    return None


def run_case(p):
    """returns None if the real engine agrees with the reference, else a description of the disagreement."""
    # unless a family fixes it, every third case is generated without literals (such conditions hit the operators' result
    # caches; a literal's id is part of the cache keys)
    O.NOLIT[0] = bool(p['nolit']) if 'nolit' in p else (p.get('seed', 0) % 3 == 0 and p.get('kind') in (None, 'cache', 'rewrite', 'subquery', 'history'))
    try:
        return _run_case(p)
    finally:
        O.NOLIT[0] = False


def _run_case(p):
    if p.get('kind') == 'predform':
        return run_predform_case(p)
    if p.get('kind') == 'lazy':
        return run_lazy_case(p)
    for k, f in (('forall', 'run_forall_case'), ('concat', 'run_concat_case'), ('rewrite', 'run_rewrite_case'),
                 ('registry', 'run_registry_case'), ('infer', 'run_infer_case'), ('rdr', 'run_rdr_case'), ('rdrtree', 'run_rdrtree_case'),
                 ('flatten_elem', 'run_flatten_elem_case'), ('chain3', 'run_chain3_case')):
        if p.get('kind') == k:
            return globals()[f](p)
    if p.get('kind') == 'reuse':
        return run_reuse_case(p)
    if p.get('kind') == 'domain_subquery':
        return run_domain_subquery_case(p)
    if p.get('kind') == 'the_operand':
        return run_the_operand_case(p)
    if p.get('kind') == 'cache':
        return run_cache_case(p)
    if p.get('kind') == 'history':
        return run_history_case(p)
    if p.get('kind') == 'select':
        return run_select_case(p)
    if p.get('kind') == 'flatten':
        return run_flatten_case(p)
    if p.get('kind') == 'fuzzq':
        return run_fuzzq_case(p)
    if p.get('kind') == 'subquery_operand':
        return run_subquery_operand_case(p)
    if p.get('kind') == 'nextrule':
        return run_nextrule_case(p)
    if p.get('kind') == 'kwonly_positional':
        return run_kwonly_positional_case(p)
    if p.get('kind') == 'predform_shared':
        return run_predform_shared_case(p)
    if p.get('kind') == 'empty_unselected':
        return run_empty_unselected_case(p)
    if p.get('kind') == 'nextrule_nested':
        return run_nextrule_nested_case(p)
    if p.get('kind') == 'infer_nested':
        return run_infer_nested_case(p)
    if p.get('kind') == 'infer_modes':
        return run_infer_modes_case(p)
    if p.get('kind') == 'the_nested':
        return run_the_nested_case(p)
    if p.get('kind') == 'the':
        return run_the_case(p)
    if p.get('kind') == 'modes':
        return run_mode_case(p)
    if p.get('kind') == 'subquery':
        return run_subquery_case(p)
    O.reset_registry()
    doms, cond = gen_case(p)
    if p.get('caching', True):
        O.enable_caching()
    else:
        O.disable_caching()
    try:
        if p.get('nvars', 1) == 1:
            got, want, q = O.run_single(doms[0], cond, variant=(p['seed'] // 3) % 4 if p.get('vary', True) else 0)
            ok = O.same_list_by_identity(got, want)
            if ok and p.get('reeval', True):
                got2 = list(q.evaluate())
                ok = O.same_list_by_identity(got2, want)
                got = got2
            if not ok:
                return {'condition': repr(cond), 'domain': repr(doms[0]), 'got': repr(got), 'want': repr(want)}
        else:
            # the condition must mention every variable for a pure join reading
            sel = None
            if p.get('project'):
                # C02, projection: only some of the variables are selected; the SET of rows is the projection of the
                # satisfying assignments
                r2 = random.Random(p['seed'] * 7 + 1)
                k = r2.randrange(1, len(doms))
                sel = sorted(r2.sample(range(len(doms)), k))
            # declaration order (= order of the variable ids = key order of the result caches), listing order of the
            # selected variables and conjuncts passed one by one vary with the seed
            r3 = random.Random(p['seed'] * 11 + 5)
            decl = list(range(len(doms)))
            sel_order = list(sel) if sel is not None else list(range(len(doms)))
            flat = False
            if p.get('vary', True):
                r3.shuffle(decl)
                r3.shuffle(sel_order)
                flat = r3.random() < 0.3
            got, want, q = O.run_multi(doms, cond, sel, decl=decl, sel_order=sel_order, flat=flat)
            ok = sorted(got) == sorted(want) if (p.get('count', True) and sel is None) else set(got) == set(want)
            if ok and p.get('reeval', True):
                # the same query object evaluated again gives the same rows (C04 / C05 are part of every property's
                # precondition "whatever was evaluated before")
                xs = q._eql_verif_sel_
                got2 = [tuple(id(r[v]) for v in xs) for r in q.evaluate()]
                ok = sorted(got2) == sorted(want) if (p.get('count', True) and sel is None) else set(got2) == set(want)
                if not ok:
                    got = got2
            if not ok:
                return {'condition': repr(cond), 'domains': repr(doms), 'got_rows': len(got), 'want_rows': len(want),
                        'missing': len(set(want) - set(got)), 'extra': len(set(got) - set(want))}
    except Exception as e:  # noqa
        return {'condition': repr(cond), 'exception': repr(e), 'trace': traceback.format_exc(limit=4)}
    finally:
        O.enable_caching()
    return None


def search(base, seeds, budget_s=60):
    t0 = time.time()
    tried = 0
    for s in seeds:
        if time.time() - t0 > budget_s:
            break
        p = dict(base, seed=s)
        tried += 1
        d = run_case(p)
        if d is not None:
            return {'found': True, 'input': p, 'detail': d, 'tried': tried}
    return {'found': False, 'tried': tried}


FAMILIES = {
    # property -> list of generator settings to try (most specific first)
    'C01': [dict(nvars=1, depth=2, neg=True, nested_neg=False), dict(nvars=1, depth=3, neg=True, nested_neg=True)],
    'C19': [dict(nvars=1, depth=1, falsy=True, neg=False, vocab=['cmp', 'name', 'contains'])],
    'C03': [dict(nvars=1, depth=3, neg=True, nested_neg=True), dict(nvars=2, depth=2, neg=True, nested_neg=True)],
    'C02': [dict(nvars=2, depth=2, neg=False, vocab=['cmp', 'name']), dict(nvars=3, depth=2, neg=False, vocab=['cmp'])],
    'C05': [dict(nvars=2, depth=2, neg=True, caching=True, reeval=True), dict(nvars=1, depth=3, caching=True, reeval=True)],
    'C18': [dict(nvars=2, depth=2, neg=False)],
    'C16': [dict(kind='flatten', with_cond=False, select_parent=True), dict(kind='flatten', with_cond=True, select_parent=True),
            dict(kind='flatten', with_cond=False, select_parent=False), dict(kind='flatten', with_cond=True, select_parent=False, falsy=True)],
}


def replay(prop, hints):
    sigs = hints.get('signatures') or []
    fams = list(FAMILIES.get(prop, FAMILIES['C01']))
    # model-guided: a counter-model with a falsy own value in value position asks for falsy data
    if any(s and s.get('truthy(own value)') == 'False' for s in sigs):
        fams.insert(0, dict(nvars=1, depth=1, falsy=True, neg=False, vocab=['cmp', 'name', 'contains']))
    tried = 0
    for fam in fams:
        r = search(fam, range(400), budget_s=40)
        tried += r['tried']
        if r['found']:
            r['tried'] = tried
            return r
    return {'found': False, 'tried': tried}


def rerun(prop, inp):
    if isinstance(inp, dict) and 'input' in inp and 'detail' in inp:
        inp = inp['input']
    if isinstance(inp, dict) and inp.get('what') in ('check', 'retrieve'):
        import standins
        d = standins.rerun_C20(inp)
        return {'fails': d is not None, 'detail': d}
    if isinstance(inp, dict) and inp.get('what') == 'most_general':
        import standins
        d = standins.most_general_case([({int(k): v for k, v in b.items()}, val) for b, val in inp['specs']])
        return {'fails': d is not None, 'detail': d}
    d = run_case(inp)
    return {'fails': d is not None, 'detail': d}


def standin(name, seed, args):
    import standins
    return standins.run(name, seed, args)


def run_lazy_case(p):
    """C07: a single-variable query over a one-shot iterator: the k-th result is delivered after pulling exactly the
    prefix that ends at the k-th qualifying element; nothing is ever pulled twice, whatever partial / full evaluations follow"""
    from entity_query_language import symbolic_mode, let, an, entity
    O.reset_registry()
    (O.enable_caching if p.get('caching', True) else O.disable_caching)()
    rng = random.Random(p['seed'])
    dom = O.make_domain(rng, p.get('n', 5))
    cond = O.gen_cond(rng, 1, p.get('depth', 2), vocab=tuple(p.get('vocab', ('cmp', 'name', 'truth', 'member', 'contains', 'call'))),
                      neg=True, nested_neg=True)
    spelling = rng.choice(['entity', 'an_var', 'set_of']) if p.get('no_condition') else 'cond'
    if p.get('no_condition'):
        # the selected variable is not bound by any condition (the "Cartesian product" diagnostics look at it): every
        # element qualifies, the k-th result needs exactly k pulls, also for domains of more than 20 elements
        cond = ('cmp', 'ge', ('attr', 0, 'size'), ('lit', -1))
    pulled = []

    def source():
        for i, o in enumerate(dom):
            pulled.append(i)
            yield o
    try:
        with symbolic_mode():
            x = let(type_=O.Item, domain=source())
            if spelling == 'cond':
                q = an(entity(x, O.build(cond, [x])))
            elif spelling == 'entity':
                q = an(entity(x))
            elif spelling == 'an_var':
                q = an(x)
            else:
                from entity_query_language import set_of
                q = an(set_of([x]))
        unwrap = (lambda r: r[x]) if spelling == 'set_of' else (lambda r: r)
        it = q.evaluate()
        if pulled:
            return {'what': 'evaluate() pulled from the domain before the first result was requested', 'pulled': list(pulled)}
        qualifying = [i for i, o in enumerate(dom) if O.holds(cond, {0: o})]
        k_stop = rng.randrange(0, len(qualifying) + 1)
        for k in range(k_stop):
            r = unwrap(next(it))
            if r is not dom[qualifying[k]]:
                return {'what': 'wrong k-th result', 'k': k, 'condition': repr(cond)}
            if pulled != list(range(qualifying[k] + 1)):
                return {'what': 'k-th result delivered after pulling something else than the prefix ending at the k-th '
                                'qualifying element', 'k': k, 'pulled': list(pulled), 'qualifying': qualifying,
                        'condition': repr(cond), 'domain': repr(dom)}
        it.close()
        for _ in range(rng.randrange(1, 3)):
            got = [unwrap(r) for r in q.evaluate()]
            want = [dom[i] for i in qualifying]
            if not O.same_list_by_identity(got, want):
                return {'what': 'later full evaluation differs', 'got': repr(got), 'want': repr(want), 'condition': repr(cond),
                        'signature_kind': 'result-after-partial-evaluation'}
        if sorted(pulled) != sorted(set(pulled)) or len(pulled) > len(dom):
            return {'what': 'an element of the iterator was pulled twice', 'pulled': list(pulled)}
    except Exception as e:  # noqa
        return {'exception': repr(e), 'trace': traceback.format_exc(limit=4)}
    finally:
        O.enable_caching()
    return None


def run_forall_case(p):
    """C10: for_all(u, c) yields exactly the bindings of the other variables for which c holds for every value of u"""
    from entity_query_language import symbolic_mode, let, an, entity, set_of, for_all, and_
    O.reset_registry()
    (O.enable_caching if p.get('caching', True) else O.disable_caching)()
    rng = random.Random(p['seed'])
    du = O.make_domain(rng, rng.choice([1, 2, 3]))
    dx = O.make_domain(rng, 3)
    shape = rng.choice(['both', 'only_x', 'only_u', 'both'])
    if shape == 'both':
        c = ('cmp', rng.choice(['le', 'ge', 'ne', 'lt']), ('attr', 0, 'size'), ('attr', 1, 'size'))
        if rng.random() < 0.4:
            c = ('or', c, ('cmp', 'eq', ('attr', 0, 'name'), ('lit', rng.choice('abc'))))
    elif shape == 'only_x':
        c = O.gen_cond(rng, 1, 1, vocab=('cmp', 'name'), neg=False)
    else:
        c = ('cmp', rng.choice(['ge', 'le']), ('attr', 1, 'size'), ('lit', rng.choice([1, 2])))
    extra = O.gen_cond(rng, 1, 1, vocab=('cmp', 'name'), neg=False) if rng.random() < 0.4 else None
    if p.get('two_free'):
        # two free variables x, y over the SAME domain, both constrained against the universal variable u (index 2)
        # ... joined by `and`, or by `or` (each operand then binds only ONE of the free variables: a result of the condition
        # that leaves the other unbound holds for every value of it)
        c2 = (rng.choice(['and', 'or', 'or']), ('cmp', rng.choice(['gt', 'ge', 'ne']), ('attr', 0, 'size'), ('attr', 2, 'size')),
              ('cmp', rng.choice(['lt', 'le', 'ne']), ('index', 1, 'k'), ('attr', 2, 'size')))
        if rng.random() < 0.3:
            c2 = ('or', c2, ('cmp', 'eq', ('attr', 0, 'name'), ('attr', 1, 'name')))
        try:
            with symbolic_mode():
                x = let(type_=O.Item, domain=dx)
                y = let(type_=O.Item, domain=dx)
                u = let(type_=O.Item, domain=du)
                q = an(set_of([x, y], for_all(u, O.build(c2, [x, y, u]))))
            got = sorted((dx.index(r[x]), dx.index(r[y])) for r in q.evaluate())
            want = sorted((i, j) for i, a in enumerate(dx) for j, b in enumerate(dx) if all(O.holds(c2, {0: a, 1: b, 2: w}) for w in du))
        except Exception as e:  # noqa
            return {'shape': 'two_free', 'exception': repr(e), 'trace': traceback.format_exc(limit=4), 'signature_kind': 'two_free'}
        finally:
            O.enable_caching()
        if got != want:
            return {'shape': 'two_free', 'condition': repr(c2), 'universal_domain': repr(du), 'domain': repr(dx), 'got': got, 'want': want,
                    'signature_kind': 'two_free'}
        return None
    if p.get('combined'):
        # (a) two for_all over the SAME universal variable in one conjunction; (b) a for_all followed by a condition in which
        # the same variable is an ordinary (existential) variable; (c) the universal is an EXPRESSION (an attribute of a
        # variable) whose values include falsy ones
        kind = rng.choice(['two_foralls', 'then_existential', 'expression', 'expression', 'flatten_free', 'flatten_free', 'unselected_free', 'unselected_free'])
        du = O.make_domain(rng, rng.choice([1, 2, 3]), falsy=(kind == 'expression'))
        c1 = ('cmp', rng.choice(['le', 'ge', 'ne', 'lt', 'gt']), ('attr', 0, 'size'), ('attr', 1, 'size'))
        c2 = ('cmp', rng.choice(['le', 'ge', 'ne', 'lt', 'gt']), ('index', 0, 'k'), ('attr', 1, 'size'))
        dy = O.make_domain(random.Random(p['seed'] * 13 + 3), 4)      # (made outside the block: inside it Item(...) is symbolic)
        try:
            with symbolic_mode():
                x = let(type_=O.Item, domain=dx)
                u = let(type_=O.Item, domain=du)
                if kind == 'two_foralls':
                    conds = [for_all(u, O.build(c1, [x, u])), for_all(u, O.build(c2, [x, u]))]
                    ref = lambda a: all(O.holds(c1, {0: a, 1: b}) for b in du) and all(O.holds(c2, {0: a, 1: b}) for b in du)  # noqa
                elif kind == 'then_existential':
                    conds = [for_all(u, O.build(c1, [x, u])), O.build(c2, [x, u])]
                    ref = lambda a: all(O.holds(c1, {0: a, 1: b}) for b in du) and any(O.holds(c2, {0: a, 1: b}) for b in du)  # noqa
                elif kind == 'unselected_free':
                    # the condition of the for_all is about a variable y that is NOT selected (it is joined to the selected x):
                    # x comes out iff SOME y joined to it satisfies the condition for every u - also when that condition is a
                    # disjunction (results that differ only in y are not duplicates of each other)
                    from entity_query_language import or_
                    y = let(type_=O.Item, domain=dy)
                    opa, opb = rng.choice(['gt', 'ge', 'ne']), rng.choice(['gt', 'lt', 'eq'])
                    inner = or_(O.OPS[opa](y.size, u.size), O.OPS[opb](y.props['k'], u.size)) if rng.random() < 0.7 \
                        else O.OPS[opa](y.size, u.size)
                    disj = inner is not None and rng.random() >= 0     # (kept for the description of a failure)
                    is_or = hasattr(inner, 'left') and type(inner).__name__ in ('ElseIf', 'Union')
                    conds = [y.name == x.name, for_all(u, inner)]
                    ref = lambda a: any(b.name == a.name and all((O.OPS[opa](b.size, w.size) or (is_or and O.OPS[opb](b.props['k'], w.size)))  # noqa
                                                                    for w in du) for b in dy)
                elif kind == 'flatten_free':
                    # the free part of the condition is a FLATTENED element of x: one and the same element has to satisfy the
                    # condition for every u (an x comes out once per such element, compared as a set of x)
                    from entity_query_language import flatten
                    pe = flatten(x.tags)
                    op2 = rng.choice(['le', 'ge', 'ne', 'lt'])
                    conds = [for_all(u, O.OPS[op2](pe, u.size))]
                    ref = lambda a: any(all(O.OPS[op2](e, b.size) for b in du) for e in a.tags)  # noqa
                else:
                    op = c1[1]
                    conds = [for_all(u.size, O.OPS[op](x.size, u.size))] + ([O.build(extra, [x])] if extra is not None else [])
                    ref = lambda a: all(O.OPS[op](a.size, b.size) for b in du) and (extra is None or O.holds(extra, {0: a}))  # noqa
                q = an(entity(x, and_(*conds))) if (len(conds) > 1 and rng.random() < 0.5) else an(entity(x, *conds))
            outs = [sorted(set(dx.index(r) for r in q.evaluate())) for _ in range(2)]
            want = [i for i, a in enumerate(dx) if ref(a)]
        except Exception as e:  # noqa
            return {'shape': kind, 'exception': repr(e), 'trace': traceback.format_exc(limit=4), 'signature_kind': kind + ':exception'}
        finally:
            O.enable_caching()
        if outs != [want, want]:
            return {'shape': kind, 'c1': repr(c1), 'c2': repr(c2), 'extra': repr(extra), 'universal_domain': repr(du), 'domain': repr(dx),
                    'got': outs, 'want': want, 'signature_kind': kind}
        return None
    try:
        with symbolic_mode():
            x = let(type_=O.Item, domain=dx)
            u = let(type_=O.Item, domain=du)
            fa = for_all(u, O.build(c, [x, u]))
            cond = and_(fa, O.build(extra, [x])) if extra is not None else fa
            q = an(entity(x, cond))
        got = list(q.evaluate())
        want = [a for a in dx if all(O.holds(c, {0: a, 1: b}) for b in du) and (extra is None or O.holds(extra, {0: a}))]
    except Exception as e:  # noqa
        O.enable_caching()
        return {'shape': shape, 'exception': repr(e), 'trace': traceback.format_exc(limit=4), 'signature_kind': shape}
    finally:
        O.enable_caching()
    if not O.same_list_by_identity(got, want):
        return {'shape': shape, 'condition': repr(c), 'extra': repr(extra), 'universal_domain': repr(du), 'domain': repr(dx),
                'got': repr(got), 'want': repr(want), 'signature_kind': shape}
    return None


def run_concat_case(p):
    """C17: concatenate(e) is one value: all inner elements in order with multiplicity; membership and its negation"""
    from entity_query_language import symbolic_mode, let, an, entity, concatenate, in_, not_, contains, flatten
    O.reset_registry()
    rng = random.Random(p['seed'])
    if p.get('nested'):
        # e = flatten(x.groups) ranges over collections: concatenate(e) lists the members of every group, in order
        dom = O.make_domain(rng, 3)
        for o in dom:
            o.tags = [[rng.choice([1, 2, 3]) for _ in range(rng.randint(0, 2))] if rng.random() < 0.8 else rng.choice([4, 5])
                      for _ in range(rng.randint(0, 3))]
        want0 = [m for o in dom for g in o.tags for m in (g if isinstance(g, list) else [g])]
        try:
            with symbolic_mode():
                x = let(type_=O.Item, domain=dom)
                q0 = an(entity(concatenate(flatten(x.tags))))
            vals = list(q0.evaluate())
        except Exception as e:  # noqa
            return {'exception': repr(e), 'trace': traceback.format_exc(limit=4), 'signature_kind': 'nested-exception'}
        if len(vals) != 1 or list(vals[0]) != want0:
            return {'what': 'concatenate(flatten(...)) value', 'groups': repr([o.tags for o in dom]), 'got': repr(vals), 'want': repr([want0]),
                    'signature_kind': 'nested-value'}
        return None
    if p.get('combined'):
        # the membership test against a concatenate as ONE condition among others (and_ / or_, either operand order, under
        # not_), and two different concatenates over the same parent variable in one query
        from entity_query_language import and_, or_
        dom = O.make_domain(rng, 3)
        for o in dom:
            o.props['more'] = [rng.choice([1, 2, 3, 4]) for _ in range(rng.randint(0, 2))]
        probe = [O.Item('p', i) for i in range(5)]
        all1 = [t for o in dom for t in o.tags]
        all2 = [t for o in dom for t in o.props['more']]
        other = ('cmp', rng.choice(['ge', 'le', 'eq', 'ne']), ('attr', 0, 'size'), ('lit', rng.choice([1, 2, 3])))
        shape = rng.choice(['or_first', 'or_second', 'and_first', 'and_second', 'two', 'two_or', 'not_or', 'selected', 'not_not', 'not_or_not', 'not_and_not'])
        try:
            with symbolic_mode():
                x = let(type_=O.Item, domain=dom)
                y = let(type_=O.Item, domain=probe)
                cc = concatenate(x.tags)
                m1 = in_(y.size, cc) if rng.random() < 0.5 else contains(cc, y.size)
                oc = O.build(other, [y])
                if shape == 'selected':
                    # the concatenation itself is a selected expression of a set_of, next to the probing variable
                    from entity_query_language import set_of
                    qs = an(set_of((y, cc), m1))
                if shape == 'selected':
                    cond, ref = m1, lambda o: o.size in all1
                elif shape == 'or_first':
                    cond, ref = or_(m1, oc), lambda o: (o.size in all1) or O.holds(other, {0: o})
                elif shape == 'or_second':
                    cond, ref = or_(oc, m1), lambda o: O.holds(other, {0: o}) or (o.size in all1)
                elif shape == 'and_first':
                    cond, ref = and_(m1, oc), lambda o: (o.size in all1) and O.holds(other, {0: o})
                elif shape == 'and_second':
                    cond, ref = and_(oc, m1), lambda o: O.holds(other, {0: o}) and (o.size in all1)
                elif shape == 'not_or':
                    cond, ref = not_(or_(oc, m1)), lambda o: not (O.holds(other, {0: o}) or (o.size in all1))
                elif shape == 'not_not':
                    cond, ref = not_(not_(m1)), lambda o: o.size in all1
                elif shape == 'not_or_not':
                    cond, ref = not_(or_(oc, not_(m1))), lambda o: (not O.holds(other, {0: o})) and (o.size in all1)
                elif shape == 'not_and_not':
                    cond, ref = not_(and_(oc, not_(m1))), lambda o: (not O.holds(other, {0: o})) or (o.size in all1)
                else:
                    m2 = in_(y.size, concatenate(x.props['more']))
                    if shape == 'two':
                        cond, ref = and_(m1, not_(m2)), lambda o: (o.size in all1) and (o.size not in all2)
                    else:
                        cond, ref = or_(m2, m1), lambda o: (o.size in all2) or (o.size in all1)
                q = an(entity(y, cond)) if shape != 'selected' else None
            if shape == 'selected':
                rows = list(qs.evaluate())
                if any(list(r[cc]) != all1 for r in rows):
                    return {'shape': shape, 'what': 'selected concatenation is not the combined list', 'all': all1,
                            'got': repr([list(r[cc]) for r in rows]), 'signature_kind': 'selected:value'}
                outs = [[r[y] for r in rows], [r[y] for r in qs.evaluate()]]
            else:
                outs = [list(q.evaluate()) for _ in range(2)]
            want = [o for o in probe if ref(o)]
        except Exception as e:  # noqa
            return {'shape': shape, 'exception': repr(e), 'trace': traceback.format_exc(limit=4), 'signature_kind': shape + ':exception'}
        if not all(O.same_list_by_identity(sorted(g, key=id), sorted(want, key=id)) for g in outs):
            return {'shape': shape, 'other': repr(other), 'all': all1, 'all2': all2, 'got': repr(outs), 'want': repr(want),
                    'signature_kind': shape}
        return None
    if p.get('scalars'):
        # the concatenated expression is a scalar attribute: every value, falsy ones included, is one element
        dom = O.make_domain(rng, 4, falsy=True)
        for o in dom:
            if rng.random() < 0.3:
                o.name = None
        attr = rng.choice(['size', 'name', 'flag'])
        try:
            with symbolic_mode():
                x = let(type_=O.Item, domain=dom)
                q0 = an(entity(concatenate(getattr(x, attr))))
            vals = list(q0.evaluate())
        except Exception as e:  # noqa
            return {'exception': repr(e), 'trace': traceback.format_exc(limit=4), 'signature_kind': 'scalars:exception'}
        want0 = [getattr(o, attr) for o in dom]
        if len(vals) != 1 or [repr(v) for v in vals[0]] != [repr(v) for v in want0]:
            return {'what': 'concatenate over scalar values', 'attr': attr, 'got': repr(vals), 'want': repr([want0]), 'signature_kind': 'scalars:value'}
        return None
    dom = O.make_domain(rng, 3, falsy=p.get('falsy', False))
    if rng.random() < 0.3:
        dom[0].tags = []
    if rng.random() < 0.12:
        for o in dom:
            o.tags = []          # nothing to concatenate at all: the value is the empty list
    if rng.random() < 0.06:
        dom = []                 # not even a parent
    probe = [O.Item('p', i) for i in range(4)]
    neg = rng.random() < 0.5
    try:
        with symbolic_mode():
            x = let(type_=O.Item, domain=dom)
            allt = concatenate(x.tags)
            q0 = an(entity(allt))
        vals = list(q0.evaluate())
        want0 = [t for o in dom for t in o.tags]
        if len(vals) != 1 or list(vals[0]) != want0:
            return {'what': 'concatenate value', 'got': repr(vals), 'want': repr([want0]), 'signature_kind': 'value'}
        vals2 = list(q0.evaluate())           # the same value on every evaluation, and the first value is left alone
        if len(vals2) != 1 or list(vals2[0]) != want0 or list(vals[0]) != want0:
            return {'what': 'concatenate value on re-evaluation', 'got': repr([vals, vals2]), 'want': repr([want0]), 'signature_kind': 'value-again'}
        with symbolic_mode():
            x = let(type_=O.Item, domain=dom)
            y = let(type_=O.Item, domain=probe)
            allt = concatenate(x.tags)
            m = in_(y.size, allt) if rng.random() < 0.5 else contains(allt, y.size)
            q = an(entity(y, not_(m) if neg else m))
        got = list(q.evaluate())
        want = [o for o in probe if (o.size in want0) != neg]
    except Exception as e:  # noqa
        return {'exception': repr(e), 'trace': traceback.format_exc(limit=4), 'signature_kind': 'exception'}
    if not O.same_list_by_identity(got, want):
        return {'what': 'membership', 'negated': neg, 'all': want0, 'got': repr(got), 'want': repr(want),
                'signature_kind': 'membership' + ('-negated' if neg else '')}
    return None


def run_chain3_case(p):
    """C18: chains of three conditions over two variables: every association and order of or_ / and_ (and mixed nestings)
    gives the reference result set; conditions are literal-free by default so that the operators' result caches are hit"""
    from entity_query_language import symbolic_mode, let, an, set_of, and_, or_
    import itertools
    rng = random.Random(p['seed'])
    seeds = [rng.randrange(10 ** 6) for _ in range(3)]
    conds = [O.gen_cond(random.Random(z), 2, 1, vocab=('cmp', 'name'), neg=False) for z in seeds]
    op = rng.choice(['or', 'and', 'mixed'])
    r0 = random.Random(p['seed'] + 5)
    protos = [O.make_domain(r0, 3), O.make_domain(r0, 3)]

    def sem(a, b):
        va = [O.holds(c, {0: a, 1: b}) for c in conds]
        if op == 'or':
            return any(va)
        if op == 'and':
            return all(va)
        return (va[0] and va[1]) or va[2]
    want = sorted((i, j) for i, a in enumerate(protos[0]) for j, b in enumerate(protos[1]) if sem(a, b))
    spellings = []
    if op in ('or', 'and'):
        f = or_ if op == 'or' else and_
        for perm in itertools.permutations(range(3)):
            spellings.append(('flat%s' % (perm,), lambda cs, perm=perm: f(*[cs[i] for i in perm])))
            spellings.append(('left%s' % (perm,), lambda cs, perm=perm: f(f(cs[perm[0]], cs[perm[1]]), cs[perm[2]])))
            spellings.append(('right%s' % (perm,), lambda cs, perm=perm: f(cs[perm[0]], f(cs[perm[1]], cs[perm[2]]))))
    else:
        spellings = [('(a&b)|c', lambda cs: or_(and_(cs[0], cs[1]), cs[2])), ('c|(a&b)', lambda cs: or_(cs[2], and_(cs[0], cs[1]))),
                     ('(b&a)|c', lambda cs: or_(and_(cs[1], cs[0]), cs[2])), ('c|(b&a)', lambda cs: or_(cs[2], and_(cs[1], cs[0])))]
    rng.shuffle(spellings)
    for name, mk in spellings[:p.get('spellings', 6)]:
        O.reset_registry()
        r1 = random.Random(p['seed'] + 5)
        d0, d1 = O.make_domain(r1, 3), O.make_domain(r1, 3)
        try:
            with symbolic_mode():
                x = let(type_=O.Item, domain=d0)
                y = let(type_=O.Item, domain=d1)
                q = an(set_of([x, y], mk([O.build(c, [x, y]) for c in conds])))
            for _ in range(2):
                got = sorted((d0.index(r[x]), d1.index(r[y])) for r in q.evaluate())
                if got != want:
                    return {'operator': op, 'spelling': name, 'conditions': repr(conds), 'got': got, 'want': want, 'signature_kind': op}
        except Exception as e:  # noqa
            return {'operator': op, 'spelling': name, 'exception': repr(e), 'trace': traceback.format_exc(limit=4), 'signature_kind': op + ':exception'}
    return None


def run_rewrite_case(p):
    """C18: meaning-preserving rewrites leave the result set unchanged"""
    from entity_query_language import symbolic_mode, let, an, entity, set_of, and_, or_, contains, in_
    rng = random.Random(p['seed'])
    which = rng.choice(['swap_and', 'swap_or', 'assoc', 'entity_args', 'mirror', 'contains_in', 'decl_order', 'permute', 'mirror_neg',
                        'mirror_neg'])
    m_op = rng.choice(['lt', 'gt', 'le', 'ge'])
    m_mirror = {'lt': 'gt', 'gt': 'lt', 'le': 'ge', 'ge': 'le'}[m_op]
    m_shape = rng.choice(['not', 'not_and', 'not_or'])

    def results(variant):
        O.reset_registry()
        r = random.Random(p['seed'] + 1)
        d0, d1 = O.make_domain(r, 3), O.make_domain(r, 3)
        a = O.gen_cond(r, 2, 1, vocab=('cmp', 'name'), neg=False)
        b = O.gen_cond(r, 2, 1, vocab=('cmp', 'name', 'contains'), neg=False)
        c = O.gen_cond(r, 2, 1, vocab=('cmp',), neg=False)
        lit = r.choice([1, 2, 3])
        if which == 'permute' and variant:
            d0 = list(reversed(d0))
        with symbolic_mode():
            if which == 'decl_order' and variant:
                y = let(type_=O.Item, domain=d1)
                x = let(type_=O.Item, domain=d0)
            else:
                x = let(type_=O.Item, domain=d0)
                y = let(type_=O.Item, domain=d1)
            xs = [x, y]
            A, B, Cc = (lambda: O.build(a, xs)), (lambda: O.build(b, xs)), (lambda: O.build(c, xs))
            if which == 'swap_and':
                cond = and_(B(), A()) if variant else and_(A(), B())
            elif which == 'swap_or':
                cond = or_(B(), A()) if variant else or_(A(), B())
            elif which == 'assoc':
                cond = (A() & (B() & Cc())) if variant else and_(A(), B(), Cc())
            elif which == 'entity_args':
                cond = None
            elif which == 'mirror':
                cond = (lit < x.size) if variant else (x.size > lit)
                cond = and_(cond, A())
            elif which == 'mirror_neg':
                # a mirrored comparison under a negation (also a negated conjunction / disjunction that contains it)
                from entity_query_language import not_
                leaf = O.OPS[m_mirror](y.size, x.size) if variant else O.OPS[m_op](x.size, y.size)
                cond = not_(leaf) if m_shape == 'not' else (not_(and_(leaf, A())) if m_shape == 'not_and' else not_(or_(leaf, A())))
            elif which == 'contains_in':
                cond = contains(x.tags, y.size) if variant else in_(y.size, x.tags)
            else:
                cond = and_(A(), B())
            sel = [y, x] if (which == 'decl_order' and variant) else [x, y]
            if which == 'entity_args':
                q = an(set_of(sel, A(), B(), Cc())) if variant else an(set_of(sel, and_(A(), and_(B(), Cc()))))
            else:
                q = an(set_of(sel, cond))
        rows = list(q.evaluate())
        key0 = {id(o): i for i, o in enumerate(d0 if not (which == 'permute' and variant) else list(reversed(d0)))}
        key1 = {id(o): i for i, o in enumerate(d1)}
        return sorted((key0[id(r_[x])], key1[id(r_[y])]) for r_ in rows)
    try:
        r0, r1 = results(False), results(True)
    except Exception as e:  # noqa
        return {'rewrite': which, 'exception': repr(e), 'trace': traceback.format_exc(limit=4), 'signature_kind': which}
    if set(r0) != set(r1):
        return {'rewrite': which, 'rows_original': len(r0), 'rows_rewritten': len(r1), 'only_original': sorted(set(r0) - set(r1))[:4],
                'only_rewritten': sorted(set(r1) - set(r0))[:4], 'signature_kind': which}
    return None


def run_registry_case(p):
    """C14: a variable without a domain ranges over exactly the live registry (instances of the type and its subclasses
    constructed outside symbolic mode so far), each once, whatever the history.  Histories interleave concrete
    construction (positional / keyword / defaults, decorated and undecorated subclasses four levels deep, a hand-written
    __init__), symbolic construction, rule inference, clearing, queries evaluated at once and queries declared earlier and
    evaluated later (the registry is read when the query is first evaluated)."""
    from entity_query_language import symbolic_mode, rule_mode, let, an, entity, infer
    from entity_query_language.symbolic import Variable
    O.reset_registry()
    rng = random.Random(p['seed'])
    classes = [O.PBase, O.PSub, O.PSubSub, O.PHand, O.POther, O.PDef, O.PDefSub, O.PAbc, O.PAbcSub]
    live = {K: [] for K in classes + [O.Built, O.PDefHand]}
    log = []
    pending = []      # queries declared but not evaluated yet

    def expect(T):
        return [o for K, objs in live.items() if issubclass(K, T) for o in objs]

    def compare(T, got, what):
        want = expect(T)
        if sorted(map(id, got)) != sorted(map(id, want)):
            return {'history': list(log), 'type': T.__name__, 'what': what, 'got': [(type(o).__name__, getattr(o, 'name', '')) for o in got],
                    'want': [(type(o).__name__, getattr(o, 'name', '')) for o in want],
                    'signature_kind': 'multiplicity' if set(map(id, got)) == set(map(id, want)) else 'membership'}
        return None
    ops = ['new_pos', 'new_kw', 'new_default', 'new_noargs', 'symbolic', 'query', 'query', 'declare', 'eval_declared', 'infer']
    if p.get('clear', True):
        ops.append('clear')
    try:
        for step in range(p.get('steps', 10)):
            op = rng.choice(ops)
            K = rng.choice(classes)
            log.append((op, K.__name__))
            if op == 'new_pos':
                live[K].append(K('n%d' % step, step))
            elif op == 'new_kw':
                live[K].append(K(name='k%d' % step, size=step))
            elif op == 'new_default':
                live[K].append(K('d%d' % step))
            elif op == 'new_noargs':
                # constructed from defaults alone (no positional, no keyword argument): registered like any other
                K0 = rng.choice([O.PDef, O.PDefSub, O.PDefHand])
                log[-1] = (op, K0.__name__)
                live[K0].append(K0())
            elif op == 'symbolic':
                with (symbolic_mode() if rng.random() < 0.5 else rule_mode()):
                    v = K(name='sym') if K is not O.PHand else K('sym')
                if isinstance(v, K):
                    return {'history': list(log), 'what': 'symbolic construction returned a real instance', 'signature_kind': 'symbolic'}
            elif op == 'clear':
                if pending:
                    continue          # a declared query may have captured registry stores: keep those histories simple
                for c in Variable._cache_.values():
                    c.clear()
                Variable._cache_.clear()
                for k in live:
                    live[k] = []
            elif op == 'infer':
                # rule inference constructs instances while evaluating: they are ordinary constructions
                src = expect(O.PBase)[:2]
                if not src:
                    continue
                with rule_mode():
                    x = let(type_=O.PBase, domain=src)
                    q = infer(entity(O.Built(a=x, tag='inferred'), x.size >= 0))
                built = list(q.evaluate())
                live[O.Built].extend(built)
                if len(built) != len(src):
                    return {'history': list(log), 'what': 'inference built %d instances for %d bindings' % (len(built), len(src)),
                            'signature_kind': 'infer'}
            elif op == 'declare':
                T = rng.choice([O.PBase, O.PSub, O.PSubSub, O.Built, O.PDef, O.PDefSub, O.PAbc])
                with symbolic_mode():
                    x = let(type_=T)
                    pending.append((T, an(entity(x))))
            elif op == 'eval_declared':
                if not pending:
                    continue
                T, q = pending.pop(0)
                d = compare(T, list(q.evaluate()), 'declared earlier, evaluated now')
                if d:
                    return d
            else:
                T = rng.choice([O.PBase, O.PSub, O.PSubSub, O.Built, O.PDef, O.PDefSub, O.PDefHand, O.PAbc, O.PAbcSub])
                with symbolic_mode():
                    x = let(type_=T)
                    q = an(entity(x))
                d = compare(T, list(q.evaluate()), 'declared and evaluated at once')
                if d:
                    return d
    except Exception as e:  # noqa
        return {'history': list(log), 'exception': repr(e), 'trace': traceback.format_exc(limit=4), 'signature_kind': 'exception'}
    return None


CONST_POOL = ['t', None, 0, '', (1, 2), [], [3, 4], False]


def run_infer_case(p):
    """C11: infer(entity(T(f1=e1, f2=e2, ...), conditions)) builds one new instance per satisfying assignment, from that
    assignment: variables, attribute expressions, constants (falsy, None, iterable) and nested constructors as arguments;
    bodies with disjunction / negation; zero-solution bodies; a class whose instances are falsy"""
    from entity_query_language import symbolic_mode, rule_mode, let, an, entity, infer, and_
    O.reset_registry()
    rng = random.Random(p['seed'])
    d0, d1 = O.make_domain(rng, 3, falsy=p.get('falsy', True)), O.make_domain(rng, 3, falsy=p.get('falsy', True))
    cond = O.gen_cond(rng, 2, p.get('depth', 2), vocab=('cmp', 'name'), neg=p.get('neg', True))
    if len(O.vars_of(cond)) < 2:
        cond = ('and', cond, ('cmp', rng.choice(['le', 'ne', 'gt']), ('attr', 0, 'size'), ('attr', 1, 'size')))
    # the head mentions every variable of the rule (the property's precondition): a = x, b = y or an attribute of y, and a
    # constant in the third field.  Nested constructor arguments are not generated: whether a nested T2(...) in a head is
    # constructed or matched against existing instances is not settled by the property (see DESIGN.md, observations).
    b_kind = rng.choice(['var', 'attr', 'attr', 'lookup', 'shared', 'lookup_cond'])
    a_kind = 'var'
    inner_op = rng.choice(['le', 'gt', 'ne', 'eq'])
    if b_kind == 'shared':
        # a rule variable y that the body does not bind appears in TWO head arguments: both are evaluated under the same
        # assignment of y (fields of different assignments are never mixed)
        cond = O.gen_cond(rng, 1, p.get('depth', 2), vocab=('cmp', 'name'), neg=p.get('neg', True))
    if b_kind in ('lookup', 'lookup_cond'):
        # (lookup_cond: the nested sub-query has a condition of its own, correlated with x - only its solutions are values)
        # the second head argument is a nested quantified expression the body does not bind (it ranges over its own
        # domain d1): one instance per satisfying binding of x and per value of the nested expression
        cond = O.gen_cond(rng, 1, p.get('depth', 2), vocab=('cmp', 'name'), neg=p.get('neg', True))
    const = rng.choice(CONST_POOL)
    tag = rng.choice(CONST_POOL)
    T = rng.choice([O.Built, O.BuiltB, O.BuiltEmpty, O.BuiltEq])
    try:
        with rule_mode():
            x = let(type_=O.Item, domain=d0)
            y = let(type_=O.Item, domain=d1)
            a_arg = x if a_kind == 'var' else O.BuiltC(a=x, tag='inner')
            b_arg = y if b_kind == 'var' else (y.name if b_kind == 'attr' else (an(entity(y)) if b_kind == 'lookup' else const))
            if b_kind == 'lookup_cond':
                b_arg = an(entity(y, O.OPS[inner_op](y.size, x.size)))
            if b_kind == 'shared':
                b_arg, tag_arg = y.name, y.size
            else:
                tag_arg = tag
            head = T(a=a_arg, b=b_arg, tag=tag_arg)
            q = infer(entity(head, O.build(cond, [x, y] if b_kind not in ('lookup', 'shared', 'lookup_cond') else [x])))
        got = list(q.evaluate())
        if b_kind == 'lookup_cond':
            sat = [(a, b) for a in d0 if O.holds(cond, {0: a}) for b in d1 if O.OPS[inner_op](b.size, a.size)]
        elif b_kind in ('lookup', 'shared'):
            sat = [(a, b) for a in d0 if O.holds(cond, {0: a}) for b in d1]
        else:
            sat = [(a, b) for a in d0 for b in d1 if O.holds(cond, {0: a, 1: b})]
    except Exception as e:  # noqa
        return {'exception': repr(e), 'trace': traceback.format_exc(limit=5), 'signature_kind': 'exception',
                'head': (a_kind, b_kind, repr(const), repr(tag), T.__name__), 'condition': repr(cond)}
    info = {'head': (a_kind, b_kind, repr(const), repr(tag), T.__name__), 'condition': repr(cond)}
    bad = [g for g in got if type(g) is not T]
    if bad:
        return dict(info, what='not instances of the head class', got=repr(bad[:2]), signature_kind='type')

    def key_a(g):
        if a_kind == 'var':
            return ('obj', id(g.a))
        return ('nested', type(g.a).__name__, id(getattr(g.a, 'a', None)), getattr(g.a, 'tag', None))

    def key_b(v):
        return ('id', id(v)) if b_kind in ('var', 'const', 'lookup', 'lookup_cond') else ('val', v)
    tag_key = (lambda t: ('val', t)) if b_kind == 'shared' else (lambda t: id(t))
    gk = sorted((key_a(g), key_b(g.b), tag_key(g.tag)) for g in got)
    wk = sorted(((('obj', id(a)) if a_kind == 'var' else ('nested', 'BuiltC', id(a), 'inner')),
                 key_b(b if b_kind in ('var', 'lookup', 'lookup_cond') else (b.name if b_kind in ('attr', 'shared') else const)),
                 tag_key(b.size if b_kind == 'shared' else tag)) for a, b in sat)
    if gk != wk:
        return dict(info, built=len(got), want=len(sat), signature_kind='instances',
                    sample=repr([(getattr(g.a, 'name', g.a), g.b, g.tag) for g in got[:3]]))
    if len(set(map(id, got))) != len(got):
        return dict(info, what='the same instance returned twice', signature_kind='identity')
    if a_kind == 'nested' and len({id(g.a) for g in got}) != len(got):
        return dict(info, what='a nested instance is shared between two results', signature_kind='nested-identity')
    # evaluating the rule again builds NEW instances, again one per satisfying assignment
    try:
        again = list(q.evaluate())
    except Exception as e:  # noqa
        return dict(info, exception=repr(e), trace=traceback.format_exc(limit=5), signature_kind='exception-on-re-evaluation')
    if len(again) != len(got) or {id(g) for g in again} & {id(g) for g in got}:
        return dict(info, what='re-evaluation did not build one new instance per satisfying assignment',
                    first=len(got), second=len(again), reused=len({id(g) for g in again} & {id(g) for g in got}),
                    signature_kind='re-evaluation')
    return None


def gen_rule_tree(rng, budget, depth, nvars=1):
    """random rule: {'cond', 'tag', 'body': [(kind, rule)...]} - the body lists, in order, the `with refinement(..)` /
    `with alternative(..)` blocks opened inside the rule's own block"""
    counter = [0]

    def mk(d):
        counter[0] += 1
        if nvars > 1 and counter[0] == 1:
            # the base rule relates the variables; branch conditions look at either of them
            c = ('cmp', rng.choice(['le', 'ge', 'ne', 'eq']), ('attr', 0, 'size'), ('attr', 1, 'size'))
        elif nvars > 1:
            v = rng.randrange(nvars)
            c = rng.choice([('cmp', rng.choice(['lt', 'ge', 'ne']), ('attr', v, 'size'), ('lit', rng.choice([1, 2, 3]))),
                            ('cmp', rng.choice(['eq', 'ne']), ('attr', v, 'name'), ('lit', rng.choice('abc'))),
                            # without a literal (a literal's id is part of the operators' cache keys, so conditions with
                            # literals never hit the result caches)
                            ('cmp', rng.choice(['le', 'gt', 'eq']), ('attr', v, 'size'), ('index', v, 'k')),
                            ('truth', ('attr', v, 'flag'))])
        else:
            c = O.gen_cond(rng, 1, 1, vocab=('cmp', 'name'), neg=False)
        r = {'cond': c, 'tag': 'T%d' % counter[0], 'body': []}
        if d > 0:
            for _ in range(rng.choice([0, 1, 1, 2, 3])):
                if counter[0] >= budget:
                    break
                r['body'].append((rng.choice(['ref', 'alt']), mk(d - 1)))
        return r
    return mk(depth)


def rule_shape(r):
    return 'R(' + ','.join(k + ':' + rule_shape(s)[2:-1] for k, s in r['body']) + ')'


def applicable_path(tree, tag, e):
    """the rule `tag` is applicable to the assignment e as far as its own place in the tree says: its condition and the
    conditions of the rules it refines hold, the conditions of the rules it is an alternative to do not (whether a rule
    further out replaces its conclusion is not looked at)"""
    def walk(r, ctx):
        h = O.holds(r['cond'], e)
        if r['tag'] == tag:
            return ctx and h
        for k, sub in r['body']:
            t = walk(sub, ctx and (h if k == 'ref' else not h))
            if t is not None:
                return t
        return None
    return bool(walk(tree, True))


def overridden_selection_pattern(tree, missing, assignments, final, nvars):
    """the shape the recorded finding KF-C12-selector-remembers-an-overridden-conclusion needs, for one missing result
    (i, j, tag): the conclusion of `tag` does not mention every variable, and there is an assignment that agrees with the
    missing result on the variables it does mention for which `tag` was applicable at its own place in the tree but a
    refinement further out replaced it (the selector below remembered the binding as concluded all the same)"""
    i, j, tag = missing
    if i is not None and (j is not None or nvars == 1):
        return False
    for (a, b) in assignments:
        if (i is None or a == i) and (j is None or b == j):
            if final[(a, b)] != tag and applicable_path(tree, tag, {0: assignments[(a, b)][0], 1: assignments[(a, b)][1]}):
                return True
    return False


def rdr_reference(rule, e):
    """ripple-down-rules reading of the tree: a rule that matches gives the conclusion of its first applicable
    refinement (recursively) in place of its own; the alternatives opened in a rule's block are tried, in order, when the
    rule does not match"""
    def group(r):
        if O.holds(r['cond'], e):
            return concl(r)
        for k, a in r['body']:
            if k == 'alt':
                t = group(a)
                if t is not None:
                    return t
        return None

    def concl(r):
        for k, f in r['body']:
            if k == 'ref':
                t = group(f)
                if t is not None:
                    return t
        return r['tag']
    return group(rule)


def run_rdrtree_case(p):
    """C12, every tree shape: random rule trees (refinements / alternatives nested under the base, under refinements and
    under alternatives, several per block) against the recursive reference reading"""
    from entity_query_language import symbolic_mode, rule_mode, let, an, entity, Add, refinement, alternative
    O.reset_registry()
    rng = random.Random(p['seed'])
    nv = p.get('nvars', 1)
    d0 = O.make_domain(rng, p.get('n', 5))
    d1 = O.make_domain(rng, p.get('n', 5)) if nv > 1 else None
    (O.enable_caching if p.get('caching', True) else O.disable_caching)()
    tree = gen_rule_tree(rng, p.get('rules', 5), p.get('depth', 2), nv)
    if nv > 1 and p.get('overridden'):
        # the shape in which a selector's selection is replaced further up: the base rule has a first refinement over one
        # variable and a second refinement (with an alternative of its own) whose conclusions mention ONE variable only, so
        # that the same binding of that variable is selected below for several rows and replaced above for some of them
        va = rng.randrange(2)

        def cnd(v):
            return rng.choice([('cmp', rng.choice(['lt', 'ge', 'ne', 'eq']), ('attr', v, 'size'), ('lit', rng.choice([1, 2, 3]))),
                               ('cmp', rng.choice(['eq', 'ne']), ('attr', v, 'name'), ('lit', rng.choice('abc')))])
        tree = {'cond': ('cmp', rng.choice(['le', 'ge', 'ne']), ('attr', 0, 'size'), ('attr', 1, 'size')), 'tag': 'T1', 'vars': (0, 1),
                'body': [('ref', {'cond': cnd(1 - va), 'tag': 'T2', 'vars': (0, 1), 'body': []}),
                         ('ref', {'cond': cnd(va), 'tag': 'T3', 'vars': (va,),
                                  'body': [('alt', {'cond': cnd(va), 'tag': 'T4', 'vars': (va,), 'body': []})]})]}
    shape = rule_shape(tree)
    if nv > 1 and p.get('subset') and not p.get('overridden'):
        # conclusions over different sets of variables: a conclusion that does not mention a variable is drawn once per
        # binding of the variables it does mention, so the results are compared as sets
        rng2 = random.Random(p['seed'] * 7 + 1)

        def pick(r):
            r['vars'] = rng2.choice([(0, 1), (0, 1), (0,), (1,)])
            for _, sub in r['body']:
                pick(sub)
        pick(tree)
        shape += ':subset'
    outsider = O.Item('outside', 99)
    # an instance of the concluded type the user made: it is in the registry and no rule concludes it
    O.Built(a=outsider, b=None, tag='user')

    def key(g):
        def ix(d, o):
            return None if o is None else (d.index(o) if o in d else 'outside')
        return (ix(d0, g.a), ix(d1, g.b), g.tag) if nv > 1 else (ix(d0, g.a), g.tag)

    def rule_of(tag, r=None):
        r = r or tree
        if r['tag'] == tag:
            return r
        for _, sub in r['body']:
            t = rule_of(tag, sub)
            if t is not None:
                return t
        return None
    try:
        x = let(type_=O.Item, domain=d0)
        xs = [x] + ([let(type_=O.Item, domain=d1)] if nv > 1 else [])
        with symbolic_mode():
            q = an(entity(v := let(type_=O.Built), O.build(tree['cond'], xs)))

        def emit(r):
            vs = r.get('vars', (0, 1))
            Add(v, O.Built(a=(xs[0] if 0 in vs else None), b=(xs[1] if nv > 1 and 1 in vs else None), tag=r['tag']))
            for k, sub in r['body']:
                with (refinement if k == 'ref' else alternative)(O.build(sub['cond'], xs)):
                    emit(sub)
        with rule_mode(q):
            emit(tree)
        if nv > 1:
            want = []
            for i, a in enumerate(d0):
                for j, b in enumerate(d1):
                    t = rdr_reference(tree, {0: a, 1: b})
                    if t is not None:
                        vs = rule_of(t).get('vars', (0, 1))
                        want.append((i if 0 in vs else None, j if 1 in vs else None, t))
        else:
            want = [(i, rdr_reference(tree, {0: o})) for i, o in enumerate(d0) if rdr_reference(tree, {0: o}) is not None]
        norm = (lambda l: sorted(set(l), key=repr)) if (p.get('subset') or p.get('overridden')) else (lambda l: sorted(l, key=repr))
        want = norm(want)
        got = want
        if p.get('abandon'):
            # an evaluation that is abandoned after a few results leaves nothing behind (C04)
            it = q.evaluate()
            for _ in range(rng.randrange(1, 4)):
                if next(it, None) is None:
                    break
            it.close()
            shape += ':after-abandoned'
        for n in range(p.get('evals', 2)):          # the same answer on every evaluation
            got = norm(key(g) for g in q.evaluate())
            if got != want:
                shape += '' if n == 0 else ':re-evaluation'
                break
    except Exception as e:  # noqa
        return {'shape': shape, 'exception': repr(e), 'trace': traceback.format_exc(limit=5), 'signature_kind': shape + ':exception'}
    finally:
        O.enable_caching()
    if got != want:
        def show(r):
            return {'cond': repr(r['cond']), 'tag': r['tag'], 'body': [(k, show(s_)) for k, s_ in r['body']]}
        kind = shape
        if (p.get('subset') or p.get('overridden')) and nv > 1 and not [g for g in got if g not in want]:
            asg = {(i, j): (a, b) for i, a in enumerate(d0) for j, b in enumerate(d1)}
            final = {k: rdr_reference(tree, {0: a, 1: b}) for k, (a, b) in asg.items()}
            if all(overridden_selection_pattern(tree, m, asg, final, nv) for m in want if m not in got):
                kind = 'subset:only-missing:each-missing-conclusion-was-selected-and-overridden-for-the-same-binding'
        return {'shape': shape, 'tree': show(tree), 'got': got, 'want': want, 'signature_kind': kind}
    return None


def run_rdr_case(p):
    """C12: rule tree with Add conclusions, refinement and alternative: per match the ripple-down-rules conclusion"""
    from entity_query_language import symbolic_mode, rule_mode, let, an, entity, Add, refinement, alternative
    O.reset_registry()
    rng = random.Random(p['seed'])
    d0 = O.make_domain(rng, 4)
    base = O.gen_cond(rng, 1, 1, vocab=('cmp',), neg=False)
    c1 = O.gen_cond(rng, 1, 1, vocab=('cmp', 'name'), neg=False)
    c2 = O.gen_cond(rng, 1, 1, vocab=('cmp', 'name'), neg=False)
    c3 = O.gen_cond(rng, 1, 1, vocab=('cmp', 'name'), neg=False)
    shape = rng.choice(['ref', 'alt', 'ref_ref', 'ref_alt', 'alt_ref', 'alt_alt'])

    def reference(o):
        e = {0: o}
        B, C1, C2, C3 = O.holds(base, e), O.holds(c1, e), O.holds(c2, e), O.holds(c3, e)
        if shape == 'ref':
            return 'B' if (B and C1) else ('A' if B else None)
        if shape == 'alt':
            return 'A' if B else ('B' if C1 else None)
        if shape == 'ref_ref':        # base / except c1 -> B / except c2 -> C
            if not B:
                return None
            return ('C' if C2 else 'B') if C1 else 'A'
        if shape == 'ref_alt':        # base, refinement c1 -> B, alternative (to the refinement) c2 -> C
            if not B:
                return None
            return 'B' if C1 else ('C' if C2 else 'A')
        if shape == 'alt_ref':        # base -> A ; alternative c1 -> B with refinement c2 -> C
            if B:
                return 'A'
            return ('C' if C2 else 'B') if C1 else None
        if shape == 'alt_alt':
            return 'A' if B else ('B' if C1 else ('C' if C2 else None))
    try:
        x = let(type_=O.Item, domain=d0)
        with symbolic_mode():
            q = an(entity(v := let(type_=O.Built), O.build(base, [x])))
        cls = {'A': O.Built, 'B': O.BuiltB, 'C': O.BuiltC, 'D': O.BuiltD}
        with rule_mode(q):
            Add(v, O.Built(a=x, tag='A'))
            if shape == 'ref':
                with refinement(O.build(c1, [x])):
                    Add(v, O.BuiltB(a=x, tag='B'))
            elif shape == 'alt':
                with alternative(O.build(c1, [x])):
                    Add(v, O.BuiltB(a=x, tag='B'))
            elif shape == 'ref_ref':
                with refinement(O.build(c1, [x])):
                    Add(v, O.BuiltB(a=x, tag='B'))
                    with refinement(O.build(c2, [x])):
                        Add(v, O.BuiltC(a=x, tag='C'))
            elif shape == 'ref_alt':
                with refinement(O.build(c1, [x])):
                    Add(v, O.BuiltB(a=x, tag='B'))
                    with alternative(O.build(c2, [x])):
                        Add(v, O.BuiltC(a=x, tag='C'))
            elif shape == 'alt_ref':
                with alternative(O.build(c1, [x])):
                    Add(v, O.BuiltB(a=x, tag='B'))
                    with refinement(O.build(c2, [x])):
                        Add(v, O.BuiltC(a=x, tag='C'))
            elif shape == 'alt_alt':
                with alternative(O.build(c1, [x])):
                    Add(v, O.BuiltB(a=x, tag='B'))
                with alternative(O.build(c2, [x])):
                    Add(v, O.BuiltC(a=x, tag='C'))
        got = sorted((d0.index(g.a), g.tag) for g in q.evaluate())
        want = sorted((i, reference(o)) for i, o in enumerate(d0) if reference(o) is not None)
    except Exception as e:  # noqa
        return {'shape': shape, 'exception': repr(e), 'trace': traceback.format_exc(limit=5), 'signature_kind': shape + ':exception'}
    if got != want:
        return {'shape': shape, 'base': repr(base), 'c1': repr(c1), 'c2': repr(c2), 'got': got, 'want': want, 'signature_kind': shape}
    return None
