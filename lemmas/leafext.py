"""Lemma schema LeafExt, checked against the quantified (pointwise) definition of GoodRow.

The contracts use good_row(n, m) as an uninterpreted predicate of the row restricted to n's subtree, unfolded one level per
class ( good_row(n, m) == AND good_row(operand_k, m) AND own_n(m) ), plus instances of the schema LeafExt
(contracts/interface.py: leaf_ext).  This file states what the predicate MEANS and proves the schema from it with z3
(quantified, so it is not part of the per-function obligations):

    Own(c, m)      :=  c bound in m  =>  every operand of c bound in m  AND  Phi_c(m[c], m[op1 c], m[op2 c])
                       (every `own` in /verif/contracts has exactly this shape; Phi_c is arbitrary)
    GoodRow(n, m)  :=  forall c in Sub(n).  Own(c, m)
    LeafExt        :   GoodRow(n, a)  AND  b extends a  AND  every id that b binds, a does not, and that lies in n's subtree
                       is a LEAF id covered by some (n_j, b_j) with GoodRow(n_j, b_j), the id in n_j's subtree and bound in
                       b_j, b agreeing with b_j on it      ==>      GoodRow(n, b)

usage: python3-vt lemmas/leafext.py      exit 0 = proved (unsat), 1 = refuted, 2 = unknown"""
import sys

import z3

Node = z3.DeclareSort('Node')
HV = z3.DeclareSort('HV')
I = z3.IntSort()
B = z3.BoolSort()
NoneNode = z3.Const('NoneNode', Node)
nid = z3.Function('nid', Node, I)
node_of = z3.Function('node_of', I, Node)
op1 = z3.Function('op1', Node, Node)
op2 = z3.Function('op2', Node, Node)
Sub = z3.Function('Sub', Node, Node, B)          # Sub(n, c): c is in the subtree of n
Leaf = z3.Function('Leaf', Node, B)
Phi = z3.Function('Phi', Node, HV, HV, HV, B)


class Row:
    def __init__(self, name):
        self.has = z3.Function('has_' + name, I, B)
        self.val = z3.Function('val_' + name, I, HV)


def bound_op(m, o):
    return z3.Or(o == NoneNode, m.has(nid(o)))


DFLT = z3.Const('no_operand', HV)


def op_val(m, o):
    return z3.If(o == NoneNode, DFLT, m.val(nid(o)))


def own(c, m):
    return z3.Implies(m.has(nid(c)),
                      z3.And(bound_op(m, op1(c)), bound_op(m, op2(c)),
                             Phi(c, m.val(nid(c)), op_val(m, op1(c)), op_val(m, op2(c)))))


def good_row(n, m):
    c = z3.Const('c_' + str(id(m)) + str(n), Node)
    return z3.ForAll([c], z3.Implies(Sub(n, c), own(c, m)))


def sub_ids(n, i):
    return z3.And(Sub(n, node_of(i)), nid(node_of(i)) == i)


def check(k, require_leaf=True):
    s = z3.Solver()
    s.set('timeout', 120000)
    n = z3.Const('n', Node)
    a, b = Row('a'), Row('b')
    others = [(z3.Const(f'n{j}', Node), Row(f'b{j}')) for j in range(k)]
    c, i = z3.Const('c', Node), z3.Int('i')
    # structure: ids are injective, leaves have no operands, operands of a node of the subtree are in the subtree
    s.add(z3.ForAll([c], node_of(nid(c)) == c))
    s.add(z3.ForAll([c], z3.Implies(Leaf(c), z3.And(op1(c) == NoneNode, op2(c) == NoneNode))))
    # hypotheses
    s.add(good_row(n, a))
    s.add(z3.ForAll([i], z3.Implies(a.has(i), z3.And(b.has(i), b.val(i) == a.val(i)))))          # b extends a
    allowed = []
    for nj, bj in others:
        allowed.append(z3.And(good_row(nj, bj), sub_ids(nj, i), bj.has(i), b.val(i) == bj.val(i)))
    new_in_n = z3.And(b.has(i), z3.Not(a.has(i)), sub_ids(n, i))
    s.add(z3.ForAll([i], z3.Implies(new_in_n, z3.And(Leaf(node_of(i)) if require_leaf else z3.BoolVal(True),
                                                      z3.Or(*allowed) if allowed else z3.BoolVal(False)))))
    # negated goal
    c0 = z3.Const('c0', Node)
    s.add(Sub(n, c0), z3.Not(own(c0, b)))
    return s.check()


def main():
    rc = 0
    for k in (0, 1, 2, 3):
        r = check(k)
        print(f"LeafExt with {k} covering row(s): {'proved' if r == z3.unsat else r}")
        if r == z3.sat:
            rc = 1
        elif r != z3.unsat and rc == 0:
            rc = 2
    # vacuity control: without the restriction to leaf ids the schema is false and must be refuted
    r = check(1, require_leaf=False)
    print(f"control (new ids need not be leaves): {'refuted, as it must be' if r == z3.sat else r}")
    if r != z3.sat:
        rc = rc or 2
    return rc


if __name__ == '__main__':
    sys.exit(main())
