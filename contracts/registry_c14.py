"""C14: the live registry of @symbol instances.

Abstract view: Reg : class -> list of instances (Variable._cache_[cls].flat_cache, a HashedIterable keyed by id(instance)).
Function contracts, each taken from the property statement:
  symbol(cls)                      installs hybrid_new as cls.__new__, keeps the class's own __new__ (or object.__new__) as the
                                   allocator, returns the same class
  hybrid_new(cls, *a, **k)         symbolic mode on  -> the result of symbolic_new, nothing registered, the allocator is not called
                                   (so type.__call__ gets a non-instance back and skips __init__: A2)
                                   symbolic mode off -> exactly one instantiate_class_and_update_cache(cls, allocator, *a, **k),
                                   whose result is returned
  instantiate_class_and_update_cache   allocates exactly one instance with allocator(cls) and inserts exactly that instance,
                                   once, under the key cls (the class being constructed, so an undecorated subclass registers
                                   under its own class); returns it
  get_cache_keys_for_class_(reg, T)    exactly the registered classes that are subclasses of T (T included)
The composition over histories (every construction outside symbolic mode appends exactly one entry under type(instance); a
no-domain variable of type T reads the entries of exactly the keys issubclass(., T); nothing else writes the registry) is
an induction over the history (A9) and is exercised by the bounded registry-history stand-in."""
from __future__ import annotations

import ast

import z3

from eqlvc import z as Z
from eqlvc.interp import (SV, ZV, C, D, Tup, Lst, Obj, Meth, Closure, Ref, NONE, TRUE, FALSE, State, Outcome,
                          OutOfSubset, NEXT, CONTINUE, BREAK, RETURN, RAISE, GENEXIT)
from eqlvc.libmodel import LibModel, base_modenv
from .toplevel import ModeMixin, Mode, NoneMode, QueryMode, RuleMode, MODE_DISTINCT


class HybridNew(ModeMixin, LibModel):
    qual = 'predicate:symbol.<locals>.hybrid_new'
    cls = None
    props = ('C14', 'C08')
    modes = ('sound',)
    trusted = ("A2: type.__call__ runs cls.__init__ only when __new__ returned an instance of cls; symbolic_new returns a "
               "Variable / An, never an instance (its branches are covered by the C13 contracts)",)

    def modenv(self):
        env = super().modenv()
        env['symbolic_new'] = C(Ref('func', 'symbolic_new'))
        env['instantiate_class_and_update_cache'] = C(Ref('func', 'instantiate'))
        env['original_new'] = C(Ref('func', 'original_new'))
        return env

    def setup(self, eng):
        st = State()
        st.ghost['mode'] = z3.Const('mode_now', Mode)
        st.assume(MODE_DISTINCT)
        # whatever is on the expression-context stack (a `with query:` block may be open while symbolic mode is off)
        st.ghost['stack_top'] = z3.Const('stack_top', Z.Node)
        st.locals['symbolic_cls'] = Obj('theclass', {})
        st.locals['args'] = Obj('argpack', {})
        st.locals['kwargs'] = Obj('kwpack', {})
        st.ghost['calls'] = []
        return [st]

    def accepts_star(self, f):
        return True

    def call(self, eng, st, f, args, kwargs, node):
        if isinstance(f, C) and isinstance(f.v, Ref) and f.v.name in ('symbolic_new', 'instantiate', 'original_new'):
            st = st.clone()
            k = len(st.ghost['calls'])
            st.ghost['calls'] = st.ghost['calls'] + [(f.v.name, [self.tag(a) for a in args],
                                                     sorted((k, self.tag(v)) for k, v in kwargs.items()))]
            return [(st, Obj('result', {'of': f.v.name, 'k': k}))]
        return super().call(eng, st, f, args, kwargs, node)

    @staticmethod
    def tag(a):
        if isinstance(a, Obj):
            return a.kind if a.kind != 'star' else '*' + HybridNew.tag(a.data['of'])
        if isinstance(a, C) and isinstance(a.v, Ref):
            return a.v.name
        return repr(a)

    def on_exit(self, eng, o):
        st = o.st
        mode = st.ghost['mode']
        calls = st.ghost['calls']
        names = [c[0] for c in calls]
        if o.sig != RETURN:
            eng.oblige(st, "C14/construct/returns", z3.BoolVal(False))
            return
        v = o.val
        sym_ok = names == ['symbolic_new'] and isinstance(v, Obj) and v.kind == 'result' and v.data['of'] == 'symbolic_new'
        conc_ok = (names == ['instantiate'] and isinstance(v, Obj) and v.kind == 'result' and v.data['of'] == 'instantiate'
                   and calls[0][1][:2] == ['theclass', 'original_new'])
        eng.oblige(st, "C14/construct/symbolic-mode-never-registers-nor-allocates",
                   z3.Implies(mode != NoneMode, z3.BoolVal(bool(sym_ok))))
        eng.oblige(st, "C14/construct/concrete-mode-registers-exactly-once-and-returns-the-instance",
                   z3.Implies(mode == NoneMode, z3.BoolVal(bool(conc_ok))))
        # the constructor arguments are passed on unchanged in both modes
        fwd = len(calls) == 1 and calls[0][1][-1] == '*argpack' and calls[0][2] == [('**', 'kwpack')]
        eng.oblige(st, "C14/construct/arguments-forwarded", z3.BoolVal(bool(fwd)))

    def signature(self, ob, model):
        m = z3.Const('mode_now', Mode)
        return {'mode_is_None': str(model.eval(m == NoneMode, model_completion=True))}


class SymbolDecorator(LibModel):
    qual = 'predicate:symbol'
    cls = None
    props = ('C14',)
    modes = ('sound',)
    trusted = ("A2: a class attribute __new__ assigned after class creation is used by type.__call__ for the class and, "
               "through the MRO, for every subclass that does not define its own",)

    def modenv(self):
        env = base_modenv()
        env['object'] = C(Ref('class', 'object'))
        env['symbols_registry'] = Obj('pylist', {'tag': 'symbols_registry'})
        return env

    def setup(self, eng):
        sts = []
        for own in (True, False):
            st = State()
            st.locals['cls'] = Obj('theclass', {})
            st.ghost['own_new'] = own
            st.ghost['attrs'] = {}
            st.ghost['appended'] = []
            st.path.append(f"class defines __new__={own}")
            sts.append(st)
        return sts

    def getattr(self, eng, st, recv, name):
        if isinstance(recv, Obj) and recv.kind == 'theclass':
            if name == '__dict__':
                return [(st, Obj('classdict', {}))]
            if name == '__new__':
                return [(st, C(Ref('func', 'own.__new__' if st.ghost['own_new'] else 'object.__new__')))]
        if isinstance(recv, C) and recv.v == Ref('class', 'object') and name == '__new__':
            return [(st, C(Ref('func', 'object.__new__')))]
        if isinstance(recv, Obj) and recv.kind == 'pylist':
            return [(st, Meth(recv, name))]
        return super().getattr(eng, st, recv, name)

    def compare(self, eng, st, op, a, b):
        if isinstance(op, (ast.In, ast.NotIn)) and isinstance(b, Obj) and b.kind == 'classdict' and isinstance(a, C) and a.v == '__new__':
            r = st.ghost['own_new']
            return C(r if isinstance(op, ast.In) else not r)
        return super().compare(eng, st, op, a, b) if hasattr(super(), 'compare') else None

    def call(self, eng, st, f, args, kwargs, node):
        if isinstance(f, Meth) and isinstance(f.recv, Obj) and f.recv.kind == 'pylist' and f.name == 'append':
            st = st.clone()
            st.ghost['appended'] = st.ghost['appended'] + [args[0]]
            return [(st, NONE)]
        return super().call(eng, st, f, args, kwargs, node)

    def setattr(self, eng, st, recv, name, v):
        if isinstance(recv, Obj) and recv.kind == 'theclass':
            st = st.clone()
            a = dict(st.ghost['attrs'])
            a[name] = v
            st.ghost['attrs'] = a
            return [st]
        return None

    def on_exit(self, eng, o):
        st = o.st
        if o.sig != RETURN:
            eng.oblige(st, "C14/symbol/returns", z3.BoolVal(False))
            return
        eng.oblige(st, "C14/symbol/returns-the-same-class", z3.BoolVal(isinstance(o.val, Obj) and o.val.kind == 'theclass'))
        new = st.ghost['attrs'].get('__new__')
        ok = isinstance(new, Closure) and new.fdef.name == 'hybrid_new' and set(st.ghost['attrs']) == {'__new__'}
        eng.oblige(st, "C14/symbol/installs-hybrid_new-and-nothing-else", z3.BoolVal(bool(ok)))
        if isinstance(new, Closure):
            alloc = new.env.get('original_new') if hasattr(new, 'env') else None
            want = 'own.__new__' if st.ghost['own_new'] else 'object.__new__'
            eng.oblige(st, "C14/symbol/allocator-is-the-class-own-__new__-else-object.__new__",
                       z3.BoolVal(isinstance(alloc, C) and isinstance(alloc.v, Ref) and alloc.v.name == want))

    def signature(self, ob, model):
        return {}


class SymbolicNew(ModeMixin, LibModel):
    """symbol.<locals>.symbolic_new(symbolic_cls, *args, **kwargs) - C13 (a term T(...) ranges over instances of T, T being
    the class that was CALLED, which for an undecorated subclass is not the class the decorator saw): every callee that
    takes the class - update_domain_and_kwargs_from_args, Variable, index_class_cache, extract_selected_variable_and_expression -
    receives `symbolic_cls`, never the decorator's closure variable `cls`; the domain and the field constraints that
    update_domain_and_kwargs_from_args returns are the ones passed on."""
    qual = 'predicate:symbol.<locals>.symbolic_new'
    cls = None
    props = ('C13', 'C14')
    modes = ('sound',)
    trusted = ("the callees are summarised by what they are given (their own contracts: update_domain_and_kwargs_from_args, "
               "extract_selected_variable_and_expression); issubclass is Python's (A2)",)
    CLASS_TAKERS = ('update_domain_and_kwargs_from_args', 'Variable', 'index_class_cache', 'extract_selected_variable_and_expression',
                    'issubclass')

    def modenv(self):
        env = super().modenv()
        for f in ('bind_first_argument_of_predicate_if_in_query_context', 'update_domain_and_kwargs_from_args', 'index_class_cache',
                  'update_query_child_expression_if_in_query_context', 'extract_selected_variable_and_expression', 'issubclass'):
            env[f] = C(Ref('func', f))
        env['cls'] = Obj('decorated_class', {})
        env['Predicate'] = C(Ref('class', 'Predicate'))
        return env

    def setup(self, eng):
        sts = []
        for is_pred in (False, True):
            st = State()
            st.ghost['mode'] = z3.Const('mode_now', Mode)
            st.assume(MODE_DISTINCT)
            st.ghost['stack_top'] = z3.Const('stack_top', Z.Node)
            st.locals['symbolic_cls'] = Obj('theclass', {})
            st.locals['args'] = Obj('argpack', {})
            st.locals['kwargs'] = Obj('kwpack', {})
            st.ghost['calls'] = []
            st.ghost['is_pred'] = is_pred
            st.path.append(f"predicate class={is_pred}")
            sts.append(st)
        return sts

    def accepts_star(self, f):
        return True

    def getattr(self, eng, st, recv, name):
        if isinstance(recv, Obj) and recv.kind in ('theclass', 'decorated_class') and name == '__name__':
            return [(st, Obj('name_of', {'of': recv.kind}))]
        if isinstance(recv, C) and isinstance(recv.v, Ref) and recv.v.name == 'SymbolicExpression' and name == '_current_parent_':
            return [(st, C(Ref('func', 'current_parent')))]
        return super().getattr(eng, st, recv, name)

    def obj_truth(self, eng, st, v):
        if v.kind in ('domain', 'expression'):
            return z3.Bool('has_' + v.kind)
        return None

    def call(self, eng, st, f, args, kwargs, node):
        if isinstance(f, C) and isinstance(f.v, Ref):
            nm = f.v.name
            if nm == 'issubclass':
                st = st.clone()
                st.ghost['calls'] = st.ghost['calls'] + [(nm, [HybridNew.tag(a) for a in args], [])]
                return [(st, C(st.ghost['is_pred']))]
            if nm == 'current_parent':
                return [(st, ZV(st.ghost['stack_top'], 'optnode'))]
            if nm in ('bind_first_argument_of_predicate_if_in_query_context', 'update_domain_and_kwargs_from_args', 'index_class_cache',
                      'update_query_child_expression_if_in_query_context', 'extract_selected_variable_and_expression',
                      'Variable', 'An', 'Entity'):
                st = st.clone()
                st.ghost['calls'] = st.ghost['calls'] + [(nm, [HybridNew.tag(a) for a in args],
                                                         sorted((k, HybridNew.tag(v)) for k, v in kwargs.items()))]
                if nm == 'update_domain_and_kwargs_from_args':
                    return [(st, Tup([Obj('domain', {}), Obj('fields', {})]))]
                if nm == 'extract_selected_variable_and_expression':
                    return [(st, Tup([Obj('variable', {}), Obj('expression', {})]))]
                if nm == 'bind_first_argument_of_predicate_if_in_query_context':
                    return [(st, Obj('argpack2', {}))]
                return [(st, Obj('result', {'of': nm}))]
        return super().call(eng, st, f, args, kwargs, node)

    def on_exit(self, eng, o):
        st = o.st
        if o.sig != RETURN:
            eng.oblige(st, "C13/symbolic_new/returns", z3.BoolVal(False))
            return
        calls = st.ghost['calls']
        takers = [c for c in calls if c[0] in self.CLASS_TAKERS]
        given = [t for c in takers for t in c[1] + [v for _, v in c[2]] if t in ('theclass', 'decorated_class')]
        eng.oblige(st, "C13/symbolic_new/every-callee-gets-the-class-that-was-called-not-the-decorated-one",
                   z3.BoolVal(bool(given) and all(t == 'theclass' for t in given) and
                              all('theclass' in c[1] + [v for _, v in c[2]] for c in takers)))
        upd = [c for c in calls if c[0] == 'update_domain_and_kwargs_from_args']
        eng.oblige(st, "C13/symbolic_new/the-arguments-are-split-once-into-domain-and-field-constraints", z3.BoolVal(len(upd) == 1))
        ext = [c for c in calls if c[0] == 'extract_selected_variable_and_expression']
        var = [c for c in calls if c[0] == 'Variable']
        eng.oblige(st, "C13/symbolic_new/exactly-one-of-the-two-constructions", z3.BoolVal(len(ext) + len(var) == 1))
        if ext:
            c = ext[0]
            eng.oblige(st, "C13/symbolic_new/the-explicit-form-gets-that-domain-and-those-field-constraints",
                       z3.BoolVal(c[1][:2] == ['theclass', 'domain'] and ('**', 'fields') in c[2]))
        if var:
            c = var[0]
            eng.oblige(st, "C13/symbolic_new/the-inferred-variable-gets-those-field-constraints",
                       z3.BoolVal(('_kwargs_', 'fields') in c[2] and 'theclass' in c[1]))

    def signature(self, ob, model):
        return {}


class InstantiateAndRegister(LibModel):
    qual = 'predicate:instantiate_class_and_update_cache'
    cls = None
    props = ('C14',)
    modes = ('sound',)
    trusted = ("IndexedCache.insert(assignment, output, index) with index False or an empty assignment adds `output` to the "
               "flat store and nothing else (cache_data.py, first branch; HashedIterable.add keyed by id: C07 contracts)",
               "Variable._cache_ is a defaultdict(IndexedCache): subscripting a missing class creates its empty store")

    def modenv(self):
        env = base_modenv()
        fd = self.src.get('predicate:index_class_cache')      # executed from its real source (constant False on this tree)
        env['index_class_cache'] = Closure(fd, {}) if fd is not None else C(Ref('func', 'index_class_cache'))
        env['update_cls_args'] = C(Ref('func', 'update_cls_args'))
        env['Variable'] = C(Ref('class', 'Variable'))
        env['HashedValue'] = C(Ref('class', 'HashedValue'))
        env['cls_args'] = Obj('cls_args', {})
        return env

    def setup(self, eng):
        sts = []
        for index in (False,):
            st = State()
            st.locals['symbolic_cls'] = Obj('theclass', {})
            st.locals['original_new'] = C(Ref('func', 'original_new'))
            st.locals['args'] = Obj('argpack', {})
            st.locals['kwargs'] = Obj('kwpack', {})
            st.ghost['index'] = index
            st.ghost['allocs'] = 0
            st.ghost['inserts'] = []
            sts.append(st)
        return sts

    def obj_truth(self, eng, st, v):
        # the constructor's arguments are arbitrary: there may be none at all (a construction from defaults alone)
        if v.kind == 'argpack':
            return z3.Bool('some_positional_argument')
        if v.kind == 'kwpack':
            return z3.Bool('some_keyword_argument')
        return None

    def getattr(self, eng, st, recv, name):
        if isinstance(recv, C) and recv.v == Ref('class', 'Variable') and name == '_cache_':
            return [(st, Obj('registry', {}))]
        if isinstance(recv, Obj) and recv.kind in ('regentry', 'pydict'):
            return [(st, Meth(recv, name))] if name != 'keys' or recv.kind == 'pydict' else [(st, Obj('entrykeys', {}))]
        return super().getattr(eng, st, recv, name)

    def subscript(self, eng, st, recv, k):
        if isinstance(recv, Obj) and recv.kind == 'registry':
            return [(st, Obj('regentry', {'key': k}))]
        if isinstance(recv, Obj) and recv.kind == 'cls_args':
            return [(st, Obj('arglist', {}))]
        return super().subscript(eng, st, recv, k) if hasattr(super(), 'subscript') else None

    def call(self, eng, st, f, args, kwargs, node):
        if isinstance(f, C) and isinstance(f.v, Ref):
            nm = f.v.name
            if nm == 'original_new':
                st = st.clone()
                st.ghost['allocs'] += 1
                ok = len(args) == 1 and isinstance(args[0], Obj) and args[0].kind == 'theclass' and not kwargs
                return [(st, Obj('instance', {'k': st.ghost['allocs'], 'plain_alloc': ok}))]
            if nm == 'index_class_cache':
                return [(st, C(st.ghost['index']))]
            if nm == 'update_cls_args':
                return [(st, NONE)]
            if nm == 'HashedValue':
                return [(st, Obj('hashedvalue', {'of': args[0]}))]
        if isinstance(f, Meth) and isinstance(f.recv, Obj) and f.recv.kind == 'regentry' and f.name == 'insert':
            st = st.clone()
            st.ghost['inserts'] = st.ghost['inserts'] + [(f.recv.data['key'], args, kwargs)]
            return [(st, NONE)]
        return super().call(eng, st, f, args, kwargs, node)

    def on_exit(self, eng, o):
        st = o.st
        # index_class_cache's real body is executed: constant False on this tree, so only the flat branch is reachable; the
        # indexed branch (reads fields of an instance whose __init__ has not run) is outside the subset: if it ever becomes
        # reachable the function is reported undecided and the bounded registry stand-in decides
        if o.sig != RETURN:
            eng.oblige(st, "C14/register/returns", z3.BoolVal(False))
            return
        v = o.val
        eng.oblige(st, "C14/register/allocates-exactly-one-instance-with-the-class-allocator",
                   z3.BoolVal(st.ghost['allocs'] == 1 and isinstance(v, Obj) and v.kind == 'instance' and v.data['plain_alloc']))
        ins = st.ghost['inserts']
        ok = (len(ins) == 1 and isinstance(ins[0][0], Obj) and ins[0][0].kind == 'theclass' and len(ins[0][1]) >= 2
              and isinstance(ins[0][1][1], Obj) and ins[0][1][1].kind == 'hashedvalue' and ins[0][1][1].data['of'] is v)
        eng.oblige(st, "C14/register/inserts-exactly-that-instance-once-under-its-class", z3.BoolVal(bool(ok)))
        if len(ins) == 1:
            idx = ins[0][2].get('index', ins[0][1][2] if len(ins[0][1]) > 2 else C(True))
            if isinstance(idx, C) and idx.v is False:
                flat = z3.BoolVal(True)
            elif isinstance(ins[0][1][0], D):
                flat = st.dicts[ins[0][1][0].ref].is_empty()
            else:
                flat = z3.BoolVal(False)
            eng.oblige(st, "C14/register/into-the-flat-store", flat)

    def signature(self, ob, model):
        return {}


class CacheKeysForClass(LibModel):
    """get_cache_keys_for_class_(cache, clazz) for a class argument: the registered keys that are classes and subclasses of
    clazz, each once, in registry order"""
    qual = 'cache_data:get_cache_keys_for_class_'
    cls = None
    props = ('C14',)
    modes = ('sound',)
    trusted = ("issubclass / isinstance(., type) are Python's (A2); dict.keys() enumerates every key once",)

    def modenv(self):
        env = base_modenv()
        env['type'] = C(Ref('class', 'type'))
        return env

    def setup(self, eng):
        sts = []
        for n in (0, 1, 2, 3):
            st = State()
            keys = [Obj('key', {'i': i, 'is_type': z3.Bool(f'is_type{i}'), 'sub': z3.Bool(f'is_subclass{i}')}) for i in range(n)]
            st.locals['cache'] = Obj('registry', {'keys': keys})
            st.locals['clazz'] = Obj('theclass', {})
            st.ghost['n'] = n
            st.path.append(f"registered keys={n}")
            sts.append(st)
        return sts

    def getattr(self, eng, st, recv, name):
        if isinstance(recv, Obj) and recv.kind == 'registry':
            return [(st, Meth(recv, name))]
        return super().getattr(eng, st, recv, name)

    def call(self, eng, st, f, args, kwargs, node):
        if isinstance(f, Meth) and isinstance(f.recv, Obj) and f.recv.kind == 'registry' and f.name == 'keys':
            return [(st, Lst(list(f.recv.data['keys']), eng.new_ref()))]
        return super().call(eng, st, f, args, kwargs, node)

    def f_isinstance(self, eng, st, args, kwargs, node):
        o, c = args
        if isinstance(c, C) and c.v == Ref('class', 'type'):
            if isinstance(o, Obj) and o.kind == 'theclass':
                return [(st, C(True))]
            if isinstance(o, Obj) and o.kind == 'key':
                return [(st, ZV(o.data['is_type'], 'bool'))]
        return super().f_isinstance(eng, st, args, kwargs, node)

    def new_type(self, eng, st, args, kwargs, node):
        # type(x): the metaclass of a class - `type` itself or a subclass of it (abc.ABCMeta, ...); of a non-class: not type
        if len(args) == 1 and not kwargs and isinstance(args[0], Obj) and args[0].kind in ('theclass', 'key'):
            o = args[0]
            exact = z3.Bool('metaclass_of_the_class_is_exactly_type' if o.kind == 'theclass' else f"metaclass_of_key{o.data['i']}_is_exactly_type")
            if o.kind == 'key':
                st = st.clone()
                st.assume(z3.Implies(exact, o.data['is_type']))
            return [(st, Obj('metaclass', {'exact': exact}))]
        raise OutOfSubset("type(...)", node)

    def compare(self, eng, st, op, a, b):
        if isinstance(op, (ast.Is, ast.IsNot, ast.Eq, ast.NotEq)):
            for x, y in ((a, b), (b, a)):
                if isinstance(x, Obj) and x.kind == 'metaclass' and isinstance(y, C) and y.v == Ref('class', 'type'):
                    t = x.data['exact']
                    return ZV(z3.Not(t) if isinstance(op, (ast.IsNot, ast.NotEq)) else t, 'bool')
        if isinstance(op, (ast.In, ast.NotIn)) and isinstance(a, Obj) and a.kind == 'theclass' and isinstance(b, Obj) and b.kind == 'registry':
            t = z3.Bool('the_class_is_a_registered_key')
            return ZV(z3.Not(t) if isinstance(op, ast.NotIn) else t, 'bool')
        return super().compare(eng, st, op, a, b)

    def f_issubclass(self, eng, st, args, kwargs, node):
        o, c = args
        if isinstance(o, Obj) and o.kind == 'key' and isinstance(c, Obj) and c.kind == 'theclass':
            # issubclass raises TypeError for a non-class first argument: must be guarded
            eng.oblige(st, "safe/issubclass-on-classes-only", o.data['is_type'])
            return [(st, ZV(o.data['sub'], 'bool'))]
        if isinstance(c, Obj) and c.kind == 'key' and isinstance(o, Obj) and o.kind == 'theclass':
            eng.oblige(st, "safe/issubclass-on-classes-only", c.data['is_type'])
            return [(st, ZV(z3.Bool(f"is_superclass{c.data['i']}"), 'bool'))]     # unrelated to is_subclass in general
        raise OutOfSubset("issubclass", node)

    def on_exit(self, eng, o):
        st = o.st
        if o.sig != RETURN or not isinstance(o.val, Lst):
            eng.oblige(st, "C14/keys/returns-a-list", z3.BoolVal(False))
            return
        got = [x.data['i'] for x in o.val.items if isinstance(x, Obj) and x.kind == 'key']
        eng.oblige(st, "C14/keys/only-registered-keys", z3.BoolVal(len(got) == len(o.val.items)))
        keys = st.locals['cache'].data['keys'] if isinstance(st.locals.get('cache'), Obj) else []
        for k in keys:
            i = k.data['i']
            want = z3.And(k.data['is_type'], k.data['sub'])
            eng.oblige(st, f"C14/keys/key{i}-listed-exactly-when-it-is-a-subclass", want == z3.BoolVal(got.count(i) == 1),
                       extra=z3.BoolVal(got.count(i) <= 1))
            eng.oblige(st, f"C14/keys/key{i}-listed-at-most-once", z3.BoolVal(got.count(i) <= 1))

    def signature(self, ob, model):
        return {}


CONTRACTS = [HybridNew, SymbolDecorator, SymbolicNew, InstantiateAndRegister, CacheKeysForClass]
