"""C03: the comparator inverse table (`Comparator._invert_` setter) and `symbolic.Not`.

Top-level postcondition, from the property statement: for every operand state and every environment rho,
        Den_post(Not(operand), rho)  ==  not Den_pre(operand, rho)
so in particular Not(Not(c)) means c again.  For the setter: after `c._invert_ = value`
        op_post(a, b) == op_pre(a, b) xor (value != invert_pre)        for all a, b
with the six order operators read through a total order `key` and `contains` uninterpreted (DESIGN 2.2)."""
from __future__ import annotations

import ast

import z3

from eqlvc import z as Z
from eqlvc.interp import (SV, ZV, C, D, Tup, Lst, Obj, Meth, Closure, Ref, NONE, TRUE, FALSE, State, Outcome,
                          OutOfSubset, NEXT, CONTINUE, BREAK, RETURN, RAISE, GENEXIT)
from eqlvc.libmodel import LibModel, base_modenv, isa, str_const

OPNAMES = ['lt', 'le', 'gt', 'ge', 'eq', 'ne', 'contains']


def find_nested_def(fdef, name):
    for n in ast.walk(fdef):
        if isinstance(n, ast.FunctionDef) and n.name == name and n is not fdef:
            return n
    return None


class OpSemMixin:
    """semantics of a value stored in Comparator.operation (an operator.* function or a closure from the real text)"""

    def op_apply(self, eng, st, op: SV, a, b):
        if isinstance(op, C) and isinstance(op.v, Ref) and op.v.kind == 'op':
            return Z.op_sem(op.v.name, a, b)
        if isinstance(op, Closure):
            outs = self.call_closure(eng, st, op, [ZV(a, 'val'), ZV(b, 'val')], {}, None)
            if len(outs) != 1:
                raise OutOfSubset("closure operation with several paths")
            return eng.to_z3_bool(eng.truth(outs[0][0], outs[0][1]))
        raise OutOfSubset(f"operation value {op}")

    def call(self, eng, st, f, args, kwargs, node):
        # operator.contains(a, b) inside the closure
        if isinstance(f, C) and isinstance(f.v, Ref) and f.v.kind == 'op' and len(args) == 2 \
                and all(isinstance(x, ZV) and x.ty == 'val' for x in args):
            return [(st, ZV(Z.op_sem(f.v.name, args[0].t, args[1].t), 'bool'))]
        if isinstance(f, Meth) and isinstance(f.recv, C) and isinstance(f.recv.v, str):
            return [(st, C('<str>'))]
        return super().call(eng, st, f, args, kwargs, node)

    def getattr(self, eng, st, recv, name):
        if name == '__name__':
            return [(st, C('<name>'))]
        if isinstance(recv, C) and isinstance(recv.v, str):
            return [(st, Meth(recv, name))]
        return super().getattr(eng, st, recv, name)

    def match_stmt(self, eng, st, s: ast.Match):
        outs = []
        for s2, subj in eng.eval(s.subject, st):
            taken = False
            for case in s.cases:
                p = case.pattern
                if case.guard is not None:
                    if not (isinstance(p, ast.MatchAs) and p.pattern is None):
                        raise OutOfSubset("match guard on a value pattern", s)
                    gs = eng.eval(case.guard, s2)
                    if len(gs) != 1:
                        raise OutOfSubset("match guard", s)
                    g = eng.truth(gs[0][0], gs[0][1])
                    if not isinstance(g, bool):
                        raise OutOfSubset("symbolic match guard", s)
                    if g:
                        outs.extend(eng.exec_block(case.body, s2))
                        taken = True
                        break
                    continue
                if isinstance(p, ast.MatchValue):
                    vs = eng.eval(p.value, s2)
                    if len(vs) != 1:
                        raise OutOfSubset("match value", s)
                    pv = vs[0][1]
                    if isinstance(subj, C) and isinstance(pv, C):
                        if subj.v == pv.v:
                            outs.extend(eng.exec_block(case.body, s2))
                            taken = True
                            break
                        continue
                    if isinstance(subj, Closure) and isinstance(pv, C):
                        continue     # a closure is never == an operator.* function
                    raise OutOfSubset("match on symbolic subject", s)
                if isinstance(p, ast.MatchAs) and p.pattern is None:
                    outs.extend(eng.exec_block(case.body, s2))
                    taken = True
                    break
                raise OutOfSubset(f"match pattern {type(p).__name__}", s)
            if not taken:
                outs.append(Outcome(s2))
        return outs


class InvertSetter(OpSemMixin, LibModel):
    qual = 'symbolic:Comparator._invert_.setter'
    cls = 'Comparator'
    props = ('C03', 'C01', 'C18')
    modes = ('sound',)

    def modenv(self):
        return base_modenv()

    def pre_ops(self, eng):
        ops = [(nm, C(Ref('op', nm))) for nm in OPNAMES]
        nd = find_nested_def(eng.fdef, 'not_contains')
        if nd is not None:
            ops.append(('not_contains', Closure(nd, {})))
        else:
            mod_nc = self.src.get('symbolic:not_contains')
            if mod_nc is not None:
                ops.append(('not_contains', Closure(mod_nc, {})))
                self._modlevel_nc = True
        return ops

    def setup(self, eng):
        sts = []
        self.n = z3.Const('self', Z.Node)
        for nm, op in self.pre_ops(eng):
            st = State()
            st.path.append(f"op_pre={nm}")
            st.locals['self'] = ZV(self.n, 'node')
            st.locals['value'] = ZV(z3.Bool('value'), 'bool')
            st.ghost['obj'] = {'_invert__': ZV(z3.Bool('invert_pre'), 'bool'), 'operation': op}
            st.ghost['op_pre'] = op
            st.ghost['op_pre_name'] = nm
            if nm == 'not_contains':
                st.assume(z3.Bool('invert_pre'))     # representation invariant: only an inverted comparator holds it
            sts.append(st)
        return sts

    def modenv(self):
        env = base_modenv()
        nc = self.src.get('symbolic:not_contains')
        if nc is not None:
            env['not_contains'] = Closure(nc, {})
        return env

    def getattr(self, eng, st, recv, name):
        if isinstance(recv, ZV) and recv.ty == 'node' and recv.t.eq(self.n):
            if name in ('_invert__', 'operation'):
                return [(st, st.ghost['obj'][name])]
            if name == '_invert_':
                q = 'symbolic:Comparator._invert_'
                return self.inline_method(eng, st, q, recv, [], {}, None)
        return super().getattr(eng, st, recv, name)

    def setattr(self, eng, st, recv, name, v):
        if isinstance(recv, ZV) and recv.ty == 'node' and recv.t.eq(self.n) and name in ('_invert__', 'operation'):
            st = st.clone()
            o = dict(st.ghost['obj'])
            o[name] = v
            st.ghost['obj'] = o
            return [st]
        if isinstance(recv, Obj) and recv.kind == 'rxnode':
            return [st]
        return super().setattr(eng, st, recv, name, v)

    def on_exit(self, eng, o: Outcome):
        st = o.st
        nm = st.ghost['op_pre_name']
        if o.sig == RAISE:
            eng.oblige(st, f"post/no-raise", z3.BoolVal(False), opname=nm)
            return
        a, b = z3.Consts('a b', Z.Val)
        pre = self.op_apply(eng, st, st.ghost['op_pre'], a, b)
        post = self.op_apply(eng, st, st.ghost['obj']['operation'], a, b)
        value, inv_pre = z3.Bool('value'), z3.Bool('invert_pre')
        inv_post = eng.to_z3_bool(eng.truth(st, st.ghost['obj']['_invert__']))
        eng.oblige(st, f"post/true-inverse", post == z3.Xor(pre, value != inv_pre), opname=nm)
        eng.oblige(st, f"post/flag", inv_post == value, opname=nm)

    def signature(self, ob, model):
        def ev(t):
            return str(model.eval(t, model_completion=True))
        return {'op_pre': ob.meta.get('opname'), 'invert_pre': ev(z3.Bool('invert_pre')), 'value': ev(z3.Bool('value'))}


DenPre = z3.Function('DenPre', Z.Node, Z.Env, Z.B)


class NotFn(OpSemMixin, LibModel):
    """symbolic.Not.  Operand kinds are enumerated from the isinstance tests of the real text."""
    qual = 'symbolic:Not'
    cls = None
    props = ('C03', 'C01')
    modes = ('sound',)
    KINDS = ['Comparator', 'DomainMapping', 'Variable', 'AND', 'OR', 'Entity', 'SetOf', 'ResultQuantifier']

    def modenv(self):
        env = base_modenv()
        nc = self.src.get('symbolic:not_contains')
        if nc is not None:
            env['not_contains'] = Closure(nc, {})
        return env

    def setup(self, eng):
        sts = []
        self.x = z3.Const('operand', Z.Node)
        self.rho = z3.Const('rho', Z.Env)
        for kind in self.KINDS:
            ops = [None]
            if kind == 'Comparator':
                setter = self.src.get('symbolic:Comparator._invert_.setter')
                ops = [C(Ref('op', nm)) for nm in OPNAMES]
                nd = find_nested_def(setter, 'not_contains') if setter is not None else None
                if nd is None:
                    nd = self.src.get('symbolic:not_contains')
                if nd is not None:
                    ops.append(Closure(nd, {}))
            for op in ops:
                st = State()
                st.path.append(f"operand={kind}" + (f":{self.opname(op)}" if op is not None else ''))
                st.ghost['kind'] = kind
                st.ghost['opname'] = self.opname(op) if op is not None else None
                if kind == 'nonsymbolic':
                    st.locals['operand'] = Obj('uservalue')
                else:
                    st.locals['operand'] = ZV(self.x, 'node')
                st.ghost['obj'] = {'_invert__': ZV(z3.Bool('invert_pre'), 'bool'), 'operation': op,
                                   '_invert_': ZV(z3.Bool('invert_pre'), 'bool')}
                st.ghost['op_pre'] = op
                if isinstance(op, Closure):
                    st.assume(z3.Bool('invert_pre'))  # representation invariant (see InvertSetter)
                sts.append(st)
        return sts

    @staticmethod
    def opname(op):
        if isinstance(op, C):
            return op.v.name
        if isinstance(op, Closure):
            return 'not_contains'
        return None

    # class table for isinstance on the operand (from the real class statements)
    def f_isinstance(self, eng, st, args, kwargs, node):
        o, cls = args
        if isinstance(o, Obj) and o.kind == 'uservalue':
            return [(st, FALSE)]
        if isinstance(o, ZV) and o.ty == 'node' and o.t.eq(self.x):
            kind = st.ghost['kind']
            names = [cls.v.name] if isinstance(cls, C) else [c.v.name for c in cls.items]
            actual = {'DomainMapping': 'Attribute', 'OR': 'ElseIf', 'ResultQuantifier': 'An'}.get(kind, kind)
            return [(st, C(any(self.src.is_subclass(actual, nm) for nm in names)))]
        return super().f_isinstance(eng, st, args, kwargs, node)

    def getattr(self, eng, st, recv, name):
        if isinstance(recv, ZV) and recv.ty == 'node' and recv.t.eq(self.x):
            if name in ('_invert__', 'operation'):
                return [(st, st.ghost['obj'][name])]
            if name == '_invert_':
                if st.ghost['kind'] == 'Comparator':
                    return self.inline_method(eng, st, 'symbolic:Comparator._invert_', recv, [], {}, None)
                return [(st, st.ghost['obj']['_invert_'])]
            if name == 'selected_variables':
                return [(st, Obj('selvars'))]
            if name == '__class__':
                return [(st, C(Ref('class', st.ghost['kind'])))]
        return super().getattr(eng, st, recv, name)

    def setattr(self, eng, st, recv, name, v):
        if isinstance(recv, ZV) and recv.ty == 'node' and recv.t.eq(self.x):
            if name == '_invert_' and st.ghost['kind'] == 'Comparator':
                # the real setter body
                outs = self.inline_method(eng, st, 'symbolic:Comparator._invert_.setter', recv, [v], {}, None)
                return [s for s, _ in outs]
            if name in ('_invert__', 'operation', '_invert_'):
                st = st.clone()
                o = dict(st.ghost['obj'])
                o[name] = v
                st.ghost['obj'] = o
                return [st]
        if isinstance(recv, Obj) and recv.kind == 'rxnode':
            return [st]
        return super().setattr(eng, st, recv, name, v)

    def fresh_node(self, st, den_fn, tag):
        r = z3.FreshConst(Z.Node, tag)
        st.assume(Z.Den(r, self.rho) == den_fn(self.rho))
        return ZV(r, 'node')

    def call(self, eng, st, f, args, kwargs, node):
        if isinstance(f, C) and isinstance(f.v, Ref):
            r = f.v
            if r.kind == 'func' and r.name == 'Not' or (r.kind == 'class' and r.name == 'Not'):
                # recursive call: Not's own contract (measure: height of the operand)
                (a,) = args
                st = st.clone()
                return [(st, self.fresh_node(st, lambda rho: z3.Not(DenPre(a.t, rho)), 'neg'))]
            if r.kind == 'class' and r.name in ('ElseIf', 'Union'):
                a, b = args
                st = st.clone()
                return [(st, self.fresh_node(st, lambda rho: z3.Or(Z.Den(a.t, rho), Z.Den(b.t, rho)), 'or'))]
            if r.kind == 'class' and r.name == 'AND':
                a, b = args
                st = st.clone()
                return [(st, self.fresh_node(st, lambda rho: z3.And(Z.Den(a.t, rho), Z.Den(b.t, rho)), 'and'))]
            if r.kind == 'class' and r.name in ('Entity', 'SetOf'):
                a = args[0]
                st = st.clone()
                return [(st, self.fresh_node(st, lambda rho: Z.Den(a.t, rho), 'descr'))]
            if r.kind == 'class' and r.name == 'Literal':
                return [(st, Obj('literal'))]
        return super().call(eng, st, f, args, kwargs, node)

    def den_pre_unfold(self, eng, st):
        kind = st.ghost['kind']
        x, rho = self.x, self.rho
        if kind == 'Comparator':
            a, b = z3.Consts('a b', Z.Val)
            return self.op_apply(eng, st, st.ghost['op_pre'], a, b)
        if kind in ('DomainMapping', 'Variable'):
            return z3.Xor(Z.truthy(z3.Const('ownv', Z.Val)), z3.Bool('invert_pre'))
        if kind == 'AND':
            return z3.And(DenPre(Z.f_left(x), rho), DenPre(Z.f_right(x), rho))
        if kind == 'OR':
            return z3.Or(DenPre(Z.f_left(x), rho), DenPre(Z.f_right(x), rho))
        if kind in ('Entity', 'SetOf'):
            return DenPre(Z.f_child(x), rho)
        return None

    def den_post(self, eng, st, res):
        kind = st.ghost['kind']
        if isinstance(res, ZV) and res.ty == 'node' and res.t.eq(self.x):
            # the operand object itself was returned (mutated in place)
            if kind == 'Comparator':
                a, b = z3.Consts('a b', Z.Val)
                return self.op_apply(eng, st, st.ghost['obj']['operation'], a, b)
            if kind in ('DomainMapping', 'Variable'):
                return z3.Xor(Z.truthy(z3.Const('ownv', Z.Val)), eng.to_z3_bool(eng.truth(st, st.ghost['obj']['_invert_'])))
            return None
        if isinstance(res, ZV) and res.ty == 'node':
            return Z.Den(res.t, self.rho)
        return None

    def on_exit(self, eng, o: Outcome):
        st = o.st
        kind = st.ghost['kind']
        tag = kind + (f".{st.ghost['opname']}" if st.ghost.get('opname') else '')
        if kind == 'nonsymbolic':
            return          # Not(<python value>) wraps a literal; outside the property's vocabulary
        if o.sig == RAISE:
            if kind == 'ResultQuantifier':
                return      # documented: negating a quantifier is rejected
            eng.oblige(st, "post/no-raise", z3.BoolVal(False), operand=tag)
            return
        if o.sig != RETURN:
            eng.oblige(st, "post/returns", z3.BoolVal(False), operand=tag)
            return
        if kind == 'ResultQuantifier':
            eng.oblige(st, "post/quantifier-rejected", z3.BoolVal(False), operand=tag)
            return
        pre = self.den_pre_unfold(eng, st)
        post = self.den_post(eng, st, o.val)
        if pre is None or post is None:
            eng.oblige(st, "post/complement", z3.BoolVal(False), operand=tag)
            return
        # DenPre of operands unfolds to Den for the untouched sub-terms handed to constructors
        eng.oblige(st, "post/complement", post == z3.Not(pre), operand=tag)

    def signature(self, ob, model):
        def ev(t):
            return str(model.eval(t, model_completion=True))
        return {'operand': ob.meta.get('operand'), 'invert_pre': ev(z3.Bool('invert_pre'))}


CONTRACTS = [InvertSetter, NotFn]


class NotContainsFn(LibModel):
    """symbolic.not_contains(a, b) is the complement of operator.contains(a, b) for every a, b (the arm of the inverse
    table a negated membership test switches to: C03, C17) - whatever the truthiness of the container"""
    qual = 'symbolic:not_contains'
    cls = None
    props = ('C03', 'C17')
    modes = ('sound',)
    trusted = ("operator.contains(a, b) is `b in a`: an uninterpreted relation of its two arguments (A6)",)

    def modenv(self):
        env = base_modenv()
        env['operator'] = C(Ref('module', 'operator'))
        return env

    def setup(self, eng):
        st = State()
        st.locals['a'] = ZV(z3.Const('container', Z.Val), 'val')
        st.locals['b'] = ZV(z3.Const('item', Z.Val), 'val')
        return [st]

    def call(self, eng, st, f, args, kwargs, node):
        if isinstance(f, C) and f.v == Ref('op', 'contains') and len(args) == 2 and all(isinstance(x, ZV) and x.ty == 'val' for x in args):
            return [(st, ZV(Z.contains_f(args[0].t, args[1].t), 'bool'))]
        return super().call(eng, st, f, args, kwargs, node)

    def on_exit(self, eng, o):
        a, b = z3.Const('container', Z.Val), z3.Const('item', Z.Val)
        if o.sig != RETURN:
            eng.oblige(o.st, "C03/not_contains/returns", z3.BoolVal(False))
            return
        eng.oblige(o.st, "C03/not_contains/is-the-complement-of-contains", eng.to_z3_bool(eng.truth(o.st, o.val)) == z3.Not(Z.contains_f(a, b)))

    def signature(self, ob, model):
        return {'truthy(container)': str(model.eval(Z.truthy(z3.Const('container', Z.Val)), model_completion=True))}


CONTRACTS = CONTRACTS + [NotContainsFn]
