"""Public entry points and the symbolic-mode machinery: An.evaluate, The.evaluate, The._evaluate_, symbolic_mode,
rule_mode (C04 exit paths, C06, C07(i), C08, C09).

Abstract state: the `_symbolic_mode` context variable (one cell: A5), the class-level expression stack (abstract
depth + top), and the ghost flag `dirty` = "evaluation state of the query (de-duplication sets, evaluation parents)
may be non-quiescent".  Obligations are generated at every suspension point and every exit (normal, abandoned at a
yield, exception out of user code)."""
from __future__ import annotations

import ast

import z3

from eqlvc import z as Z
from eqlvc.interp import (SV, ZV, C, D, Tup, Lst, Obj, Meth, Closure, Ref, NONE, TRUE, FALSE, State, Outcome,
                          OutOfSubset, NEXT, CONTINUE, BREAK, RETURN, RAISE, GENEXIT)
from eqlvc.libmodel import LibModel, base_modenv, init_fields, isa, str_const
from .interface import (EvalContract, child_shape, tree_shape, LeafIds, total, WD, lab, filt, Binds, TRUE_IDS, pre_I)
from .quantifiers import only_ids

Mode = z3.DeclareSort('Mode')
NoneMode, QueryMode, RuleMode = z3.Consts('NoneMode QueryMode RuleMode', Mode)
MODE_DISTINCT = z3.Distinct(NoneMode, QueryMode, RuleMode)


def as_mode(v: SV):
    if isinstance(v, ZV) and v.ty == 'mode':
        return v.t
    if isinstance(v, C) and v.v is None:
        return NoneMode
    if isinstance(v, C) and isinstance(v.v, Ref) and v.v.kind == 'enum':
        return {'EQLMode.Query': QueryMode, 'EQLMode.Rule': RuleMode}[v.v.name]
    raise OutOfSubset(f"not a mode: {v}")


class ModeMixin:
    """the real bodies of symbolic_mode / in_symbolic_mode / _set_symbolic_mode are executed; only the context variable
    and the expression stack are primitive"""

    def modenv(self):
        env = base_modenv()
        env['_symbolic_mode'] = C(Ref('const', 'modecell'))
        for f in ('in_symbolic_mode', '_set_symbolic_mode'):
            fd = self.src.get('symbolic:' + f)
            if fd is not None:
                env[f] = Closure(fd, {})
        for f in ('symbolic_mode', 'rule_mode'):
            env[f] = C(Ref('cm', f))
        return env

    def getattr(self, eng, st, recv, name):
        if isinstance(recv, C) and isinstance(recv.v, Ref) and recv.v.name == 'modecell':
            return [(st, Meth(recv, name))]
        if isinstance(recv, C) and isinstance(recv.v, Ref) and recv.v.kind == 'class' and recv.v.name == 'SymbolicExpression':
            if name == '_current_parent_':
                return [(st, C(Ref('func', 'current_parent')))]
            if name == '_symbolic_expression_stack_':
                return [(st, Obj('exprstack'))]
        return super().getattr(eng, st, recv, name)

    def truth_mode(self, v):
        return v.t != NoneMode

    def call(self, eng, st, f, args, kwargs, node):
        if isinstance(f, Meth) and isinstance(f.recv, C) and isinstance(f.recv.v, Ref) and f.recv.v.name == 'modecell':
            if f.name == 'get':
                return [(st, ZV(st.ghost['mode'], 'mode'))]
            if f.name == 'set':
                st = st.clone()
                st.ghost['mode'] = as_mode(args[0])
                return [(st, NONE)]
        if isinstance(f, C) and isinstance(f.v, Ref) and f.v.kind == 'cm':
            return [(st, Obj('cmcall', {'name': f.v.name, 'args': args, 'kwargs': kwargs}))]
        if isinstance(f, C) and isinstance(f.v, Ref) and f.v.name == 'current_parent':
            return [(st, ZV(st.ghost.get('stack_top', Z.NoneNode), 'optnode'))]
        return super().call(eng, st, f, args, kwargs, node)

    def compare(self, eng, st, op, a, b):
        def is_mode(x):
            return isinstance(x, ZV) and x.ty == 'mode'
        if (is_mode(a) or is_mode(b)) and isinstance(op, (ast.Eq, ast.NotEq, ast.Is, ast.IsNot)):
            r = as_mode(a) == as_mode(b)
            if isinstance(op, (ast.NotEq, ast.IsNot)):
                r = z3.Not(r)
            return ZV(r, 'bool')
        return super().compare(eng, st, op, a, b) if hasattr(super(), 'compare') else None

    # ---- `with <contextmanager call>:`  the real generator-based context manager is executed in place
    def with_stmt(self, eng, st, s: ast.With):
        if len(s.items) != 1:
            raise OutOfSubset("with several items", s)
        item = s.items[0]
        outs = []
        for s2, cm in eng.eval(item.context_expr, st):
            if not (isinstance(cm, Obj) and cm.kind == 'cmcall'):
                raise OutOfSubset(f"with on {cm}", s)
            outs.extend(self.run_cm(eng, s2, cm, item.optional_vars, s.body, s))
        return outs

    def run_cm(self, eng, st, cm, target, body, node):
        fd = self.src.get('symbolic:' + cm.data['name'])
        if fd is None:
            raise OutOfSubset(f"no source for context manager {cm.data['name']}", node)
        eng.notes.append(f"inlined-contextmanager:symbolic:{cm.data['name']}")
        params = [a.arg for a in fd.args.args]
        defaults = fd.args.defaults
        loc = {}
        ds = len(params) - len(defaults)
        args, kwargs = cm.data['args'], cm.data['kwargs']
        for i, p in enumerate(params):
            if i < len(args):
                loc[p] = args[i]
            elif p in kwargs:
                loc[p] = kwargs[p]
            elif i >= ds:
                dv = defaults[i - ds]
                if isinstance(dv, ast.Constant):
                    loc[p] = C(dv.value)
                elif isinstance(dv, ast.Attribute) and isinstance(dv.value, ast.Name):
                    loc[p] = C(Ref('enum', f"{dv.value.id}.{dv.attr}"))
                else:
                    raise OutOfSubset("default of context manager parameter", node)
            else:
                raise OutOfSubset(f"missing argument {p}", node)
        s2 = st.clone()
        saved_locals, saved_finals = s2.locals, s2.finals
        s2.locals, s2.finals = loc, []
        frames = list(s2.ghost.get('cm_frames', []))
        frames.append({'fd': fd, 'body': body, 'target': target, 'outer_locals': saved_locals, 'outer_finals': saved_finals})
        s2.ghost['cm_frames'] = frames
        outs = []
        for o in eng.exec_block(fd.body, s2):
            s3 = o.st.clone()
            fr = list(s3.ghost.get('cm_frames', []))
            # the frame is popped when the manager's function finishes
            if fr and fr[-1]['fd'] is fd:
                fr.pop()
            s3.ghost['cm_frames'] = fr
            s3.locals = s3.ghost.pop('with_locals', saved_locals)
            s3.finals = saved_finals
            if o.sig == RAISE and isinstance(o.val, tuple) and o.val[0] == 'body-exit':
                outs.append(Outcome(s3, o.val[1], o.val[2]))
            elif o.sig in (NEXT, RETURN):
                outs.append(Outcome(s3))
            else:
                outs.append(Outcome(s3, o.sig, o.val))
        return outs

    def cm_yield(self, eng, st, v, node):
        """the `yield` of a generator-based context manager: run the body of the with statement here"""
        fr = st.ghost['cm_frames'][-1]
        s2 = st.clone()
        cm_locals, cm_finals = s2.locals, s2.finals
        s2.locals = dict(fr['outer_locals'])
        s2.finals = []
        if fr['target'] is not None:
            s2 = eng.assign(fr['target'], v, s2)[0]
        outs = []
        for o in eng.exec_block(fr['body'], s2):
            s3 = o.st.clone()
            s3.ghost['with_locals'] = s3.locals       # the with body's view of the locals survives the manager's exit
            s3.locals, s3.finals = cm_locals, cm_finals
            # a non-local exit of the with body is thrown into the manager at its yield (finally blocks run) and
            # continues after the with statement; it is tagged so that it is not mistaken for the manager's own return
            outs.append(Outcome(s3, o.sig, o.val) if o.sig == NEXT else Outcome(s3, RAISE, ('body-exit', o.sig, o.val)))
        return outs

    def yield_outcomes(self, eng, st, v, ordinal, node):
        if self.is_cm_yield(st, node):
            return self.cm_yield(eng, st, v, node)
        return None

    def is_cm_yield(self, st, node):
        frames = st.ghost.get('cm_frames', [])
        if not frames:
            return False
        for x in ast.walk(frames[-1]['fd']):
            if x is node:
                return True
        return False


class TopLevel(ModeMixin, EvalContract):
    """base for An.evaluate / The.evaluate"""
    modes = ('sound',)
    track_abandon = True
    track_raises = True
    props = ()

    def shape_facts(self, n):
        return []

    def den(self, n, rho):
        return Z.Den(n, rho)

    def setup(self, eng):
        st = State()
        st.fields = init_fields()
        n = z3.Const('self', Z.Node)
        st.ghost['self'] = n
        st.ghost['caching'] = z3.Bool('caching')
        st.locals['self'] = ZV(n, 'node')
        m0 = z3.Const('mode_at_call', Mode)
        st.ghost['mode'] = m0
        st.ghost['resume_mode'] = m0
        st.ghost['dirty'] = z3.BoolVal(False)
        st.ghost['sigma0'] = Z.ZMap.empty()
        st.ghost['sigma_now'] = st.ghost['sigma0']
        st.ghost['filt_self'] = z3.BoolVal(True)
        st.assume(MODE_DISTINCT, z3.Select(Z.SubIds(n), Z.nid(n)), n != Z.NoneNode, *self.shape_facts(n))
        # the empty binding is legitimate for every node (pointwise definition of good_row)
        st.assume(Z.good_row(n, Z.ZMap.empty()))
        st.ghost['goodfacts'] = [(n, Z.ZMap.empty())]
        return [st]

    # evaluation of the query itself: the interface contract of the node's own class
    def check_callee_pre(self, eng, st, c, sig, line, tag):
        eng.oblige(st, f"C09/pre@call{tag}.L{line}/mode-is-None", st.ghost['mode'] == NoneMode, line=line)
        st.assume(st.ghost['mode'] == NoneMode)
        st.assume(pre_I(c, sig))

    def node__reset_cache_(self, eng, st, recv, args, kwargs, node):
        st = st.clone()
        st.ghost['dirty'] = z3.BoolVal(False)
        return [(st, NONE)]

    def mark_dirty(self, st):
        st.ghost['dirty'] = z3.BoolVal(True)

    def havoc_for_loop(self, eng, st, body, **kw):
        h = super().havoc_for_loop(eng, st, body, **kw)
        if any(isinstance(x, (ast.Yield, ast.YieldFrom)) for b in body for x in ast.walk(b)):
            # an earlier iteration may have suspended: the caller may have changed the mode before resuming
            again = z3.FreshConst(z3.BoolSort(), 'resumed_before')
            m = z3.FreshConst(Mode, 'mode_at_resume')
            h.ghost['mode'] = z3.If(again, m, st.ghost['mode'])
            h.ghost['resume_mode'] = z3.If(again, m, st.ghost['resume_mode'])
        return h

    def exit_obligations(self, eng, st, kind):
        eng.oblige(st, f"C08/exit@{kind}/mode-as-at-last-resume", st.ghost['mode'] == st.ghost['resume_mode'])
        eng.oblige(st, f"C04/exit@{kind}/evaluation-state-reset", z3.Not(st.ghost['dirty']))

    def on_exit(self, eng, o):
        st = o.st
        if o.sig in (NEXT, RETURN):
            self.exit_obligations(eng, st, 'normal')
        elif o.sig == GENEXIT:
            self.exit_obligations(eng, st, 'abandoned')
        elif o.sig == RAISE:
            nm = o.val.v.name if isinstance(o.val, C) and isinstance(o.val.v, Ref) else str(o.val)
            self.exit_obligations(eng, st, f"exception:{nm}")

    def signature(self, ob, model):
        def ev(t):
            return str(model.eval(t, model_completion=True))
        return {'mode_at_call': ev(z3.Const('mode_at_call', Mode))}


class AnEvaluate(TopLevel):
    """symbolic.An.evaluate (inherited by Infer)."""
    qual = 'symbolic:An.evaluate'
    cls = 'An'
    props = ('C01', 'C04', 'C07', 'C08', 'C09', 'C19', 'C14')   # C14: 'symbolic construction' is what the user's block says (mode confinement)
    inline = ('_process_result_', '_next_result_')
    trusted = ("_reset_cache_ re-establishes the quiescent state of the whole expression graph (contract ResetCache)",
               "_process_result_ of a SetOf descriptor (UnificationDict construction) is not interpreted")

    def shape_facts(self, n):
        c = Z.f_child(n)
        v = Z.f_var(n)
        return child_shape(n, c) + [isa(str_const('Entity'), c), v != Z.NoneNode, z3.Select(Binds(n), Z.nid(v)),
                                    Z.truth_node(n)]

    def setup(self, eng):
        sts = super().setup(eng)
        # C07(i): calling evaluate() does no work: it is a generator function (its body starts at the first next())
        is_gen = any(isinstance(x, (ast.Yield, ast.YieldFrom)) for x in ast.walk(eng.fdef))
        eng.oblige(sts[0], "C07/evaluate-is-a-generator-function", z3.BoolVal(is_gen))
        return sts

    def getattr(self, eng, st, recv, name):
        if isinstance(recv, ZV) and recv.ty in ('node', 'optnode') and name == 'selected_variable':
            return [(st, ZV(Z.f_var(st.ghost['self']), 'node'))]      # Entity.selected_variable is An._var_ (__post_init__)
        return super().getattr(eng, st, recv, name)

    def f_isinstance(self, eng, st, args, kwargs, node):
        return super().f_isinstance(eng, st, args, kwargs, node)

    # ---- iter(callable, sentinel) and next(stream, default)
    def f_iter(self, eng, st, args, kwargs, node):
        if len(args) == 2:
            return [(st, Obj('calliter', {'fn': args[0], 'sentinel': args[1]}))]
        raise OutOfSubset("iter() with one argument", node)

    def f_next(self, eng, st, args, kwargs, node):
        s = args[0]
        if not (isinstance(s, Obj) and s.kind == 'stream'):
            raise OutOfSubset("next() argument", node)
        dflt = args[1] if len(args) > 1 else None
        c = s.data['node']
        sig, sref = self.sigma_of(eng, st, s)
        st = st.clone()
        self.mark_dirty(st)
        # the evaluators run now: they require mode None (C09); user code inside may raise (A10)
        eng.oblige(st, "C09/pull/mode-is-None", st.ghost['mode'] == NoneMode, line=node.lineno)
        e = st.clone()
        e.path.append('user-code-raises')
        eng.pending_raises.append(Outcome(e, RAISE, C(Ref('exc', 'UserCodeError'))))
        for fld, ite in (('is_false', Z.ITE_B), ('ywf', Z.ITE_B), ('eval_parent', Z.ITE_N)):
            st.fields[fld] = Z.havoc_sub(st.fields[fld], c, ite)
        outs = []
        b = st.clone()
        row = eng.new_dict(b, Z.ZMap.fresh('nrow'))
        super().assume_row(b, c, sig, s.data['ywf'], b.dicts[row.ref], filt(c, b.fields['eval_parent']))
        b.path.append('next:row')
        b.ghost['pending_row'] = True       # a solution has been computed: it has to be handed out
        outs.append((b, row))
        x = st.clone()
        x.path.append('next:exhausted')
        if dflt is None:
            eng.pending_raises.append(Outcome(x, RAISE, C(Ref('exc', 'StopIteration'))))
        else:
            outs.append((x, dflt))
        return outs

    def obj_stream_close(self, eng, st, recv, args, kwargs, node):
        return [(st, NONE)]       # closing the inner generators runs their finally blocks (evaluation parents restored)

    def abstract_loop(self, eng, st, s, it, ordinal):
        if isinstance(it, Obj) and it.kind == 'calliter':
            return self.loop_calliter(eng, st, s.target, s.body, it, ordinal, s)
        return super().abstract_loop(eng, st, s, it, ordinal)

    def loop_calliter(self, eng, st, target, body, it, ordinal, node):
        """for x in iter(f, sentinel): every iteration calls f(); the loop ends when it returns the sentinel"""
        if not (isinstance(it.data['sentinel'], C) and it.data['sentinel'].v is None):
            raise OutOfSubset("iter(f, sentinel) with a sentinel other than None", node)

        def iteration(h, witness=False):
            res = []
            mark = len(eng.pending_raises)
            called = eng.call(h, it.data['fn'], [], {}, node)
            res.extend(eng.pending_raises[mark:])
            del eng.pending_raises[mark:]
            for s2, v in called:
                if isinstance(v, C) and v.v is None:
                    res.append(Outcome(s2, 'loop-ends'))
                    continue
                if isinstance(v, ZV) and v.ty == 'val':
                    # iter(f, None) compares what f returned with the sentinel: a user value may be None
                    e2 = s2.clone()
                    e2.assume(v.t == Z.NoneVal)
                    e2.path.append('value-equals-sentinel')
                    res.append(Outcome(e2, 'loop-ends'))
                for s3 in eng.assign(target, v, s2):
                    s3.ghost['current_row'] = v
                    res.extend(eng.exec_block(body, s3))
            return res
        mutated = self.scout_mutations(eng, st, body, iteration)
        h = self.havoc_for_loop(eng, st, body, extra_refs=mutated)
        outs = []
        for o in iteration(h):
            if o.sig in (NEXT, CONTINUE):
                pass
            elif o.sig in (BREAK, 'loop-ends'):
                eng.oblige(o.st, "C01/every-computed-solution-is-handed-out", z3.BoolVal(not o.st.ghost.get('pending_row', False)))
                outs.append(Outcome(o.st))
            else:
                outs.append(o)
        return outs

    def f_map(self, eng, st, args, kwargs, node):
        fn, it = args
        return [(st, Obj('mapped', {'fn': fn, 'it': it}))]

    def node__evaluate__(self, eng, st, recv, args, kwargs, node):
        r = super().node__evaluate__(eng, st, recv, args, kwargs, node)
        return r

    def yield_from(self, eng, st, src, ordinal, node):
        if isinstance(src, Obj) and src.kind == 'calliter':
            # yield from iter(f, None)  ==  for r in iter(f, None): yield r
            tgt = ast.Name(id='__item', ctx=ast.Store())
            y = ast.Yield(value=ast.Name(id='__item', ctx=ast.Load()))
            eng.yield_ordinals[id(y)] = ordinal
            body = [ast.Expr(value=y)]
            for b in body:
                for x in ast.walk(b):
                    ast.copy_location(x, node)
            return self.loop_calliter(eng, st, tgt, body, src, 100 + ordinal, node)
        if isinstance(src, Obj) and src.kind == 'mapped':
            # yield from map(f, stream)  ==  for r in stream: yield f(r)
            tgt = ast.Name(id='__row', ctx=ast.Store())
            call = ast.Call(func=ast.Name(id='__fn', ctx=ast.Load()), args=[ast.Name(id='__row', ctx=ast.Load())], keywords=[])
            y = ast.Yield(value=call)
            eng.yield_ordinals[id(y)] = ordinal
            body = [ast.Expr(value=y)]
            for b in body:
                for x in ast.walk(b):
                    ast.copy_location(x, node)
            st = st.clone()
            st.locals['__fn'] = src.data['fn']
            return self.loop_stream(eng, st, tgt, body, src.data['it'], 100 + ordinal, node)
        return super().yield_from(eng, st, src, ordinal, node)

    def loop_stream(self, eng, st, target, body, stream, ordinal, node):
        # pulling from the evaluation touches the evaluation state and may raise out of user code (A10)
        st = st.clone()
        outs = []
        e = st.clone()
        self.mark_dirty(e)
        e.path.append('user-code-raises')
        outs.append(Outcome(e, RAISE, C(Ref('exc', 'UserCodeError'))))
        self.mark_dirty(st)
        outs.extend(super().loop_stream(eng, st, target, body, stream, ordinal, node))
        return outs

    def assume_row(self, st, c, sig, f, R, filt_c=None):
        # every pull runs the evaluators: they require mode None (C09), whatever happened since the last resume
        if not self.eng.scouting:
            self.eng.oblige(st, "C09/pull/mode-is-None", st.ghost['mode'] == NoneMode)
        return super().assume_row(st, c, sig, f, R, filt_c)

    def on_yield(self, eng, st, v, ordinal, node):
        st = st.clone()
        st.ghost['pending_row'] = False
        # C08: at a suspension point the caller sees the mode it had when it last resumed the iterator
        eng.oblige(st, f"C08/suspend@yield#{ordinal}/mode-as-at-last-resume", st.ghost['mode'] == st.ghost['resume_mode'],
                   line=node.lineno)
        # glue for C01: the value handed out is the selected variable's binding of the current row
        row = st.locals.get('__row') or st.ghost.get('current_row')
        n = st.ghost['self']
        if isinstance(row, D) and isinstance(v, ZV) and v.ty == 'val':
            eng.oblige(st, f"C01/value@yield#{ordinal}/is-selected-binding-of-row",
                       v.t == Z.hv_value(st.dicts[row.ref].get(Z.nid(Z.f_var(n)))), line=node.lineno)
        else:
            eng.oblige(st, f"C01/value@yield#{ordinal}/is-selected-binding-of-row", z3.BoolVal(False), line=node.lineno)
        eng.oblige(st, f"cover@yield#{ordinal}", z3.BoolVal(True), kind='cover', line=node.lineno)
        # resumed later: the caller may have entered / left blocks meanwhile
        m = z3.FreshConst(Mode, 'mode_at_resume')
        st.ghost['mode'] = m
        st.ghost['resume_mode'] = m
        return [st]


CONTRACTS = [AnEvaluate]


class TheEvaluate(TopLevel):
    """symbolic.The.evaluate"""
    qual = 'symbolic:The.evaluate'
    cls = 'The'
    props = ('C04', 'C06', 'C08', 'C09', 'C14')
    inline = ('_process_result_',)
    var_optional = True
    trusted = ("The._evaluate_ satisfies its contract (TheEvaluateHelper): returns the unique row / raises",
               "_process_result_ of a SetOf descriptor (UnificationDict construction) is not interpreted")

    def shape_facts(self, n):
        c = Z.f_child(n)
        v = Z.f_var(n)
        return child_shape(n, c) + [isa(str_const('Entity'), c), v != Z.NoneNode, Z.truth_node(n)]

    def getattr(self, eng, st, recv, name):
        if isinstance(recv, ZV) and recv.ty in ('node', 'optnode') and name == 'selected_variable':
            return [(st, ZV(Z.f_var(st.ghost['self']), 'node'))]
        return super().getattr(eng, st, recv, name)

    def node__evaluate_(self, eng, st, recv, args, kwargs, node):
        """contract of The._evaluate_: requires mode None (its evaluators run now); returns the unique solution row
        (binding the selected variable) or raises NoSolutionFound / MultipleSolutionFound / whatever user code raises"""
        st = st.clone()
        eng.oblige(st, "C09/pre@call._evaluate_/mode-is-None", st.ghost['mode'] == NoneMode, line=node.lineno)
        self.mark_dirty(st)
        for exc in ('NoSolutionFound', 'MultipleSolutionFound', 'UserCodeError'):
            e = st.clone()
            e.path.append('raises:' + exc)
            eng.pending_raises.append(Outcome(e, RAISE, C(Ref('exc', exc))))
        row = eng.new_dict(st, Z.ZMap.fresh('therow'))
        st.assume(st.dicts[row.ref].contains(Z.nid(Z.f_var(recv.t))))
        return [(st, row)]

    def on_exit(self, eng, o):
        if o.sig == RETURN and isinstance(o.val, ZV) and o.val.ty == 'val':
            eng.oblige(o.st, "C06/returns-the-selected-binding", z3.BoolVal(True))
        elif o.sig == RETURN:
            eng.oblige(o.st, "C06/returns-the-selected-binding", z3.BoolVal(False))
        super().on_exit(eng, o)


class TheEvaluateHelper(TopLevel):
    """symbolic.The._evaluate_ (C06): with k = number of rows of the descriptor's stream:
    k = 0 -> NoSolutionFound (or sigma when false rows were requested), k = 1 -> that row, k >= 2 -> MultipleSolutionFound;
    independent of what earlier evaluations left in the node's flags."""
    qual = 'symbolic:The._evaluate_'
    cls = 'The'
    props = ('C06', 'C15')
    var_optional = True
    track_abandon = False

    def shape_facts(self, n):
        c = Z.f_child(n)
        v = Z.f_var(n)
        return child_shape(n, c) + [Z.truth_node(n), Z.truth_node(c),
                                    z3.Implies(v != Z.NoneNode, z3.And(z3.Select(Binds(c), Z.nid(v)), Z.nid(v) != Z.nid(n)))]

    def setup(self, eng):
        sts = super().setup(eng)
        out = []
        for st in sts:
            n = st.ghost['self']
            st.ghost['mode'] = NoneMode
            st.ghost['resume_mode'] = NoneMode
            f = z3.Bool('ywf_arg')
            st.locals['yield_when_false'] = ZV(f, 'bool')
            st.ghost['ywf_arg'] = f
            for case in ('none', 'dict'):
                s2 = st.clone()
                s2.path.append('sources=' + case)
                if case == 'none':
                    s2.locals['sources'] = NONE
                else:
                    sig = Z.ZMap.fresh('sigma')
                    d = eng.new_dict(s2, sig)
                    s2.locals['sources'] = d
                    s2.ghost['sigma_ref'] = d.ref
                    s2.ghost['sigma0'] = sig
                    s2.ghost['sigma_now'] = sig
                    s2.assume(pre_I(n, sig))
                out.append(s2)
        return out

    def check_callee_pre(self, eng, st, c, sig, line, tag):
        st.assume(pre_I(c, sig))

    def loop_stream(self, eng, st, target, body, stream, ordinal, node):
        return EvalContract.loop_stream(self, eng, st, target, body, stream, ordinal, node)

    def assume_row(self, st, c, sig, f, R, filt_c=None):
        return EvalContract.assume_row(self, st, c, sig, f, R, filt_c)

    def havoc_for_loop(self, eng, st, body, **kw):
        h = EvalContract.havoc_for_loop(self, eng, st, body, **kw)
        itd = kw.get('iterated')
        # the first-row accumulator: the one local that is None when the loop is reached and that the loop body assigns
        # (called `result` in the source; found structurally, not by name)
        cands = [nm for nm in eng.written_names(body) if isinstance(st.locals.get(nm), C) and st.locals[nm].v is None]
        acc = cands[0] if len(cands) == 1 else None
        was = st.locals.get(acc) if acc else None
        if isinstance(was, C) and was.v is None and itd is not None:
            h.ghost['acc_name'] = acc
            # `result` is None until the first row, then that row (merged with sigma)
            row = eng.new_dict(h, Z.ZMap.fresh('firstrow'))
            c = kw.get('callee')
            if c is not None:
                # it was a row of the descriptor's stream, merged with sigma
                R = Z.ZMap.fresh('firstR')
                sig = h.ghost['sigma_now']
                EvalContract.assume_row(self, h, c, sig, z3.BoolVal(False), R, None)
                h.assume(h.dicts[row.ref].extends(R.merge(sig)), R.merge(sig).extends(h.dicts[row.ref]))
            h.locals[acc] = Obj('optrow', {'isnone': z3.Not(itd), 'row': row})
            h.ghost['first_row'] = row.ref
            h.ghost['result_at_loop_head'] = z3.Not(itd)
        return h

    def compare(self, eng, st, op, a, b):
        if isinstance(op, (ast.Is, ast.IsNot)):
            x, y = (a, b) if isinstance(a, Obj) else (b, a)
            if isinstance(x, Obj) and x.kind == 'optrow' and isinstance(y, C) and y.v is None:
                r = x.data['isnone']
                return ZV(z3.Not(r) if isinstance(op, ast.IsNot) else r, 'bool')
        return super().compare(eng, st, op, a, b)

    def setitem(self, eng, st, recv, k, v):
        if isinstance(recv, Obj) and recv.kind == 'optrow':
            eng.oblige(st, "safe/result-is-not-None", z3.Not(recv.data['isnone']))
            return eng.assign(ast.Subscript(value=ast.Name(id='__optrow', ctx=ast.Load()), slice=ast.Name(id='__k', ctx=ast.Load()),
                                            ctx=ast.Store()), v,
                              self._with(st, {'__optrow': recv.data['row'], '__k': k}))
        return None

    @staticmethod
    def _with(st, extra):
        s = st.clone()
        s.locals.update(extra)
        return s

    def subscript(self, eng, st, recv, k):
        if isinstance(recv, Obj) and recv.kind == 'optrow':
            eng.oblige(st, "safe/result-is-not-None", z3.Not(recv.data['isnone']))
            return eng.subscript(st, recv.data['row'], k, ast.Constant(value=0, lineno=0))
        return super().subscript(eng, st, recv, k)

    def on_iteration_end(self, eng, st, ordinal):
        # a second row must not be swallowed: an iteration that completes normally started without a result
        res0 = st.ghost.get('result_at_loop_head')
        if res0 is not None:
            eng.oblige(st, "C06/second-solution-raises", res0)

    def on_exit(self, eng, o):
        st = o.st
        itd = None
        for p in st.pc:
            pass
        res = st.locals.get(st.ghost.get('acc_name', 'result'))
        f = st.ghost['ywf_arg']
        n = st.ghost['self']
        bound = st.ghost['sigma0'].contains(Z.nid(n))
        if o.sig == RETURN:
            v = o.val
            if isinstance(v, Obj) and v.kind == 'optrow':
                # returned the (possibly missing) first row
                eng.oblige(st, "C06/returns-only-a-found-solution", z3.Or(z3.Not(v.data['isnone']), bound, f))
                row = st.dicts[v.data['row'].ref]
                var = Z.f_var(n)
                eng.oblige(st, "C15/own-id-re-exports-the-selected-binding",
                           z3.Implies(z3.And(var != Z.NoneNode, z3.Not(v.data['isnone'])),
                                      z3.And(row.contains(Z.nid(n)), row.get(Z.nid(n)) == row.get(Z.nid(var)))))
            elif isinstance(v, D):
                # `sources` handed back: only when already bound, or when false rows were requested and none was found
                # (or the stream's only row was that very object, R8)
                found = z3.BoolVal(v.ref == st.ghost.get('alias_row_ref'))
                eng.oblige(st, "C06/returns-only-a-found-solution", z3.Or(bound, f, found))
            else:
                eng.oblige(st, "C06/returns-only-a-found-solution", z3.BoolVal(False))
        elif o.sig == RAISE:
            nm = o.val.v.name if isinstance(o.val, C) and isinstance(o.val.v, Ref) else str(o.val)
            if nm == 'NoSolutionFound':
                # only when the stream delivered no row at all
                isnone = res.data['isnone'] if isinstance(res, Obj) and res.kind == 'optrow' else z3.BoolVal(True)
                eng.oblige(st, "C06/NoSolutionFound-only-without-solution", isnone)
            elif nm == 'MultipleSolutionFound':
                eng.oblige(st, "C06/MultipleSolutionFound-only-on-second-row", z3.BoolVal(True))
            else:
                eng.oblige(st, f"C06/unexpected-exception:{nm}", z3.BoolVal(False))

    def signature(self, ob, model):
        def ev(t):
            return str(model.eval(t, model_completion=True))
        n = z3.Const('self', Z.Node)
        return {'is_false_before': ev(z3.Select(z3.Const('is_false0', Z.ArrNB), n)), 'ywf': ev(z3.Bool('ywf_arg')),
                'has_selected_variable': ev(Z.f_var(n) != Z.NoneNode)}


CONTRACTS += [TheEvaluate, TheEvaluateHelper]


NodeSeq = z3.SeqSort(Z.Node)


class StackMixin:
    """SymbolicExpression._symbolic_expression_stack_ (class-level list) as a z3 sequence of nodes"""

    def obj_exprstack_append(self, eng, st, recv, args, kwargs, node):
        st = st.clone()
        st.ghost['stack'] = z3.Concat(st.ghost['stack'], z3.Unit(ModeMixinNode(args[0])))
        return [(st, NONE)]

    def obj_exprstack_pop(self, eng, st, recv, args, kwargs, node):
        st = st.clone()
        s = st.ghost['stack']
        eng.oblige(st, f"safe/pop-from-non-empty-stack@L{node.lineno}", z3.Length(s) > 0, line=node.lineno)
        st.ghost['stack'] = z3.Extract(s, 0, z3.Length(s) - 1)
        return [(st, NONE)]


def ModeMixinNode(v):
    if isinstance(v, ZV) and v.ty in ('node', 'optnode'):
        return v.t
    raise OutOfSubset(f"push of {v}")


def _own_nodes(fd, include_self=False):
    """the nodes of a function body that belong to the function itself (nested function / lambda / class bodies excluded)"""
    stack = [fd] if include_self else list(ast.iter_child_nodes(fd))
    while stack:
        x = stack.pop()
        yield x
        if isinstance(x, (ast.FunctionDef, ast.AsyncFunctionDef, ast.Lambda, ast.ClassDef)) and x is not fd:
            continue
        stack.extend(ast.iter_child_nodes(x))


class SymbolicModeCM(StackMixin, ModeMixin, LibModel):
    """symbolic.symbolic_mode (a generator based context manager) and, through it, rule_mode (C08):
    whatever way the block is left (normally or by an exception), the mode cell and the expression stack are exactly
    what they were when the block was entered.  The body of the block is arbitrary but balanced (nested blocks
    satisfy this same contract: induction on the nesting depth, A9)."""
    qual = 'symbolic:symbolic_mode'
    cls = None
    props = ('C08',)
    modes = ('sound',)
    cm_name = 'symbolic_mode'
    inline = ()

    def setup(self, eng):
        sts = []
        for with_query in (False, True):
            st = State()
            st.fields = init_fields()
            st.path.append('query=' + ('given' if with_query else 'None'))
            m0 = z3.Const('mode_at_entry', Mode)
            s0 = z3.Const('stack_at_entry', NodeSeq)
            st.ghost.update({'mode': m0, 'mode0': m0, 'stack': s0, 'stack0': s0})
            st.assume(MODE_DISTINCT)
            q = z3.Const('query', Z.Node)
            st.assume(q != Z.NoneNode)
            st.locals['query'] = ZV(q, 'node') if with_query else NONE
            st.locals['mode'] = ZV(z3.Const('mode_arg', Mode), 'mode')
            st.ghost['cm_under_proof'] = True
            sts.append(st)
        return sts

    def getattr(self, eng, st, recv, name):
        if isinstance(recv, ZV) and recv.ty == 'node' and name in ('__enter__', '__exit__'):
            return [(st, Meth(recv, name))]
        if isinstance(recv, ZV) and recv.ty == 'node' and name in ('_root_',):
            return [(st, ZV(z3.Function('root_of', Z.Node, Z.Node)(recv.t), 'node'))]
        return super().getattr(eng, st, recv, name)

    def call(self, eng, st, f, args, kwargs, node):
        if isinstance(f, Meth) and isinstance(f.recv, ZV) and f.recv.ty == 'node' and f.name in ('__enter__', '__exit__'):
            q = self.src.resolve_method('SymbolicExpression', f.name)
            return self.inline_method(eng, st, q, f.recv, [a for a in args if not (isinstance(a, Obj) and a.kind == 'star')], kwargs, node)
        if isinstance(f, C) and isinstance(f.v, Ref) and f.v.name == 'current_parent':
            s = st.ghost['stack']
            return [(st, ZV(z3.If(z3.Length(s) > 0, s[z3.Length(s) - 1], Z.NoneNode), 'optnode'))]
        return super().call(eng, st, f, args, kwargs, node)

    def obj_truth(self, eng, st, v):
        if v.kind == 'exprstack':
            return z3.Length(st.ghost['stack']) > 0
        return None

    def subscript(self, eng, st, recv, k):
        if isinstance(recv, Obj) and recv.kind == 'exprstack' and isinstance(k, C) and k.v == -1:
            s = st.ghost['stack']
            return [(st, ZV(s[z3.Length(s) - 1], 'node'))]
        return None

    def yield_outcomes(self, eng, st, v, ordinal, node):
        if self.is_cm_yield(st, node):
            return self.cm_yield(eng, st, v, node)
        # the yield of the manager under proof: the block runs here; it is balanced, and it may raise
        a = st.clone()
        a.path.append('block:completes')
        b = st.clone()
        b.path.append('block:raises')
        c = st.clone()
        c.path.append('block:raises-a-BaseException')        # KeyboardInterrupt, SystemExit, GeneratorExit: not an Exception
        return [Outcome(a), Outcome(b, RAISE, C(Ref('exc', 'ExceptionInBlock'))), Outcome(c, RAISE, C(Ref('exc', 'KeyboardInterrupt')))]

    def on_yield(self, eng, st, v, ordinal, node):
        raise OutOfSubset("unexpected yield")

    def suspended_mode_blocks(self):
        """generator functions of the package (other than the context managers themselves) in which a
        `with symbolic_mode(..)/rule_mode(..)` block contains a yield, or that set the mode cell directly: an iterator
        suspended (or abandoned, or closed later from another block) there holds a mode block open, so leaving it writes a
        stale mode into whatever block is active then"""
        if getattr(self, '_smb', None) is None:
            bad = []
            for q, fd in self.src.funcs.items():
                decos = [d.id if isinstance(d, ast.Name) else getattr(d, 'attr', '') for d in fd.decorator_list]
                if 'contextmanager' in decos:
                    continue
                own = [x for x in _own_nodes(fd)]
                if not any(isinstance(x, (ast.Yield, ast.YieldFrom)) for x in own):
                    continue
                for x in own:
                    if isinstance(x, ast.With) and any(
                            isinstance(it.context_expr, ast.Call) and isinstance(it.context_expr.func, ast.Name)
                            and it.context_expr.func.id in ('symbolic_mode', 'rule_mode') for it in x.items):
                        if any(isinstance(y, (ast.Yield, ast.YieldFrom)) for b in x.body for y in _own_nodes(b, include_self=True)):
                            bad.append(f"{q}@L{x.lineno}")
                    if isinstance(x, ast.Call) and isinstance(x.func, ast.Name) and x.func.id == '_set_symbolic_mode':
                        bad.append(f"{q}@L{x.lineno}:_set_symbolic_mode")
            self._smb = bad
        return self._smb

    def on_exit(self, eng, o):
        kind = {NEXT: 'normal', RETURN: 'normal', RAISE: 'exception'}.get(o.sig, o.sig)
        if o.sig == RAISE and isinstance(o.val, C) and isinstance(o.val.v, Ref) and o.val.v.name != 'ExceptionInBlock':
            kind = 'exception:' + o.val.v.name
        if o.sig == RAISE and isinstance(o.val, C) and isinstance(o.val.v, Ref) and o.val.v.name == 'KeyboardInterrupt':
            kind = 'base-exception'
        eng.oblige(o.st, "C08/no-generator-of-the-package-suspends-inside-a-mode-block", z3.BoolVal(not self.suspended_mode_blocks()))
        eng.oblige(o.st, f"C08/exit@{kind}/mode-restored", o.st.ghost['mode'] == o.st.ghost['mode0'])
        eng.oblige(o.st, f"C08/exit@{kind}/expression-stack-restored", o.st.ghost['stack'] == o.st.ghost['stack0'])

    def signature(self, ob, model):
        return {}


class RuleModeCM(SymbolicModeCM):
    qual = 'symbolic:rule_mode'
    cm_name = 'rule_mode'


class ExprEnter(StackMixin, ModeMixin, LibModel):
    """SymbolicExpression.__enter__ (`with <expression>:`): exactly one node is pushed on the expression-context stack and
    the expression itself is returned (C08; C12: the attachment point of rules)"""
    qual = 'symbolic:SymbolicExpression.__enter__'
    cls = 'SymbolicExpression'
    props = ('C08', 'C12')
    modes = ('sound',)

    def modenv(self):
        env = super().modenv()
        env['EQLMode'] = C(Ref('module', 'EQLMode'))
        return env

    def setup(self, eng):
        sts = []
        for flag in (False, True):
            st = State()
            st.fields = init_fields()
            n = z3.Const('self', Z.Node)
            st.ghost['self'] = n
            st.locals['self'] = ZV(n, 'node')
            st.locals['in_rule_mode'] = C(flag)
            m0 = z3.Const('mode_at_entry', Mode)
            s0 = z3.Const('stack_at_entry', NodeSeq)
            st.ghost.update({'mode': m0, 'mode0': m0, 'stack': s0, 'stack0': s0})
            st.assume(MODE_DISTINCT, n != Z.NoneNode)
            st.path.append(f"in_rule_mode={flag}")
            sts.append(st)
        return sts

    def getattr(self, eng, st, recv, name):
        if isinstance(recv, ZV) and recv.ty in ('node', 'optnode') and name in ('_root_', '_conditions_root_', '_parent_'):
            return [(st, ZV(z3.Function(name.strip('_') + '_of', Z.Node, Z.Node)(recv.t), 'node'))]
        return super().getattr(eng, st, recv, name)

    def on_exit(self, eng, o):
        st = o.st
        if o.sig != RETURN:
            eng.oblige(st, "C08/enter/returns", z3.BoolVal(False))
            return
        s0, s1 = st.ghost['stack0'], st.ghost['stack']
        eng.oblige(st, "C08/enter/pushes-exactly-one-node", z3.And(z3.Length(s1) == z3.Length(s0) + 1, z3.PrefixOf(s0, s1)))
        eng.oblige(st, "C08/enter/returns-the-expression-itself", z3.BoolVal(isinstance(o.val, ZV)) if not isinstance(o.val, ZV)
                   else o.val.t == st.ghost['self'])
        eng.oblige(st, "C08/enter/mode-untouched", st.ghost['mode'] == st.ghost['mode0'])

    def signature(self, ob, model):
        return {}


class ExprExit(StackMixin, ModeMixin, LibModel):
    """SymbolicExpression.__exit__(exc_type, exc, tb): the entry pushed by __enter__ is popped however the block was left
    (with or without an exception); the exception is not swallowed"""
    qual = 'symbolic:SymbolicExpression.__exit__'
    cls = 'SymbolicExpression'
    props = ('C08', 'C12')
    modes = ('sound',)

    def setup(self, eng):
        sts = []
        fd = eng.fdef
        for exc in (False, True):
            st = State()
            st.fields = init_fields()
            n = z3.Const('self', Z.Node)
            st.ghost['self'] = n
            st.locals['self'] = ZV(n, 'node')
            triple = [C(Ref('exc', 'SomeError')), Obj('excvalue', {}), Obj('traceback', {})] if exc else [NONE, NONE, NONE]
            if fd.args.vararg is not None:
                st.locals[fd.args.vararg.arg] = Tup(list(triple))
            for a, v in zip([a.arg for a in fd.args.args][1:], triple):
                st.locals[a] = v
            m0 = z3.Const('mode_at_entry', Mode)
            s0 = z3.Const('stack_at_entry', NodeSeq)
            st.ghost.update({'mode': m0, 'mode0': m0, 'stack': s0, 'stack0': s0, 'exc': exc})
            st.assume(MODE_DISTINCT, z3.Length(s0) > 0)       # __enter__ pushed one entry (its contract)
            st.path.append(f"left-by-exception={exc}")
            sts.append(st)
        return sts

    def on_exit(self, eng, o):
        st = o.st
        if o.sig not in (RETURN, NEXT):
            eng.oblige(st, "C08/exit/returns", z3.BoolVal(False))
            return
        s0, s1 = st.ghost['stack0'], st.ghost['stack']
        eng.oblige(st, "C08/exit/pops-exactly-the-entry-pushed-on-entry", s1 == z3.Extract(s0, 0, z3.Length(s0) - 1))
        eng.oblige(st, "C08/exit/mode-untouched", st.ghost['mode'] == st.ghost['mode0'])
        swallowed = eng.truth(st, o.val) if o.sig == RETURN and o.val is not None else False
        eng.oblige(st, "C08/exit/does-not-swallow-the-exception", z3.Not(eng.to_z3_bool(swallowed)))

    def signature(self, ob, model):
        return {}


class AddConclusion(LibModel):
    """SymbolicExpression._add_conclusion_(conclusion) - called by every Conclusion when it is attached to a node of a query
    (C12): the conclusion joins the node's own set, and the query it now belongs to - the description below the root
    quantifier, or the root itself if it is a description - is a rule description from then on (rule_mode): its selected
    variable is bound by the conclusions only, so a row for which no conclusion is drawn (drawn before for the same binding
    of its variables) contributes nothing instead of ranging over the registry.  Nothing else is written: a rule block that
    adds no conclusion leaves the query as it was."""
    qual = 'symbolic:SymbolicExpression._add_conclusion_'
    cls = 'SymbolicExpression'
    props = ('C12',)
    modes = ('sound',)
    trusted = ("set.add adds one element (A6); _root_ is the root of the expression graph the node is in",)

    def modenv(self):
        env = base_modenv()
        return env

    def setup(self, eng):
        st = State()
        st.fields = init_fields()
        self.n = z3.Const('self', Z.Node)
        st.locals['self'] = ZV(self.n, 'node')
        st.ghost['self'] = self.n
        st.locals['conclusion'] = ZV(z3.Const('conclusion', Z.Node), 'node')
        st.ghost['added'] = []
        st.ghost['marked'] = []
        st.ghost['other_writes'] = []
        return [st]

    def getattr(self, eng, st, recv, name):
        if isinstance(recv, ZV) and recv.ty in ('node', 'optnode') and name == '_root_':
            return [(st, ZV(z3.Function('root_of', Z.Node, Z.Node)(recv.t), 'node'))]
        if isinstance(recv, ZV) and recv.ty in ('node', 'optnode') and name == '_conclusion_':
            return [(st, Obj('conclusions_of', {'of': recv.t}))]
        if isinstance(recv, Obj) and recv.kind == 'conclusions_of':
            return [(st, Meth(recv, name))]
        return super().getattr(eng, st, recv, name)

    def obj_conclusions_of_add(self, eng, st, recv, args, kwargs, node):
        st = st.clone()
        st.ghost['added'] = st.ghost['added'] + [(recv.data['of'], args[0].t if isinstance(args[0], ZV) else None)]
        return [(st, NONE)]

    def setattr(self, eng, st, recv, name, v):
        if isinstance(recv, ZV) and recv.ty in ('node', 'optnode'):
            st = st.clone()
            if name == 'rule_mode':
                st.ghost['marked'] = st.ghost['marked'] + [(recv.t, eng.to_z3_bool(eng.truth(st, v)))]
            else:
                st.ghost['other_writes'] = st.ghost['other_writes'] + [name]
            return [st]
        return super().setattr(eng, st, recv, name, v)

    def on_exit(self, eng, o):
        st = o.st
        if o.sig not in (NEXT, RETURN):
            eng.oblige(st, "C12/add-conclusion/finishes-normally", z3.BoolVal(False))
            return
        n = self.n
        concl = z3.Const('conclusion', Z.Node)
        added = st.ghost['added']
        eng.oblige(st, "C12/add-conclusion/joins-the-nodes-own-set", z3.BoolVal(len(added) == 1) if len(added) != 1 else
                   z3.And(added[0][0] == n, added[0][1] == concl))
        root = z3.Function('root_of', Z.Node, Z.Node)(n)
        d = z3.If(isa(str_const('ResultQuantifier'), root), Z.f_child(root), root)
        marked = st.ghost['marked']
        is_marked = z3.Or(*[z3.And(m == d, b) for m, b in marked]) if marked else z3.BoolVal(False)
        eng.oblige(st, "C12/add-conclusion/the-query-becomes-a-rule-description",
                   z3.Implies(isa(str_const('QueryObjectDescriptor'), d), is_marked))
        eng.oblige(st, "C12/add-conclusion/only-a-description-is-marked-and-nothing-else-is-written",
                   z3.And(z3.BoolVal(not st.ghost['other_writes']),
                          *[z3.And(m == d, isa(str_const('QueryObjectDescriptor'), m)) for m, _ in marked]))

    def signature(self, ob, model):
        return {}


CONTRACTS += [SymbolicModeCM, RuleModeCM, ExprEnter, ExprExit, AddConclusion]


Qsub = z3.Function('Qsub', Z.Node, z3.ArraySort(Z.Node, Z.B), Z.B)     # whole subtree quiescent (given the `quiet` array)


class ResetOnlyMine(LibModel):
    """SymbolicExpression._reset_only_my_cache_: afterwards the node's own evaluation state is quiescent: fresh
    de-duplication sets for both truth values, no per-parent sets, no evaluation parent (part of Q, C04)."""
    qual = 'symbolic:SymbolicExpression._reset_only_my_cache_'
    cls = 'SymbolicExpression'
    props = ('C04', 'C06')
    modes = ('sound',)

    def modenv(self):
        return base_modenv()

    def setup(self, eng):
        st = State()
        st.fields = init_fields()
        self.n = z3.Const('self', Z.Node)
        st.locals['self'] = ZV(self.n, 'node')
        st.ghost['self'] = self.n
        st.ghost['own'] = {}
        return [st]

    def new_SeenSet(self, eng, st, args, kwargs, node):
        if args or kwargs:
            raise OutOfSubset("SeenSet(...) with arguments", node)
        return [(st, Obj('seenset', {'fresh': True}))]

    def setattr(self, eng, st, recv, name, v):
        if isinstance(recv, ZV) and recv.ty == 'node' and recv.t.eq(self.n) and name in ('_seen_parent_values_', '_seen_parent_values_by_parent_'):
            st = st.clone()
            o = dict(st.ghost['own'])
            o[name] = v
            st.ghost['own'] = o
            return [st]
        return super().setattr(eng, st, recv, name, v)

    def on_exit(self, eng, o):
        st = o.st
        if o.sig not in (NEXT, RETURN):
            eng.oblige(st, "C04/reset/no-exception", z3.BoolVal(False))
            return
        own = st.ghost['own']
        a = own.get('_seen_parent_values_')
        ok_a = (isinstance(a, Obj) and a.kind == 'pydict' and
                sorted((k.v for k, _ in a.data['items']), key=str) == [False, True] and
                all(isinstance(v, Obj) and v.kind == 'seenset' and v.data.get('fresh') for _, v in a.data['items']) and
                len({id(v) for _, v in a.data['items']}) == 2)
        b = own.get('_seen_parent_values_by_parent_')
        ok_b = isinstance(b, D) and True
        eng.oblige(st, "C04/reset/fresh-seen-sets-for-both-truth-values", z3.BoolVal(bool(ok_a)))
        eng.oblige(st, "C04/reset/no-per-parent-seen-sets",
                   st.dicts[b.ref].is_empty() if isinstance(b, D) else z3.BoolVal(False))
        eng.oblige(st, "C04/reset/no-evaluation-parent", z3.Select(st.fields['eval_parent'], self.n) == Z.NoneNode)

    def signature(self, ob, model):
        return {}


class ResetCache(LibModel):
    """SymbolicExpression._reset_cache_: resets the node itself and EVERY child (recursively: the callee's own contract,
    measure = height of the node): afterwards the whole subtree is quiescent."""
    qual = 'symbolic:SymbolicExpression._reset_cache_'
    cls = 'SymbolicExpression'
    props = ('C04', 'C06')
    modes = ('sound',)
    trusted = ("Conclusion._reset_cache_ is a no-op: conclusion nodes keep no evaluation state of their own",)

    def modenv(self):
        return base_modenv()

    def setup(self, eng):
        st = State()
        st.fields = init_fields()
        self.n = z3.Const('self', Z.Node)
        st.locals['self'] = ZV(self.n, 'node')
        st.ghost['self'] = self.n
        st.ghost['own_reset'] = False
        st.ghost['children_loop'] = None
        return [st]

    def getattr(self, eng, st, recv, name):
        if isinstance(recv, ZV) and recv.ty == 'node' and recv.t.eq(self.n) and name == '_children_':
            return [(st, Obj('children', {'of': recv.t}))]
        return super().getattr(eng, st, recv, name)

    def node__reset_only_my_cache_(self, eng, st, recv, args, kwargs, node):
        st = st.clone()
        if recv.t.eq(self.n):
            st.ghost['own_reset'] = True
        return [(st, NONE)]

    def node__reset_cache_(self, eng, st, recv, args, kwargs, node):
        st = st.clone()
        st.ghost['reset_called_on'] = st.ghost.get('reset_called_on', []) + [recv.t]
        return [(st, NONE)]

    def abstract_loop(self, eng, st, s, it, ordinal):
        if not (isinstance(it, Obj) and it.kind == 'children'):
            return super().abstract_loop(eng, st, s, it, ordinal)
        c = z3.FreshConst(Z.Node, 'child')
        b = st.clone()
        b.ghost['reset_called_on'] = []
        outs = []
        ok = True
        for b2 in eng.assign(s.target, ZV(c, 'node'), b):
            for o in eng.exec_block(s.body, b2):
                if o.sig in (NEXT, CONTINUE):
                    called = any(x.eq(c) for x in o.st.ghost.get('reset_called_on', []))
                    eng.oblige(o.st, "C04/reset/every-child-is-reset", z3.BoolVal(called), line=s.lineno)
                elif o.sig == BREAK:
                    eng.oblige(o.st, "C04/reset/every-child-is-reset", z3.BoolVal(False), line=s.lineno)
                    outs.append(Outcome(o.st))
                else:
                    outs.append(o)
        e = st.clone()
        e.ghost['children_loop'] = True
        outs.append(Outcome(e))
        return outs

    def on_exit(self, eng, o):
        st = o.st
        if o.sig not in (NEXT, RETURN):
            eng.oblige(st, "C04/reset/no-exception", z3.BoolVal(False))
            return
        eng.oblige(st, "C04/reset/own-state-is-reset", z3.BoolVal(bool(st.ghost.get('own_reset'))))
        eng.oblige(st, "C04/reset/loop-over-all-children", z3.BoolVal(bool(st.ghost.get('children_loop'))))

    def signature(self, ob, model):
        return {}


CONTRACTS += [ResetOnlyMine, ResetCache]
