"""The shared interface contract I of `_evaluate__(sources, yield_when_false)` (DESIGN.md 3.3 / 11).

Every override is *proved* against it (obligations at each yield / exit) and every call site *assumes*
it for the callee (never the callee's body).  The class-specific part is only the unfolding of the
spec functions Den / good_row at the class under proof (taken from the property statements).

Row clauses for a yielded row R of node n called with (sigma, f), m := R (+) sigma, lbl := n._is_false_ at the yield:
  R0 locality      dom R  subset  dom sigma  U  SubIds(n)  U  {id of the consumer}   (the consumer may have put its own
                   id into a dict that is yielded again)
  R1 consistency   R and sigma agree where both are defined
  R2 legitimacy    good_row(n, m)      (variables in their domains, mapped entries related to their inputs)
  R3 label         cond_pos(n)  ->  for every total rho extending m with WD(n, rho):  lbl == not Den(n, rho)
  R4 filter        filt(n) and not f  ->  not lbl       filt(n) := truth_node(n) or the library's own position test
                   `n is n._conditions_root_ or isinstance(n._parent_, LogicalOperator)` evaluated when n is called
  R5 own value     is_value(n)  ->  nid(n) in dom R;   Binds(n) subset dom m  (ids every row must bind)
  R7 row objects   a dict this function allocated itself is yielded at most once (never one that was created before the
                   current iteration of an enclosing loop): consumers may keep rows (itertools.product in the
                   constructor-argument evaluation does)
  R6 self-contained  the row repeats every entry of sigma that lies in the node's own subtree
Stream clauses
  NE non-empty     nid(n) in dom sigma and not lab(n)  ->  the stream has at least one row  (a bound value node passes
                   the binding on; used by `next(...)` in SetOf and the conclusions)
  C1 completeness  for every rho extending sigma with WD(n, rho) and (filt(n) -> Den(n, rho) or f):
                   some yielded row has rho extending (R (+) sigma)     [or was suppressed as a duplicate]
Precondition
  P  good_row(n, sigma) and ( NoOps(n, sigma)  or  (nid(n) in dom sigma and not cond_pos(n)) )
     lab(n) := cond_pos(n) or truth_node(n)   (the consumer reads the label)
"""
from __future__ import annotations

import ast
import os

import z3

from eqlvc import z as Z
from eqlvc.interp import (SV, ZV, C, D, Tup, Lst, Obj, Meth, Closure, Ref, NONE, TRUE, FALSE, State, Outcome,
                          OutOfSubset, NEXT, CONTINUE, BREAK, RETURN, RAISE, GENEXIT)
from eqlvc.libmodel import LibModel, init_fields, isa, str_const, cond_root, parent_now, cond_pos_def

LeafIds = z3.Const('LeafIds', Z.ArrIB)           # ids of Variable / Literal nodes
MapRel = z3.Function('MapRel', Z.Node, Z.HV, Z.HV, Z.B)   # out is one of the values _apply_mapping_ yields for in
TRUE_IDS = z3.K(Z.I, z3.BoolVal(True))


def total(rho):
    return Z.ZMap(TRUE_IDS, rho)


def WD(n, rho):
    return Z.WD(n, rho)


def filt(n, eval_parent):
    """the node drops false rows when yield_when_false is off: it is of a class that always filters by its truth, or it
    recognises (by the library's own position test, evaluated when it is called) that it stands as a condition"""
    return z3.Or(Z.truth_node(n), cond_pos_def(n, eval_parent))


def lab(n):
    """the node's label / truth filter is meaningful: it stands as a condition, or it is of a class that always
    filters by its own truth (query descriptors, quantifiers, comparators, logical operators)"""
    return z3.Or(Z.cond_pos(n), Z.truth_node(n))


def no_ops(n, m: Z.ZMap):
    return z3.Map(Z.IMP_D, z3.Map(Z.AND_D, m.has, Z.SubIds(n)), LeafIds) == TRUE_IDS


def pre_I(n, sig: Z.ZMap):
    return z3.And(Z.good_row(n, sig), z3.Or(no_ops(n, sig), z3.And(sig.contains(Z.nid(n)), z3.Not(lab(n)))))


def leaf_ext(n, a: Z.ZMap, others, b: Z.ZMap):
    """Lemma schema LeafExt (valid for the pointwise definition of good_row; checked in lemmas/leafext.py):
    a row `a` that is good for n stays good for n when it is consistently extended to `b` by entries that, inside
    n's subtree, are only leaf (variable) entries, each equal to the entry of some row b_i that is good for a node
    n_i whose subtree contains it."""
    new_in_n = z3.Map(Z.AND_D, z3.Map(Z.AND_D, b.has, z3.Map(Z.NOT_D, a.has)), Z.SubIds(n))
    allowed = z3.K(Z.I, z3.BoolVal(False))
    for (ni, bi) in others:
        covers = z3.Map(Z.AND_D, Z.SubIds(ni), bi.has)
        # b agrees with b_i on the new ids that b_i covers
        agrees = z3.Map(Z.ITE_HV, z3.Map(Z.AND_D, covers, new_in_n), bi.val, b.val) == b.val
        allowed = z3.Map(Z.OR_D, allowed,
                         z3.If(z3.And(Z.good_row(ni, bi), agrees), covers, z3.K(Z.I, z3.BoolVal(False))))
    allowed = z3.Map(Z.AND_D, allowed, LeafIds)
    return z3.Implies(z3.And(Z.good_row(n, a), b.extends(a), z3.Map(Z.IMP_D, new_in_n, allowed) == TRUE_IDS),
                      Z.good_row(n, b))


def good_hyps(st, n, b: Z.ZMap):
    """LeafExt instances relevant for proving good_row(n, b) from the facts known on this path."""
    facts = st.ghost.get('goodfacts', [])
    others = [(n2, b2) for (n2, b2) in facts if not n2.eq(n)]
    out = []
    for (na, a) in facts:
        if na.eq(n):
            out.append(leaf_ext(n, a, others, b))
    return out


CONSUMER_ID = z3.Int('consumer_id')      # id of the node that consumes the rows of the node under proof


def with_id(ids, i):
    return z3.Store(ids, i, z3.BoolVal(True))


def rely_growth(n, new: Z.ZMap, old: Z.ZMap, sig: Z.ZMap, consumer_id):
    """what a consumer may do to a dict the producer n yielded: extend it consistently with entries of the sigma the
    producer was called with and with a binding for the consumer's own id"""
    return z3.And(new.extends(old), new.subset_of_ids(with_id(Z.ids_union(old.has, sig.has), consumer_id)),
                  new.consistent_with(sig))


Binds = z3.Function('Binds', Z.Node, Z.ArrIB)    # ids every row of the node binds (e.g. the selected variables of a descriptor)


def child_shape(n, c):
    """facts about a direct operand c of n (acyclic expression graph, injective ids)."""
    return [z3.Select(Z.Sub(c), c), z3.Select(Z.Sub(n), n), z3.Select(Z.Sub(n), c), z3.Not(z3.Select(Z.Sub(c), n)),
            z3.Map(Z.IMP_D, Z.Sub(c), Z.Sub(n)) == z3.K(Z.Node, z3.BoolVal(True)),
            z3.Select(Z.SubIds(c), Z.nid(c)), z3.Select(Z.SubIds(n), Z.nid(n)), z3.Select(Z.SubIds(n), Z.nid(c)),
            z3.Not(z3.Select(Z.SubIds(c), Z.nid(n))),
            z3.Map(Z.IMP_D, Z.SubIds(c), Z.SubIds(n)) == TRUE_IDS,
            Z.nid(c) != Z.nid(n), c != n, c != Z.NoneNode, n != Z.NoneNode, Z.node_of(Z.nid(n)) == n,
            Z.node_of(Z.nid(c)) == c,
            c != cond_root(c)]     # an operand of an operator / mapping is not the root of the conditions


def subtree_is(n, children):
    """SubIds(n) is exactly the node's own id plus the ids of its operands' subtrees"""
    ids = z3.Store(z3.K(Z.I, z3.BoolVal(False)), Z.nid(n), z3.BoolVal(True))
    for c in children:
        ids = z3.Map(Z.OR_D, ids, Z.SubIds(c))
    return Z.SubIds(n) == ids


def tree_shape(a, b):
    """T1: two operands of one operator share only leaves (variables / literals); operator nodes occur once."""
    return [z3.Map(Z.IMP_D, z3.Map(Z.AND_D, Z.SubIds(a), Z.SubIds(b)), LeafIds) == TRUE_IDS,
            z3.Not(z3.Select(Z.Sub(a), b)), z3.Not(z3.Select(Z.Sub(b), a)), a != b, Z.nid(a) != Z.nid(b)]


class EvalContract(LibModel):
    """Proves one `_evaluate__` override against I."""
    cls = None
    props = ()
    is_leaf = False
    params_sources = 'sources'
    params_ywf = 'yield_when_false'
    caching_cases = (False,)       # which values of the caching switch this run covers
    uses_position = False          # the real body tests `self is self._conditions_root_ or isinstance(self._parent_, ..)`
    source_cases = ('none', 'empty', 'nonempty')
    modes = ('sound', 'witness')
    public_stream = True       # the function is `_evaluate__` itself (helper generators of a node are not under R8)

    # ---- class specific spec (override) ----
    def shape_facts(self, n):
        return []

    def children(self, n):
        return []

    def den(self, n, rho):
        raise NotImplementedError

    def own(self, n, m: Z.ZMap):
        """legitimacy of the node's own entry in a (partial) row"""
        return z3.BoolVal(True)

    def wd_extra(self, n, rho):
        """extra well-formedness of a total environment (e.g. an operand that is a sub-query restricts, C15)"""
        return z3.And(*[z3.Implies(Z.truth_node(c), Z.Den(c, rho)) for c in self.children(n) if self.value_child(n, c)]) \
            if self.children(n) else z3.BoolVal(True)

    def value_child(self, n, c):
        """is c used by n as a value (operand / argument), as opposed to a condition?"""
        return False

    def good(self, n, m: Z.ZMap):
        return z3.And(*([Z.good_row(c, m) for c in self.children(n)] + [self.own(n, m)]))

    def wd(self, n, rho):
        return z3.And(*([Z.WD(c, rho) for c in self.children(n)] + [self.own(n, total(rho)), self.wd_extra(n, rho)]))

    # ---- setup ----
    def setup(self, eng):
        fd = eng.fdef
        params = [a.arg for a in fd.args.args]
        sts = []
        n = z3.Const('self', Z.Node)
        f = z3.Bool('ywf_arg')
        for case in self.source_cases:
            for caching in self.caching_cases:
                st = State()
                st.fields = init_fields()
                st.ghost['caching'] = z3.BoolVal(caching)
                st.ghost['self'] = n
                st.ghost['ywf_arg'] = f if self.params_ywf in params else z3.BoolVal(False)
                st.path.append(f"sources={case}")
                st.locals['self'] = ZV(n, 'node')
                if self.params_ywf in params:
                    st.locals[self.params_ywf] = ZV(f, 'bool')
                if case == 'none':
                    sig = Z.ZMap.empty()
                    st.locals[self.params_sources] = NONE
                else:
                    sig = Z.ZMap.fresh('sigma')
                    d = eng.new_dict(st, sig)
                    st.locals[self.params_sources] = d
                    st.ghost['sigma_ref'] = d.ref
                    st.assume(sig.is_empty() if case == 'empty' else z3.Not(sig.is_empty()))
                st.ghost['sigma0'] = sig
                st.ghost['sigma_now'] = sig
                st.assume(*self.shape_facts(n))
                st.assume(z3.Not(z3.Select(LeafIds, Z.nid(n))) if not self.is_leaf else z3.Select(LeafIds, Z.nid(n)))
                st.assume(z3.Select(Z.SubIds(n), Z.nid(n)), z3.Select(Z.Sub(n), n), n != Z.NoneNode,
                          Z.node_of(Z.nid(n)) == n)
                # precondition P, with good_row unfolded at this class
                st.assume(pre_I(n, sig))
                st.ghost['filt_self'] = filt(n, st.fields['eval_parent'])
                st.assume(z3.Not(z3.Select(Z.SubIds(n), CONSUMER_ID)), z3.Not(z3.Select(LeafIds, CONSUMER_ID)))
                # P2: a node that recognises a condition position is read as a condition by its consumer
                st.assume(z3.Implies(st.ghost['filt_self'], lab(n)))
                bd = self.binds_def(n)
                if bd is not None:
                    st.assume(Binds(n) == bd)
                st.assume(isa(str_const('LogicalOperator'), n) == z3.BoolVal(
                    bool(self.cls and self.src.is_subclass(self.cls, 'LogicalOperator'))))
                st.assume(Z.good_row(n, sig) == self.good(n, sig))
                st.ghost['goodfacts'] = [(n, sig)] + [(c, sig) for c in self.children(n)]
                # Den(self, .) unfolds by the class definition at every environment in play
                st.qf.append(lambda rho, n=n: Z.Den(n, rho) == self.den(n, rho))
                st.qf.append(lambda rho, n=n: WD(n, rho) == self.wd(n, rho))
                if eng.mode == 'witness':
                    rho_t = z3.Const('rho_t', Z.Env)
                    st.ghost['rho_t'] = rho_t
                    st.ghost['covered'] = z3.BoolVal(False)
                    st.ghost['envs'] = [rho_t]
                    st.assume(Z.ext(rho_t, sig), WD(n, rho_t),
                              z3.Implies(st.ghost['filt_self'], z3.Or(Z.Den(n, rho_t), st.ghost['ywf_arg'])))
                    st.assume(*[q(rho_t) for q in st.qf])
                if eng.feasible(st):
                    sts.append(st)
        return sts

    # ---- calls specific to evaluators ----
    def node__evaluate__(self, eng, st, recv, args, kwargs, node):
        srcs = args[0] if args else kwargs.get('sources', NONE)
        f = args[1] if len(args) > 1 else kwargs.get('yield_when_false', FALSE)
        fz = eng.to_z3_bool(eng.truth(st, f))
        return [(st, Obj('stream', {'node': recv.t, 'sigma': srcs, 'ywf': fz, 'line': node.lineno}))]

    def node__apply_mapping_(self, eng, st, recv, args, kwargs, node):
        (hv,) = args
        return [(st, Obj('mapstream', {'node': recv.t, 'in': eng.as_hv(st, hv), 'line': node.lineno}))]

    # ---- clause L (C07): a callee stream is consumed row by row; handing it to a materialising consumer is reported
    def _materialise(self, eng, st, args, kwargs, node):
        if args and isinstance(args[0], Obj) and args[0].kind in ('stream', 'mapstream', 'domain', 'gen'):
            eng.oblige(st, f"L/callee-stream-is-not-materialised@L{node.lineno}", z3.BoolVal(False), line=node.lineno, definite=True)
            raise OutOfSubset("a callee stream is materialised", node)
        return None

    def f_list(self, eng, st, args, kwargs, node):
        self._materialise(eng, st, args, kwargs, node)
        return super().f_list(eng, st, args, kwargs, node)

    def f_tuple(self, eng, st, args, kwargs, node):
        self._materialise(eng, st, args, kwargs, node)
        raise OutOfSubset("tuple()", node)

    def f_sorted(self, eng, st, args, kwargs, node):
        self._materialise(eng, st, args, kwargs, node)
        raise OutOfSubset("sorted()", node)

    def obj_idmap___getitem__(self, eng, st, recv, args, kwargs, node):
        return [(st, ZV(Z.node_of(eng.as_int(args[0])), 'node'))]

    def subscript(self, eng, st, recv, k):
        if isinstance(recv, Obj) and recv.kind == 'idmap':
            return [(st, ZV(Z.node_of(eng.as_int(k)), 'node'))]
        return None

    # ---- the interface as an assumption about a callee stream ----
    def sigma_of(self, eng, st, stream):
        s = stream.data['sigma']
        if isinstance(s, D):
            # a dict handed to a callee as its sigma may come back as a row (the callee yields sigma itself)
            st.ghost['sigma_like'] = st.ghost.get('sigma_like', frozenset()) | {s.ref}
            return st.dicts[s.ref], s.ref
        if isinstance(s, C) and s.v is None:
            return Z.ZMap.empty(), None
        raise OutOfSubset(f"sources argument {s}")

    def assume_row(self, st, c, sig: Z.ZMap, f, R: Z.ZMap, filt_c=None):
        m = R.merge(sig)
        lbl = z3.Select(st.fields['is_false'], c)
        if filt_c is None:
            filt_c = Z.truth_node(c)       # weakest assumption: only classes that always filter
        st.assume(R.subset_of_ids(with_id(Z.ids_union(sig.has, Z.SubIds(c)), Z.nid(st.ghost['self']))),
                  R.consistent_with(sig),
                  Z.good_row(c, m),
                  z3.Implies(z3.And(filt_c, z3.Not(f)), z3.Not(lbl)),
                  z3.Implies(Z.is_value(c), R.contains(Z.nid(c))),
                  z3.Map(Z.IMP_D, Binds(c), m.has) == TRUE_IDS,
                  z3.Map(Z.IMP_D, z3.Map(Z.AND_D, sig.has, Z.SubIds(c)), R.has) == TRUE_IDS,     # R6
                  # an entry under this node's own id can only have been put there by this node (rely@ obligations)
                  self.own(st.ghost['self'], m))
        st.qf.append(lambda rho, m=m, c=c, lbl=lbl: z3.Implies(z3.And(Z.ext(rho, m), lab(c), WD(c, rho)),
                                                                 lbl == z3.Not(Z.Den(c, rho))))
        for e in st.ghost.get('envs', []):
            st.assume(st.qf[-1](e))
        st.ghost['goodfacts'] = st.ghost.get('goodfacts', []) + [(c, m)]
        return m

    def scout_mutations(self, eng, st: State, body, run_iteration, callee=None):
        """which dict objects that exist before the loop does one iteration mutate (through any alias)?
        Found by executing the body in scout mode (no obligations) until a fixpoint."""
        pre_refs = set(st.dicts.keys())
        mutated = {}
        for _ in range(4):
            h = self.havoc_for_loop(eng, st, body, callee=callee, extra_refs=mutated)
            h.ghost['mut'] = frozenset()
            h.ghost['writes'] = []
            h.ghost['frames'] = []
            eng.scouting += 1
            try:
                outs = run_iteration(h)
            finally:
                eng.scouting -= 1
            grew = False
            fw = mutated.setdefault('__fields__', {'writes': [], 'frames': []})
            for o in outs:
                if o.st.ghost.get('yielded') and not st.ghost.get('yielded'):
                    fw['yields'] = True
                for w in o.st.ghost.get('writes', []):
                    if not any(w[0] == x[0] and w[1].eq(x[1]) for x in fw['writes']):
                        fw['writes'].append(w)
                for c in o.st.ghost.get('frames', []):
                    if not any(c.eq(x) for x in fw['frames']):
                        fw['frames'].append(c)
                for (ref, kind) in o.st.ghost.get('mut', ()):
                    if ref in pre_refs and kind not in mutated.get(ref, set()):
                        mutated.setdefault(ref, set()).add(kind)
                        grew = True
            if not grew:
                break
        return mutated

    def havoc_for_loop(self, eng, st: State, body, callee=None, extra_refs=(), sigma_of_callee=None, iterated=None) -> State:
        st = st.clone()
        # locals
        for nm in eng.written_names(body):
            if nm in st.locals:
                st.locals[nm] = self.fresh_like(eng, st, st.locals[nm], nm)
        # dicts mutated through names bound before the loop
        syn = self.mutated_dict_refs(eng, st, body)
        extra_refs = dict(extra_refs) if extra_refs else {}
        scouted_fields = extra_refs.pop('__fields__', None)
        sref = st.ghost.get('sigma_ref')
        if sref is not None and 'rely' in extra_refs.get(sref, ()):
            # the consumer may have consistently extended sigma itself (it was yielded): sigma_now grows
            grown = Z.ZMap.fresh('sg')
            st.assume(rely_growth(st.ghost['self'], grown, st.ghost['sigma_now'], st.ghost['sigma_now'], CONSUMER_ID))
            st.ghost['sigma_now'] = grown
        entries = dict(st.ghost.get('loop_entry', {}))
        for ref, kinds in list(extra_refs.items()):
            if kinds - {'rely'} and ref not in syn:
                # a dict that exists before the loop is extended inside it (by this function through an alias, or by
                # a callee that was handed it as sigma): loop invariant "consistent extension by ids of the node's own
                # subtree", re-proved at the end of every iteration (frame@dict)
                oldc = st.dicts[ref]
                newc = Z.ZMap.fresh('sw')
                relied = 'rely' in kinds
                # who may add ids: the callee that is handed this dict as its sigma (its own subtree, R0) and this
                # node itself (its own id)
                who = Z.SubIds(st.ghost['self'])
                owner = None
                if sigma_of_callee is not None and ref == sigma_of_callee[0]:
                    owner = sigma_of_callee[1]
                    who = z3.Store(Z.SubIds(owner), Z.nid(st.ghost['self']), z3.BoolVal(True))
                if owner is not None:
                    # the callee keeps the dict it extends legitimate (R2 of the rows it yields through it)
                    st.assume(Z.good_row(owner, newc))
                    st.ghost['goodfacts'] = st.ghost.get('goodfacts', []) + [(owner, newc)]
                if ref == sref:
                    # the parameter sigma: its content extends both what it was before the loop and sigma as
                    # (possibly) grown by the consumer; new ids only from this node's subtree
                    sn = st.ghost['sigma_now']
                    st.assume(newc.extends(oldc), newc.extends(sn), self.own(st.ghost['self'], newc),
                              newc.subset_of_ids(with_id(Z.ids_union(Z.ids_union(oldc.has, sn.has), who), CONSUMER_ID)))
                    entries[ref] = (oldc, 'sigma', who, owner)
                else:
                    st.assume(self.dict_frame(st, oldc, newc, relied, who))
                    entries[ref] = (oldc, relied, who, owner)
                if iterated is not None:
                    # before the first iteration nothing has touched it
                    st.assume(z3.Or(iterated, z3.And(newc.has == oldc.has, newc.val == oldc.val)))
                st.dicts[ref] = newc
                del extra_refs[ref]
        st.ghost['loop_entry'] = entries
        # dict objects that exist when an iteration of this loop starts (R7: such a dict, if allocated by this function,
        # must not be yielded inside the loop - it would be yielded again, mutated, by the next iteration)
        st.ghost['iter_pre_refs'] = frozenset(st.dicts.keys())
        for ref, kinds in extra_refs.items():
            if kinds == {'rely'} and ref not in syn:
                new = Z.ZMap.fresh('rl')
                if ref == sref:
                    new = st.ghost['sigma_now']
                st.assume(rely_growth(st.ghost['self'], new, st.dicts[ref], st.ghost['sigma_now'], CONSUMER_ID))
                st.dicts[ref] = new
                continue
            if ref not in syn:
                syn[ref] = [('alias-mutation', None)]
        for ref, ops in syn.items():
            old = st.dicts[ref]
            keys = []
            simple = True
            for kind, kexpr in ops:
                if kind != 'store':
                    simple = False
                    break
                if any(isinstance(x, ast.Name) and x.id in eng.written_names(body) for x in ast.walk(kexpr)):
                    simple = False
                    break
                try:
                    ko = eng.eval(kexpr, st)
                except OutOfSubset:
                    ko = None
                if ko is None or len(ko) != 1:
                    simple = False
                    break
                keys.append(eng.as_int(ko[0][1]))
            if simple:
                new = old
                for k in keys:   # only these keys may have been (re)assigned by earlier iterations
                    new = Z.ZMap(z3.Store(new.has, k, z3.Or(new.contains(k), z3.FreshConst(Z.B, 'lk'))),
                                 z3.Store(new.val, k, z3.FreshConst(Z.HV, 'lv')))
                st.dicts[ref] = new
                continue
            new = Z.ZMap.fresh('lh')
            st.dicts[ref] = new
            inv = self.loop_dict_invariant(eng, st, ref, old, new)
            if inv is not None:
                st.assume(inv)
        # fields: the callee's frame + stores in the body
        if callee is not None:
            st.fields['is_false'] = Z.havoc_sub(st.fields['is_false'], callee, Z.ITE_B)
            st.fields['ywf'] = Z.havoc_sub(st.fields['ywf'], callee, Z.ITE_B)
            st.fields['eval_parent'] = Z.havoc_sub(st.fields['eval_parent'], callee, Z.ITE_N)
        if scouted_fields is not None and scouted_fields.get('yields'):
            # an earlier iteration may have yielded (R8)
            st.ghost['maybe_yielded'] = z3.Or(st.ghost.get('maybe_yielded', z3.BoolVal(False)),
                                              iterated if iterated is not None else z3.BoolVal(True))
        if scouted_fields is not None:
            # field writes and callee frames observed by executing the body once in scout mode
            for fld, nd in scouted_fields['writes']:
                arr = st.fields[fld]
                st.fields[fld] = z3.Store(arr, nd, z3.FreshConst(arr.sort().range(), 'hfv'))
            for c in scouted_fields['frames']:
                st.fields['is_false'] = Z.havoc_sub(st.fields['is_false'], c, Z.ITE_B)
                st.fields['ywf'] = Z.havoc_sub(st.fields['ywf'], c, Z.ITE_B)
                st.fields['eval_parent'] = Z.havoc_sub(st.fields['eval_parent'], c, Z.ITE_N)
            return st
        for fld, recv_expr in self.field_stores(body):
            outs = None
            try:
                outs = eng.eval(recv_expr, st)
            except OutOfSubset:
                outs = None
            arr = st.fields[fld]
            if outs is None or len(outs) != 1 or not isinstance(outs[0][1], ZV):
                st.fields[fld] = z3.FreshConst(arr.sort(), 'hf')
            else:
                st.fields[fld] = z3.Store(arr, outs[0][1].t, z3.FreshConst(arr.sort().range(), 'hfv'))
        # nested callee frames inside the body
        for c_expr in self.nested_callees(body):
            try:
                outs = eng.eval(c_expr, st)
            except OutOfSubset:
                outs = None
            if outs is None or len(outs) != 1 or not isinstance(outs[0][1], ZV):
                for fld in ('is_false', 'ywf', 'eval_parent'):
                    st.fields[fld] = z3.FreshConst(st.fields[fld].sort(), 'hf')
            else:
                c = outs[0][1].t
                st.fields['is_false'] = Z.havoc_sub(st.fields['is_false'], c, Z.ITE_B)
                st.fields['ywf'] = Z.havoc_sub(st.fields['ywf'], c, Z.ITE_B)
                st.fields['eval_parent'] = Z.havoc_sub(st.fields['eval_parent'], c, Z.ITE_N)
        return st

    def loop_dict_invariant(self, eng, st, ref, old, new):
        return None

    def dict_frame(self, st, old: Z.ZMap, new: Z.ZMap, relied, who):
        n = st.ghost['self']
        if relied:
            sn = st.ghost['sigma_now']
            return z3.And(new.extends(old), self.own(n, new),
                          new.subset_of_ids(with_id(Z.ids_union(Z.ids_union(old.has, who), sn.has), CONSUMER_ID)))
        return z3.And(new.extends(old), new.subset_of_ids(Z.ids_union(old.has, who)), self.own(n, new))

    def check_sigma_frame(self, eng, st, ordinal):
        for ref, (oldc, relied, who, owner) in st.ghost.get('loop_entry', {}).items():
            if ref in st.dicts and owner is not None:
                eng.oblige(st, f"frame@dict/loop{ordinal}/legit", Z.good_row(owner, st.dicts[ref]),
                           hyp=good_hyps(st, owner, st.dicts[ref]), line=0)
            if ref in st.dicts and relied == 'sigma':
                cur, sn, n = st.dicts[ref], st.ghost['sigma_now'], st.ghost['self']
                eng.oblige(st, f"frame@dict/loop{ordinal}",
                           z3.And(cur.extends(oldc), cur.extends(sn), self.own(n, cur),
                                  cur.subset_of_ids(with_id(Z.ids_union(Z.ids_union(oldc.has, sn.has), who), CONSUMER_ID))), line=0)
                continue
            if ref in st.dicts:
                eng.oblige(st, f"frame@dict/loop{ordinal}", self.dict_frame(st, oldc, st.dicts[ref], relied, who), line=0)

    def fresh_like(self, eng, st, v, nm):
        if isinstance(v, ZV):
            return ZV(z3.FreshConst(v.t.sort(), 'h_' + nm), v.ty)
        if isinstance(v, D):
            return eng.new_dict(st, Z.ZMap.fresh('h_' + nm))
        if isinstance(v, C) and isinstance(v.v, bool):
            return ZV(z3.FreshConst(Z.B, 'h_' + nm), 'bool')
        if isinstance(v, C) and isinstance(v.v, int):
            return ZV(z3.FreshConst(Z.I, 'h_' + nm), 'int')
        return Obj('havocked', {'name': nm, 'was': v})

    def mutated_dict_refs(self, eng, st, body):
        refs = {}
        for stmt in body:
            for n in ast.walk(stmt):
                nm = None
                op = None
                if isinstance(n, ast.Call) and isinstance(n.func, ast.Attribute) and n.func.attr in ('update', 'setdefault', 'pop', 'clear') \
                        and isinstance(n.func.value, ast.Name):
                    nm = n.func.value.id
                    op = (n.func.attr, n.args[0] if n.args else None)
                if isinstance(n, ast.Subscript) and isinstance(n.ctx, ast.Store) and isinstance(n.value, ast.Name):
                    nm = n.value.id
                    op = ('store', n.slice)
                if nm and isinstance(st.locals.get(nm), D):
                    refs.setdefault(st.locals[nm].ref, []).append(op)
        return refs

    def field_stores(self, body):
        from eqlvc.libmodel import NODE_BOOL_FIELDS
        out = []
        for stmt in body:
            for n in ast.walk(stmt):
                if isinstance(n, ast.Attribute) and isinstance(n.ctx, ast.Store):
                    if n.attr in NODE_BOOL_FIELDS:
                        out.append((NODE_BOOL_FIELDS[n.attr], n.value))
                    elif n.attr == '_eval_parent_':
                        out.append(('eval_parent', n.value))
        return out

    def nested_callees(self, body):
        out = []
        for stmt in body:
            for n in ast.walk(stmt):
                if isinstance(n, ast.Call) and isinstance(n.func, ast.Attribute) and n.func.attr in ('_evaluate__', '_evaluate_'):
                    out.append(n.func.value)
        return out

    # ---- loops ----
    def abstract_loop(self, eng, st, s: ast.For, it, ordinal):
        if isinstance(it, Obj) and it.kind == 'stream':
            return self.loop_stream(eng, st, s.target, s.body, it, ordinal, s)
        if isinstance(it, Obj) and it.kind == 'mapstream':
            return self.loop_mapstream(eng, st, s.target, s.body, it, ordinal, s)
        if isinstance(it, Obj) and it.kind == 'domain':
            return self.loop_domain(eng, st, s.target, s.body, it, ordinal, s)
        raise OutOfSubset(f"loop over {it}", s)

    def loop_domain(self, eng, st, target, body, dom, ordinal, node):
        """for v in self._domain_  (HashedIterable.__iter__, proved separately: delivers exactly Dom(x), in order)"""
        n = dom.data['of']

        def iteration(h, witness=False):
            b = h.clone()
            if witness:
                v = z3.Select(h.ghost['rho_t'], Z.nid(n))
            else:
                v = z3.FreshConst(Z.HV, 'dv')
                b.assume(Z.indom(n, v))
            res = []
            for b2 in eng.assign(target, ZV(v, 'hv'), b):
                res.extend(eng.exec_block(body, b2))
            return res
        return self.simple_loop(eng, st, body, iteration, ordinal,
                                (lambda s_: Z.indom(n, z3.Select(s_.ghost['rho_t'], Z.nid(n)))) if eng.mode == 'witness' else None)

    def _scoped(self, st, outs):
        # the frame entries of a loop are checked at the end of each of its iterations; once the loop is left they are
        # out of scope (an enclosing loop keeps its own)
        outer = st.ghost.get('loop_entry', {})
        for o in outs:
            o.st.ghost['loop_entry'] = outer
        return outs

    def simple_loop(self, eng, st, body, iteration, ordinal, witness_hyp):
        return self._scoped(st, self._simple_loop(eng, st, body, iteration, ordinal, witness_hyp))

    def _simple_loop(self, eng, st, body, iteration, ordinal, witness_hyp):
        outs = []
        if eng.mode == 'sound':
            mutated = self.scout_mutations(eng, st, body, iteration)
            h = self.havoc_for_loop(eng, st, body, extra_refs=mutated)
            for o in iteration(h):
                if o.sig in (NEXT, CONTINUE):
                    self.check_sigma_frame(eng, o.st, ordinal)
                elif o.sig == BREAK:
                    outs.append(Outcome(o.st))
                else:
                    outs.append(o)
            outs.append(Outcome(h))
            return outs
        H = witness_hyp(st)
        for b, holds in eng.branch(st, H, f"WD{ordinal}"):
            mutated = self.scout_mutations(eng, b, body, iteration)
            h = self.havoc_for_loop(eng, b, body, extra_refs=mutated)
            if not holds:
                outs.append(Outcome(h))
                continue
            for o in iteration(h, witness=True):
                if o.sig in (NEXT, CONTINUE, BREAK):
                    if self.is_covered(eng, o.st):
                        outs.append(Outcome(o.st, 'covered'))
                    else:
                        outs.append(Outcome(self.havoc_for_loop(eng, o.st, body, extra_refs=mutated)))
                else:
                    outs.append(o)
        return outs

    def check_callee_pre(self, eng, st, c, sig, line, tag):
        if c.eq(st.ghost['self']):
            # helper generator of the same node: same binding, nothing to establish
            eng.oblige(st, f"pre@call{tag}.L{line}", pre_I(c, sig), line=line)
            return
        eng.oblige(st, f"pre@call{tag}.L{line}", pre_I(c, sig), hyp=good_hyps(st, c, sig), line=line)
        p2 = z3.Implies(filt(c, st.fields['eval_parent']), lab(c))
        if not self.position_assumed(st, c):
            eng.oblige(st, f"pre@call{tag}.L{line}/position", p2, line=line)
        st.assume(p2)

    def loop_stream(self, eng, st, target, body, stream, ordinal, node):
        return self._scoped(st, self._loop_stream(eng, st, target, body, stream, ordinal, node))

    def _loop_stream(self, eng, st, target, body, stream, ordinal, node):
        c = stream.data['node']
        f = stream.data['ywf']
        sig, sref = self.sigma_of(eng, st, stream)
        st = st.clone()
        self.check_callee_pre(eng, st, c, sig, stream.data['line'], f"#loop{ordinal}")
        rho = st.ghost.get('rho_t')
        filt_c = filt(c, st.fields['eval_parent'])      # the callee's own position test, as it evaluates at the call

        def reachable(h):
            # a callee may yield sigma itself; that only matters when this function still holds a reference to it
            return sref is not None and (any(isinstance(v, D) and v.ref == sref for v in h.locals.values())
                                         or h.ghost.get('sigma_ref') == sref)

        # R8 (alias-once): a stream that delivers the very dict it was given as sigma delivers nothing else.  So a loop
        # over a contracted stream is either one iteration on that dict, run from the exact state before the loop, or
        # any number of iterations on rows that are not the sigma object (arbitrary-iteration rule).  The helper
        # generator of a descriptor (`_evaluate_`) is proved against the same clause by its own contract.
        alias_once = True

        def iteration(h, witness=False, kinds=None):
            res = []
            if kinds is None:
                kinds = (False, True)
            for alias in [k for k in kinds if (k is False or reachable(h))]:
                b = h.clone()
                b.ghost['frames'] = b.ghost.get('frames', []) + [c]
                b.path.append(f"loop{ordinal}:{'witness-' if witness else ''}{'alias' if alias else 'fresh'}")
                # sigma as the callee sees it now (the caller may have consistently extended it: rely)
                csig = b.dicts[sref] if sref is not None else sig
                if alias:
                    # the callee yields the very dict it was given, possibly after extending it (R0 / R1 say how)
                    row = D(sref)
                    R = Z.ZMap.fresh(f'arow{ordinal}')
                    b.assume(R.extends(csig))
                    b.dicts[sref] = R
                    b.ghost['alias_row_ref'] = sref
                    b.log_mut(sref, 'callee')
                else:
                    row = eng.new_dict(b, Z.ZMap.fresh(f'row{ordinal}'))
                    R = b.dicts[row.ref]
                m = self.assume_row(b, c, csig, f, R, filt_c)
                if stream.data.get('own_method'):
                    # a helper generator of the same node (`_evaluate_`): it sets the node's own flags
                    b.assume(z3.Select(b.fields['ywf'], c) == f, Z.good_row(c, m) == self.good(c, m))
                    pr = b.ghost.get('goodfacts', [])
                    b.ghost['goodfacts'] = pr + [(ch, m) for ch in self.children(c)]
                if not alias:
                    pr = dict(b.ghost.get('producer', {}))
                    pr[row.ref] = (c, csig)
                    b.ghost['producer'] = pr
                if witness:
                    b.assume(Z.ext(rho, m))
                if not eng.feasible(b):
                    continue
                for b2 in eng.assign(target, row, b):
                    res.extend(eng.exec_block(body, b2))
            return res

        outs = []
        hyp_of = lambda r: z3.And(Z.ext(r, sig), WD(c, r), z3.Implies(filt_c, z3.Or(Z.Den(c, r), f)))
        arb = (False,) if alias_once else (False, True)
        arb_iteration = lambda h, witness=False: iteration(h, witness, kinds=arb)
        self.find_iteration_flags(eng, st, body, ordinal)
        if eng.mode == 'sound':
            inv0 = self.loop_invariant(eng, st, ordinal, z3.BoolVal(False))
            if inv0 is not None:
                eng.oblige(st, f"inv@loop{ordinal}/init", inv0, line=node.lineno)
            if alias_once and reachable(st):
                # the stream's only row is the sigma object itself
                for o in iteration(st, kinds=(True,)):
                    if o.sig in (NEXT, CONTINUE, BREAK):
                        self.on_loop_exhausted(eng, o.st, ordinal, stream)
                        outs.append(Outcome(o.st))
                    else:
                        outs.append(o)
            mutated = self.scout_mutations(eng, st, body, arb_iteration, callee=c)
            itd = z3.FreshConst(Z.B, f'iterated{ordinal}')
            h = self.havoc_for_loop(eng, st, body, callee=c, extra_refs=mutated, sigma_of_callee=(sref, c), iterated=itd)
            h.ghost['arbitrary_iteration'] = h.ghost.get('arbitrary_iteration', 0) + 1
            hi = h.clone()
            invh = self.loop_invariant(eng, hi, ordinal, itd)
            if invh is not None:
                hi.assume(invh)
            for o in arb_iteration(hi):
                if o.sig in (NEXT, CONTINUE):
                    invn = self.loop_invariant(eng, o.st, ordinal, z3.BoolVal(True))
                    if invn is not None:
                        eng.oblige(o.st, f"inv@loop{ordinal}/preserved", invn, line=node.lineno)
                    self.on_iteration_end(eng, o.st, ordinal)
                    self.check_sigma_frame(eng, o.st, ordinal)
                elif o.sig == BREAK:
                    o.st.ghost['arbitrary_iteration'] -= 1
                    outs.append(Outcome(o.st))
                else:
                    outs.append(o)
            e = h.clone()
            e.ghost['arbitrary_iteration'] -= 1
            e.path.append(f"loop{ordinal}:done")
            inve = self.loop_invariant(eng, e, ordinal, itd)
            if inve is not None:
                e.assume(inve)
            # an exhausted stream that delivered no row: by the callee's completeness clause no environment
            # satisfies its hypothesis
            e.qf.append(lambda r, itd=itd: z3.Implies(z3.Not(itd), z3.Not(hyp_of(r))))
            self.on_loop_exhausted(eng, e, ordinal, stream)
            outs.append(Outcome(e))
            return outs
        # ---- witness mode
        H = hyp_of(rho)
        for b, holds in eng.branch(st, H, f"W{ordinal}"):
            mutated = self.scout_mutations(eng, b, body, arb_iteration, callee=c)
            h = self.havoc_for_loop(eng, b, body, callee=c, extra_refs=mutated, sigma_of_callee=(sref, c))
            if not holds:
                # no row is owed for rho_t; whatever rows there are, the state after the loop is the havocked one
                # (when the only row is the sigma object itself, see the sound mode for the exact treatment)
                if alias_once and reachable(b):
                    for o in iteration(b, kinds=(True,)):
                        if o.sig in (NEXT, CONTINUE, BREAK):
                            self.on_loop_exhausted(eng, o.st, ordinal, stream)
                            outs.append(Outcome(o.st))
                        else:
                            outs.append(o)
                self.on_loop_exhausted(eng, h, ordinal, stream)
                outs.append(Outcome(h))
                continue
            if alias_once and reachable(b):
                # the row owed for rho_t is the sigma object itself: it is the only row
                for o in iteration(b, witness=True, kinds=(True,)):
                    if o.sig in (NEXT, CONTINUE, BREAK):
                        if self.is_covered(eng, o.st):
                            outs.append(Outcome(o.st, 'covered'))
                        else:
                            self.on_loop_exhausted(eng, o.st, ordinal, stream)
                            outs.append(Outcome(o.st))
                    else:
                        outs.append(o)
            for o in arb_iteration(h, witness=True):
                if o.sig in (NEXT, CONTINUE, BREAK):
                    if self.is_covered(eng, o.st):
                        outs.append(Outcome(o.st, 'covered'))
                    else:
                        # state after the loop: pre-loop scope havocked again, knowledge of the witness iteration
                        # kept in the path condition, `covered` carried over
                        a = self.havoc_for_loop(eng, o.st, body, callee=c, extra_refs=mutated, sigma_of_callee=(sref, c))
                        self.on_loop_exhausted(eng, a, ordinal, stream)
                        outs.append(Outcome(a))
                else:
                    outs.append(o)
        return outs

    def on_dict_mutation(self, eng, st, ref, old, new, node):
        """we are the consumer of a row some callee yielded: stay within the rely of the interface."""
        prod = st.ghost.get('producer', {}).get(ref)
        if prod is None:
            return
        c, csig = prod
        eng.oblige(st, f"rely@L{getattr(node, 'lineno', 0)}",
                   z3.And(rely_growth(c, new, old, csig, Z.nid(st.ghost['self'])), self.own(st.ghost['self'], new)),
                   line=getattr(node, 'lineno', 0))

    def position_assumed(self, st, c):
        """call sites where P2 is an assumption instead of an obligation (listed in `trusted`)"""
        return False

    def is_covered(self, eng, st):
        cov = st.ghost.get('covered')
        if cov is None or eng.scouting:
            return False
        # (decisive, not a pruning hint: a `covered` state ends the exploration of the loop, an uncovered one is havocked on -
        # so the timeout is sized for a machine with every core busy)
        return not eng.feasible(st, z3.Not(cov), timeout_ms=30000)

    def on_iteration_end(self, eng, st, ordinal):
        pass

    def loop_invariant(self, eng, st, ordinal, iterated):
        """invariant of loop `ordinal` (z3 Bool over the state) or None; `iterated` is the ghost 'at least one iteration has
        completed'.  Default: every *iteration flag* of the loop equals `iterated`.  An iteration flag is a local that holds
        the constant False when the loop is reached and whose only assignment inside the loop body is `<name> = True` as
        one of the leading simple statements of the body (so it is executed in every iteration before anything can leave
        it) - found from the AST, whatever the local is called."""
        names = [nm for nm in getattr(self, '_loop_flags', {}).get(ordinal, ()) if nm in st.locals]
        if not names:
            return None
        return z3.And(*[eng.to_z3_bool(eng.truth(st, st.locals[nm])) == iterated for nm in names])

    def find_iteration_flags(self, eng, st, body, ordinal):
        flags = []
        assigned = {}
        for x in ast.walk(ast.Module(body=list(body), type_ignores=[])):
            if isinstance(x, (ast.Assign, ast.AugAssign, ast.AnnAssign, ast.For, ast.NamedExpr, ast.With)):
                tgts = x.targets if isinstance(x, ast.Assign) else [getattr(x, 'target', None)] if not isinstance(x, ast.With) else \
                    [i.optional_vars for i in x.items]
                for t in tgts:
                    for y in ast.walk(t) if t is not None else ():
                        if isinstance(y, ast.Name):
                            assigned[y.id] = assigned.get(y.id, 0) + 1
        for stmt in body:
            if (isinstance(stmt, ast.Assign) and len(stmt.targets) == 1 and isinstance(stmt.targets[0], ast.Name)
                    and isinstance(stmt.value, ast.Constant) and stmt.value.value is True):
                nm = stmt.targets[0].id
                cur = st.locals.get(nm)
                if assigned.get(nm) == 1 and isinstance(cur, C) and cur.v is False:
                    flags.append(nm)
                continue
            if isinstance(stmt, (ast.Assign, ast.AugAssign, ast.Expr)) and not any(
                    isinstance(y, (ast.Yield, ast.YieldFrom, ast.Await)) for y in ast.walk(stmt)):
                continue
            break
        if not hasattr(self, '_loop_flags'):
            self._loop_flags = {}
        self._loop_flags[ordinal] = flags
        return flags

    # ---- duplicate suppression (SymbolicExpression._is_duplicate_output_, proved separately against SeenSet)
    def node__is_duplicate_output_(self, eng, st, recv, args, kwargs, node):
        (o,) = args
        d = z3.FreshConst(Z.B, 'dup')
        if eng.mode == 'witness' and isinstance(o, D):
            # C1's alternative: a row covering rho_t that is suppressed as a duplicate means an earlier yielded row
            # agreed with it on the variables the ancestors require
            m = st.dicts[o.ref].merge(st.ghost['sigma_now'])
            st = st.clone()
            st.ghost['covered'] = z3.Or(st.ghost['covered'], z3.And(d, Z.ext(st.ghost['rho_t'], m)))
        return [(st, ZV(d, 'bool'))]

    def on_loop_exhausted(self, eng, st, ordinal, stream):
        pass

    def loop_mapstream(self, eng, st, target, body, ms, ordinal, node):
        n = ms.data['node']
        hin = ms.data['in']
        outs = []

        def iteration(h, witness=False):
            b = h.clone()
            if witness:
                v = z3.Select(h.ghost['rho_t'], Z.nid(n))
            else:
                v = z3.FreshConst(Z.HV, 'mv')
                b.assume(MapRel(n, hin, v))
            res = []
            for b2 in eng.assign(target, ZV(v, 'hv'), b):
                res.extend(eng.exec_block(body, b2))
            return res

        if eng.mode == 'sound':
            mutated = self.scout_mutations(eng, st, body, iteration)
            h = self.havoc_for_loop(eng, st, body, extra_refs=mutated)
            for o in iteration(h):
                if o.sig in (NEXT, CONTINUE):
                    pass
                elif o.sig == BREAK:
                    outs.append(Outcome(o.st))
                else:
                    outs.append(o)
            outs.append(Outcome(h))
            return outs
        rho = st.ghost['rho_t']
        H = MapRel(n, hin, z3.Select(rho, Z.nid(n)))
        for b, holds in eng.branch(st, H, f"WM{ordinal}"):
            mutated = self.scout_mutations(eng, b, body, iteration)
            h = self.havoc_for_loop(eng, b, body, extra_refs=mutated)
            if not holds:
                outs.append(Outcome(h))
                continue
            for o in iteration(h, witness=True):
                if o.sig in (NEXT, CONTINUE, BREAK):
                    if self.is_covered(eng, o.st):
                        outs.append(Outcome(o.st, 'covered'))
                    else:
                        outs.append(Outcome(self.havoc_for_loop(eng, o.st, body, extra_refs=mutated)))
                else:
                    outs.append(o)
        return outs

    def yield_from(self, eng, st, src, ordinal, node):
        """`yield from s`  ==  `for r in s: yield r` for a contracted stream."""
        if isinstance(src, Obj) and src.kind == 'stream':
            tgt = ast.Name(id='__yf_row', ctx=ast.Store())
            y = ast.Yield(value=ast.Name(id='__yf_row', ctx=ast.Load()))
            eng.yield_ordinals[id(y)] = ordinal
            body = [ast.Expr(value=y)]
            ast.fix_missing_locations(ast.Module(body=body, type_ignores=[]))
            for b in body:
                ast.copy_location(b, node)
                for x in ast.walk(b):
                    ast.copy_location(x, node)
            return self.loop_stream(eng, st, tgt, body, src, 100 + ordinal, node)
        if isinstance(src, ZV) and src.ty == 'node' and src.t.eq(st.ghost['self']):
            # `yield from self`: iter(self) is the generator method __iter__ of the class; its real body runs in place
            q = self.src.resolve_method(self.cls, '__iter__')
            if q is None:
                raise OutOfSubset("yield from self without __iter__", node)
            return self.inline_generator(eng, st, q, [src], {}, node)
        if isinstance(src, Obj) and src.kind == 'gen':
            return self.inline_generator(eng, st, src.data['qual'], src.data['args'], src.data['kwargs'], node)
        raise OutOfSubset(f"yield from {src}", node)

    def inline_generator(self, eng, st, qual, args, kwargs, node):
        """`yield from g(...)` for a generator method of the same object: g's real body is executed in place and its
        yields are this function's yields."""
        fd = self.src.get(qual)
        if fd is None:
            raise OutOfSubset(f"no source for {qual}", node)
        eng.notes.append(f"inlined-generator:{qual}")
        if id(fd) not in getattr(eng, '_gen_numbered', set()):
            eng._gen_numbered = getattr(eng, '_gen_numbered', set()) | {id(fd)}
            base = 1000 * len(eng._gen_numbered)
            k = 0
            for x in ast.walk(fd):
                if isinstance(x, (ast.Yield, ast.YieldFrom)):
                    k += 1
                    eng.yield_ordinals[id(x)] = base + k
                if isinstance(x, (ast.For, ast.While)):
                    eng.loop_ordinals[id(x)] = base + len([1 for y in eng.loop_ordinals if True]) + 1
        params = [a.arg for a in fd.args.args]
        defaults = fd.args.defaults
        loc = {}
        ds = len(params) - len(defaults)
        for i, p in enumerate(params):
            if i < len(args):
                loc[p] = args[i]
            elif p in kwargs:
                loc[p] = kwargs[p]
            elif i >= ds and isinstance(defaults[i - ds], ast.Constant):
                loc[p] = C(defaults[i - ds].value)
            else:
                raise OutOfSubset(f"missing argument {p} for {qual}", node)
        s2 = st.clone()
        saved, saved_finals = s2.locals, s2.finals
        s2.locals, s2.finals = loc, []
        outs = []
        for o in eng.exec_block(fd.body, s2):
            s3 = o.st.clone()
            s3.locals, s3.finals = saved, saved_finals
            if o.sig in (NEXT, RETURN):
                outs.append(Outcome(s3))
            else:
                outs.append(Outcome(s3, o.sig, o.val))
        return outs

    # ---- yields ----
    def on_yield(self, eng, st: State, v: SV, ordinal, node):
        if not isinstance(v, D):
            raise OutOfSubset(f"yield of {v}", node)
        n = st.ghost['self']
        f = st.ghost['ywf_arg']
        sig = st.ghost['sigma_now']
        row = st.dicts[v.ref]
        m = row.merge(sig)
        lbl = z3.Select(st.fields['is_false'], n)
        st = st.clone()
        yielded_before = z3.BoolVal(True) if st.ghost.get('yielded') else st.ghost.get('maybe_yielded', z3.BoolVal(False))
        st.ghost['yielded'] = True
        if eng.mode == 'sound':
            tag = f"row@yield#{ordinal}"
            eng.oblige(st, f"{tag}/R0-locality", row.subset_of_ids(with_id(Z.ids_union(sig.has, Z.SubIds(n)), CONSUMER_ID)),
                       line=node.lineno)
            eng.oblige(st, f"{tag}/R1-consistent", row.consistent_with(sig), line=node.lineno)
            for i, c in enumerate(self.children(n)):
                eng.oblige(st, f"{tag}/R2-legit.operand{i}", z3.Implies(c != Z.NoneNode, Z.good_row(c, m)),
                           hyp=good_hyps(st, c, m), line=node.lineno)
            eng.oblige(st, f"{tag}/R2-legit.own", self.good(n, m),
                       hyp=[z3.Implies(c != Z.NoneNode, Z.good_row(c, m)) for c in self.children(n)], line=node.lineno)
            rho = z3.FreshConst(Z.Env, 'rho')
            eng.oblige(st, f"{tag}/R3-label", lbl == z3.Not(self.den(n, rho)),
                       hyp=[Z.ext(rho, m), lab(n), WD(n, rho)],
                       envs=[rho], line=node.lineno)
            eng.oblige(st, f"{tag}/R4-filter", z3.Implies(z3.And(st.ghost['filt_self'], z3.Not(f)), z3.Not(lbl)), line=node.lineno)
            eng.oblige(st, f"{tag}/R5-own-id", z3.Implies(Z.is_value(n), row.contains(Z.nid(n))), line=node.lineno)
            stale = (v.ref in st.ghost.get('own_refs', ()) and v.ref in st.ghost.get('iter_pre_refs', ())
                     and v.ref not in st.ghost.get('sigma_like', ()))
            eng.oblige(st, f"{tag}/R7-row-object-is-not-reused", z3.BoolVal(not stale), line=node.lineno)
            if not self.r6_waived(eng, st, ordinal, node):
                eng.oblige(st, f"{tag}/R6-self-contained",
                           z3.Map(Z.IMP_D, z3.Map(Z.AND_D, sig.has, Z.SubIds(n)), row.has) == TRUE_IDS, line=node.lineno)
            eng.oblige(st, f"{tag}/R5-binds", z3.Map(Z.IMP_D, self.binds_ids(st, n), m.has) == TRUE_IDS, line=node.lineno)
            if self.public_stream:
                # R8: the sigma object itself, when yielded, is the only row (no row before it, none after it)
                is_sigma = v.ref == st.ghost.get('sigma_ref')
                only = z3.BoolVal(not st.ghost.get('alias_yielded'))
                if is_sigma:
                    only = z3.And(only, z3.Not(yielded_before), z3.BoolVal(st.ghost.get('arbitrary_iteration', 0) == 0))
                eng.oblige(st, f"{tag}/R8-sigma-object-is-the-only-row", only, line=node.lineno)
                if is_sigma:
                    st.ghost['alias_yielded'] = True
            eng.oblige(st, f"cover@yield#{ordinal}", z3.BoolVal(True), kind='cover', line=node.lineno)
            self.extra_yield_obligations(eng, st, v, ordinal, node)
        else:
            st = st.clone()
            st.ghost['covered'] = z3.Or(st.ghost['covered'], Z.ext(st.ghost['rho_t'], m))
        # resume: the consumer may have consistently extended the yielded dict (rely)
        st = st.clone()
        new = Z.ZMap.fresh('res')
        st.assume(rely_growth(n, new, row, sig, CONSUMER_ID))
        st.dicts[v.ref] = new
        st.log_mut(v.ref, 'rely')
        if v.ref == st.ghost.get('sigma_ref'):
            st.ghost['sigma_now'] = new
        return [st]

    def extra_yield_obligations(self, eng, st, v, ordinal, node):
        pass

    def r6_waived(self, eng, st, ordinal, node):
        return False

    def binds_ids(self, st, n):
        return Binds(n)

    def binds_def(self, n):
        """ids every row of this node binds (default: its own id when it is a value node)"""
        return z3.If(Z.is_value(n), z3.Store(z3.K(Z.I, z3.BoolVal(False)), Z.nid(n), z3.BoolVal(True)),
                     z3.K(Z.I, z3.BoolVal(False)))

    def on_exit(self, eng, o: Outcome):
        if eng.mode == 'witness':
            if o.sig == 'covered':
                eng.oblige(o.st, "C1-complete/covered", z3.BoolVal(True), line=0)
                return
            if o.sig in (NEXT, RETURN):
                eng.oblige(o.st, "C1-complete/covered", o.st.ghost['covered'], line=0)
            elif o.sig == RAISE:
                eng.oblige(o.st, f"C1-complete/no-raise:{o.val.v.name if isinstance(o.val, C) else o.val}",
                           z3.BoolVal(False), line=0)
        else:
            if o.sig == RAISE:
                self.on_raise(eng, o)
            elif o.sig in (NEXT, RETURN) and not o.st.ghost.get('yielded'):
                # NE: a path that ends without having yielded must not be one on which a row is owed
                n = o.st.ghost['self']
                eng.oblige(o.st, "NE-nonempty-when-bound",
                           z3.Not(z3.And(o.st.ghost['sigma0'].contains(Z.nid(n)), z3.Not(lab(n)))), line=0)

    def signature(self, ob, model):
        """semantic fingerprint of a counter-model (used to match known findings; no path / line information)."""
        n = z3.Const('self', Z.Node)

        def ev(t):
            return str(model.eval(t, model_completion=True))
        sig = {'cond_pos(self)': ev(Z.cond_pos(n)), 'ywf': ev(z3.Bool('ywf_arg'))}
        if '[witness]' in ob.name:
            rho = z3.Const('rho_t', Z.Env)
            sig['Den(self,rho_t)'] = ev(Z.Den(n, rho))
            sig['truthy(own value)'] = ev(Z.truthy(Z.hv_value(z3.Select(rho, Z.nid(n)))))
            sig['invert'] = ev(Z.inv(n))
        return sig

    def on_raise(self, eng, o):
        eng.oblige(o.st, f"exit/raise:{o.val.v.name if isinstance(o.val, C) and isinstance(o.val.v, Ref) else o.val}",
                   z3.BoolVal(False), line=0)
