"""C12, branch attachment: rule.refinement and rule.alternative_or_next re-wire the condition tree in place.

Abstract state (mutable, arrays over Node): gparent (the graph parent, `_node_.parent.data`), left / right (operands of a
binary operator), childf (`_child_`).  Classes are the uninterpreted `isa`.

Spec function (over the tree as it is when the function is called)
    wrap0(c)  :=  p = gparent0[c] is an Alternative or a Next, or p is an ExceptIf whose refined (left) side is c
    Top0(c)   :=  Top0(gparent0[c]) if wrap0(c) else c          -- the top of the rule c belongs to
Postconditions taken from the property ("an alternative contributes only when the branches before it did not fire", "the
conclusion of the most specific refinement in place of the conclusion it refines", at any nesting):
    refinement            new = ExceptIf(current, new_branch)
    alternative_or_next   new = Alternative|Next(Top0(current), new_branch)      -- the whole rule, with everything
                                                                                    attached to it so far, comes first
    in both               new takes the place of what it wraps: same parent, and if that parent is a binary operator the
                          slot that held the wrapped node now holds new and the other slot is untouched; no other node's
                          operands change (nothing attached earlier is lost); the new branch is returned.

Trusted (stated in the evidence): the constructors of ExceptIf / Alternative / Next (dataclass __init__ +
BinaryOperator.__post_init__ / _update_children_) return a new node with the given operands and make it the graph parent
of both; the `_parent_` setter sets the graph parent and, for a non-None parent, that parent's `_child_`; `_eval_parent_`
is None while rules are being built; chained_logic returns a node that is not part of the rule tree (its own contract is
in constructors.py); termination of the climb (the graph is finite and acyclic)."""
from __future__ import annotations

import ast

import z3

from eqlvc import z as Z
from eqlvc.interp import (SV, ZV, C, D, Tup, Lst, Obj, Meth, Closure, Ref, NONE, TRUE, FALSE, State, Outcome,
                          OutOfSubset, NEXT, CONTINUE, BREAK, RETURN, RAISE, GENEXIT)
from eqlvc.libmodel import LibModel, base_modenv, isa, str_const

ArrNN = z3.ArraySort(Z.Node, Z.Node)
Top0 = z3.Function('Top0', Z.Node, Z.Node)
InTree = z3.Function('InTree', Z.Node, Z.B)
Alive = z3.Function('Alive0', Z.Node, Z.B)          # allocated before the call

WRAPPERS = ('Alternative', 'Next', 'ExceptIf')


def is_(cls, n):
    return isa(str_const(cls), n)


class RuleBuild(LibModel):
    cls = None
    props = ('C12',)
    modes = ('sound',)
    type_cases = (None,)
    trusted = ("constructors of ExceptIf / Alternative / Next: new node with the given operands, graph parent of both",
               "`_parent_` setter: sets the graph parent and the new parent's `_child_`; `_eval_parent_` is None while "
               "rules are built",
               "chained_logic returns a node outside the rule tree (contract in constructors.py)",
               "termination of the climb in alternative_or_next (finite acyclic graph)",
               "RT: the binary operators above a rule node are ExceptIf / Alternative / Next nodes (rule trees are built "
               "only by rule.refinement / alternative / next_rule)")

    def modenv(self):
        env = base_modenv()
        for c in ('AND', 'BinaryOperator', 'Alternative', 'Next', 'ExceptIf', 'SymbolicExpression', 'ValueError'):
            env[c] = C(Ref('class', c))
        env['chained_logic'] = C(Ref('func', 'chained_logic'))
        env['RDREdge'] = C(Ref('module', 'RDREdge'))
        return env

    # ---- pre-state ----
    def setup(self, eng):
        sts = []
        for tc in self.type_cases:
            st = State()
            st.fields = {'gparent': z3.Const('gparent0', ArrNN), 'left': z3.Const('left0', ArrNN),
                         'right': z3.Const('right0', ArrNN), 'childf': z3.Const('child0', ArrNN)}
            st.ghost['pre'] = dict(st.fields)
            cur = z3.Const('current0', Z.Node)
            nb = z3.Const('new_branch', Z.Node)
            st.ghost['current0'], st.ghost['new_branch'] = cur, nb
            st.ghost['created'] = []
            st.assume(cur != Z.NoneNode, InTree(cur), Alive(cur), nb != Z.NoneNode, z3.Not(InTree(nb)), Alive(nb),
                      z3.Select(st.fields['gparent'], nb) == Z.NoneNode, z3.Not(InTree(Z.NoneNode)))
            st.locals['conditions'] = Tup([])
            if tc is not None:
                st.locals['type_'] = C(Ref('enum', 'RDREdge.' + tc))
                st.path.append('type_=' + tc)
            st.ghost['type_case'] = tc
            self.know(st, cur)
            sts.append(st)
        return sts

    def wrap0(self, st, c):
        pre = st.ghost['pre']
        p = z3.Select(pre['gparent'], c)
        return z3.And(p != Z.NoneNode, z3.Or(is_('Alternative', p), is_('Next', p),
                                             z3.And(is_('ExceptIf', p), z3.Select(pre['left'], p) == c)))

    def know(self, st, c):
        """instances, at node c, of the well-formedness of the tree the function is called on and of Top0's definition"""
        pre = st.ghost['pre']
        p = z3.Select(pre['gparent'], c)
        l, r = z3.Select(pre['left'], p), z3.Select(pre['right'], p)
        st.assume(
            # an operand of a binary operator sits in exactly one of its two slots
            z3.Implies(z3.And(c != Z.NoneNode, p != Z.NoneNode, is_('BinaryOperator', p)), z3.And(z3.Or(l == c, r == c), l != r)),
            # the tree is closed under parents and consists of nodes that exist
            z3.Implies(z3.And(c != Z.NoneNode, InTree(c), p != Z.NoneNode), z3.And(InTree(p), Alive(p))),
            # RT (precondition, rule trees): a binary operator that has a rule as an operand is one of the three wrappers
            # (rules are only ever wrapped by refinement / alternative / next_rule)
            z3.Implies(z3.And(c != Z.NoneNode, InTree(c), p != Z.NoneNode, is_('BinaryOperator', p)),
                       z3.Or(*[is_(w, p) for w in WRAPPERS])),
            # class hierarchy
            *[z3.Implies(is_(w, p), is_('BinaryOperator', p)) for w in WRAPPERS],
            z3.Implies(is_('ExceptIf', p), z3.And(z3.Not(is_('Alternative', p)), z3.Not(is_('Next', p)))),
            Top0(c) == z3.If(self.wrap0(st, c), Top0(p), c))

    # ---- library model ----
    def getattr(self, eng, st, recv, name):
        if isinstance(recv, ZV) and recv.ty in ('node', 'optnode'):
            n = recv.t
            if name == '_parent_':
                st = st.clone()
                self.know(st, n)
                return [(st, ZV(z3.Select(st.fields['gparent'], n), 'optnode'))]
            if name in ('left', 'right'):
                if recv.ty == 'optnode':
                    eng.oblige(st, f"safe/non-None.{name}", n != Z.NoneNode)
                return [(st, ZV(z3.Select(st.fields[name], n), 'node'))]
            if name == '_node_':
                return [(st, Obj('rxnode', {'of': n}))]
            raise OutOfSubset(f"attribute .{name} of a node")
        if isinstance(recv, C) and recv.v == Ref('module', 'RDREdge'):
            return [(st, C(Ref('enum', 'RDREdge.' + name)))]
        if isinstance(recv, C) and recv.v == Ref('class', 'SymbolicExpression') and name == '_current_parent_':
            return [(st, C(Ref('func', '_current_parent_')))]
        return super().getattr(eng, st, recv, name)

    def setattr(self, eng, st, recv, name, v):
        if isinstance(recv, Obj) and recv.kind == 'rxnode':
            return [st]            # plotting attributes (edge weight) only
        if isinstance(recv, ZV) and recv.ty in ('node', 'optnode'):
            n = recv.t
            st = st.clone()
            if recv.ty == 'optnode':
                eng.oblige(st, f"safe/non-None.set.{name}", n != Z.NoneNode)
            val = Z.NoneNode if (isinstance(v, C) and v.v is None) else v.t
            if name == '_parent_':
                st.fields['gparent'] = z3.Store(st.fields['gparent'], n, val)
                st.fields['childf'] = z3.If(val != Z.NoneNode, z3.Store(st.fields['childf'], val, n), st.fields['childf'])
                return [st]
            if name in ('left', 'right'):
                st.fields[name] = z3.Store(st.fields[name], n, val)
                return [st]
        return None

    def call(self, eng, st, f, args, kwargs, node):
        if isinstance(f, C) and f.v == Ref('func', 'chained_logic'):
            return [(st, ZV(st.ghost['new_branch'], 'node'))]
        if isinstance(f, C) and f.v == Ref('func', '_current_parent_'):
            return [(st, ZV(st.ghost['current0'], 'node'))]
        if isinstance(f, C) and isinstance(f.v, Ref) and f.v.kind == 'class' and f.v.name in WRAPPERS:
            a, b = args
            st = st.clone()
            new = z3.Const(f"new{len(st.ghost['created'])}", Z.Node)
            st.ghost['created'] = st.ghost['created'] + [(new, f.v.name)]
            st.assume(new != Z.NoneNode, z3.Not(Alive(new)), is_(f.v.name, new), is_('BinaryOperator', new),
                      *[z3.Not(is_(w, new)) for w in WRAPPERS if w != f.v.name])
            st.fields['left'] = z3.Store(st.fields['left'], new, a.t)
            st.fields['right'] = z3.Store(st.fields['right'], new, b.t)
            st.fields['gparent'] = z3.Store(z3.Store(z3.Store(st.fields['gparent'], new, Z.NoneNode), a.t, new), b.t, new)
            st.fields['childf'] = z3.Store(st.fields['childf'], new, Z.NoneNode)
            return [(st, ZV(new, 'node'))]
        if isinstance(f, C) and f.v == Ref('class', 'ValueError'):
            return [(st, C(Ref('exc', 'ValueError')))]
        return super().call(eng, st, f, args, kwargs, node)

    def accepts_star(self, f):
        return isinstance(f, C) and f.v == Ref('func', 'chained_logic')

    # ---- while: arbitrary-iteration rule with the invariant Top0(current_node) == Top0(current0) ----
    def while_invariant(self, st):
        # the climb variable is the one local the loop body writes (whatever it is called)
        c = st.locals[st.ghost['while_var']]
        if not (isinstance(c, ZV) and c.ty in ('node', 'optnode')):
            raise OutOfSubset("climb variable is not a node")
        return z3.And(Top0(c.t) == Top0(st.ghost['current0']), c.t != Z.NoneNode, InTree(c.t), Alive(c.t))

    def while_stmt(self, eng, st, s):
        for n in ast.walk(ast.Module(body=s.body, type_ignores=[])):
            if isinstance(n, (ast.Attribute, ast.Subscript)) and isinstance(n.ctx, ast.Store):
                raise OutOfSubset("heap write inside while", s)
        written = eng.written_names(s.body)
        if len(written) != 1 or written[0] not in st.locals:
            raise OutOfSubset("while loop writing other than one existing local", s)
        st = st.clone()
        st.ghost['while_var'] = written[0]
        eng.oblige(st, "inv@while/init", self.while_invariant(st), line=s.lineno)
        h = st.clone()
        for nm in eng.written_names(s.body):
            if nm in h.locals and isinstance(h.locals[nm], ZV) and h.locals[nm].ty in ('node', 'optnode'):
                h.locals[nm] = ZV(z3.FreshConst(Z.Node, nm), 'node')
            else:
                raise OutOfSubset(f"while writes {nm}", s)
        h.assume(self.while_invariant(h))
        h.path.append(f"L{s.lineno}while:arbitrary")
        outs = []
        for s2, c in eng.eval(s.test, h):
            for s3, tv in eng.branch(s2, eng.truth(s2, c), f"L{s.lineno}while"):
                if not tv:
                    outs.append(Outcome(s3))
                    continue
                for o in eng.exec_block(s.body, s3):
                    if o.sig in (NEXT, CONTINUE):
                        eng.oblige(o.st, "inv@while/preserved", self.while_invariant(o.st), line=s.lineno)
                    elif o.sig == BREAK:
                        outs.append(Outcome(o.st))
                    else:
                        outs.append(o)
        return outs

    # ---- postconditions ----
    wrapper_for = {}

    def wrapped(self, st):
        raise NotImplementedError

    def on_exit(self, eng, o):
        st = o.st
        tc = st.ghost['type_case']
        want_cls = self.wrapper_for.get(tc)
        if o.sig == RAISE:
            nm = o.val.v.name if isinstance(o.val, C) and isinstance(o.val.v, Ref) else str(o.val)
            eng.oblige(st, "C12/attach/raises-only-for-an-unknown-branch-type", z3.BoolVal(want_cls is None and nm == 'ValueError'))
            return
        if o.sig != RETURN or want_cls is None:
            eng.oblige(st, "C12/attach/returns", z3.BoolVal(False))
            return
        pre, post = st.ghost['pre'], st.fields
        nb = st.ghost['new_branch']
        created = st.ghost['created']
        eng.oblige(st, "C12/attach/one-new-node-of-the-right-class",
                   z3.BoolVal(len(created) == 1 and created[0][1] == want_cls))
        if len(created) != 1:
            return
        new = created[0][0]
        top = self.wrapped(st)
        self.know(st, top)
        pp = z3.Select(pre['gparent'], top)
        sel = z3.Select
        eng.oblige(st, "C12/attach/returns-the-new-branch", z3.BoolVal(isinstance(o.val, ZV)) if not isinstance(o.val, ZV) else o.val.t == nb)
        eng.oblige(st, "C12/attach/new-node-wraps-the-whole-rule-and-the-new-branch",
                   z3.And(sel(post['left'], new) == top, sel(post['right'], new) == nb,
                          sel(post['gparent'], top) == new, sel(post['gparent'], nb) == new))
        eng.oblige(st, "C12/attach/new-node-takes-the-place-of-the-rule-it-wraps",
                   z3.And(sel(post['gparent'], new) == pp,
                          z3.Implies(z3.And(pp != Z.NoneNode, is_('BinaryOperator', pp)),
                                     z3.If(sel(pre['left'], pp) == top,
                                           z3.And(sel(post['left'], pp) == new, sel(post['right'], pp) == sel(pre['right'], pp)),
                                           z3.And(sel(post['right'], pp) == new, sel(post['left'], pp) == sel(pre['left'], pp)))),
                          z3.Implies(z3.And(pp != Z.NoneNode, z3.Not(is_('BinaryOperator', pp))), sel(post['childf'], pp) == new)))
        z = z3.FreshConst(Z.Node, 'z')
        eng.oblige(st, "C12/attach/nothing-attached-earlier-is-lost",
                   z3.And(z3.Implies(z3.And(z != new, z != pp),
                                     z3.And(sel(post['left'], z) == sel(pre['left'], z), sel(post['right'], z) == sel(pre['right'], z))),
                          z3.Implies(z3.And(z != new, z != top, z != nb), sel(post['gparent'], z) == sel(pre['gparent'], z))),
                   hyp=[Alive(z)])

    def signature(self, ob, model):
        n = z3.Const('current0', Z.Node)
        pre_p = z3.Select(z3.Const('gparent0', ArrNN), n)

        def ev(t):
            return str(model.eval(t, model_completion=True))
        return {'parent_is_ExceptIf': ev(is_('ExceptIf', pre_p)), 'parent_is_Alternative': ev(is_('Alternative', pre_p)),
                'current_is_left_of_parent': ev(z3.Select(z3.Const('left0', ArrNN), pre_p) == n)}


class RefinementBuild(RuleBuild):
    qual = 'rule:refinement'
    wrapper_for = {None: 'ExceptIf'}

    def wrapped(self, st):
        return st.ghost['current0']


class AlternativeOrNextBuild(RuleBuild):
    qual = 'rule:alternative_or_next'
    type_cases = ('Alternative', 'Next', 'Then')
    wrapper_for = {'Alternative': 'Alternative', 'Next': 'Next'}

    def wrapped(self, st):
        return Top0(st.ghost['current0'])


CONTRACTS = [RefinementBuild, AlternativeOrNextBuild]
