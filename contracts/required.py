"""`_required_variables_from_child_` overrides and `_is_duplicate_output_` (C02, C16: duplicate suppression must never
drop a row that differs from every earlier row in a selected expression).

Abstract view: a HashedIterable of variables is the set of their ids.  Contracts (monotone in the parent's answer):
    operators (base class, BinaryOperator, OR, ExceptIf):  result  >=  parent's answer
    QueryObjectDescriptor:                                  result  >=  parent's answer  U  ids(selected_variables)
    ResultQuantifier:                                       result  >=  parent's answer  U  ids(child.selected_variables)
By induction up the tree, the set a node below a descriptor is de-duplicated on contains every selected expression
of that descriptor; `_is_duplicate_output_` then only reports a duplicate when an earlier output agreed on all of them."""
from __future__ import annotations

import ast

import z3

from eqlvc import z as Z
from eqlvc.interp import (SV, ZV, C, D, Tup, Lst, Obj, Meth, Closure, Ref, NONE, TRUE, FALSE, State, Outcome,
                          OutOfSubset, NEXT, CONTINUE, BREAK, RETURN, RAISE, GENEXIT)
from eqlvc.libmodel import LibModel, base_modenv, init_fields, static_parent

SelIds = z3.Function('SelIds', Z.Node, Z.ArrIB)       # ids of node.selected_variables
UV = z3.Function('UV', Z.Node, Z.ArrIB)               # ids of node._unique_variables_
ConcIds = z3.Function('ConcIds', Z.Node, Z.ArrIB)     # ids of the variables of the conclusions attached to a node
DescConcIds = z3.Function('DescConcIds', Z.Node, Z.ArrIB)   # ... of the conclusions attached to the node's descendants
FALSE_IDS = z3.K(Z.I, z3.BoolVal(False))
TRUE_IDS = z3.K(Z.I, z3.BoolVal(True))


def subset(a, b):
    return z3.Map(Z.IMP_D, a, b) == TRUE_IDS


def _valid(f):
    s = z3.Solver()
    s.set('timeout', 30000)     # decisive (which sets every iteration added to): sized for a fully loaded machine
    s.add(z3.Not(f))
    return s.check() == z3.unsat


class ReqModel(LibModel):
    modes = ('sound',)
    props = ('C02', 'C16', 'C15')
    needs_parent = False
    adds_selected_of = None       # 'self' | 'child' | None
    child_cases = ('none', 'left', 'right', 'other')

    def modenv(self):
        return base_modenv()

    def setup(self, eng):
        sts = []
        self.n = z3.Const('self', Z.Node)
        self.parent = z3.Const('parent', Z.Node)
        self.req_parent = z3.Const('ReqParent', Z.ArrIB)
        params = [a.arg for a in eng.fdef.args.args]
        for has_parent in ([True] if self.needs_parent else [True, False]):
            for child_case in self.child_cases:
                for wt in (True, False, None):
                    st = State()
                    st.fields = init_fields()
                    st.ghost['self'] = self.n
                    st.ghost['idsets'] = {}
                    st.ghost['parent'] = self.parent if has_parent else Z.NoneNode
                    st.path.append(f"parent={'yes' if has_parent else 'no'},child={child_case},when_true={wt}")
                    st.locals['self'] = ZV(self.n, 'node')
                    st.assume(self.parent != Z.NoneNode, Z.f_left(self.n) != Z.f_right(self.n),
                              Z.f_left(self.n) != Z.NoneNode, Z.f_right(self.n) != Z.NoneNode)
                    if child_case == 'none':
                        st.locals['child'] = NONE
                    elif child_case == 'left':
                        st.locals['child'] = ZV(Z.f_left(self.n), 'node')
                    elif child_case == 'right':
                        st.locals['child'] = ZV(Z.f_right(self.n), 'node')
                    else:
                        c = z3.Const('some_child', Z.Node)
                        st.assume(c != Z.NoneNode, c != Z.f_left(self.n), c != Z.f_right(self.n))
                        st.locals['child'] = ZV(c, 'node')
                    st.locals['when_true'] = C(wt)
                    sts.append(st)
        return sts

    # ---- id sets
    def new_idset(self, eng, st, content):
        r = eng.new_ref()
        s = dict(st.ghost['idsets'])
        s[r] = content
        st.ghost['idsets'] = s
        return Obj('idset', {'ref': r})

    def new_HashedIterable(self, eng, st, args, kwargs, node):
        if args or kwargs:
            raise OutOfSubset("HashedIterable(...) with arguments", node)
        st = st.clone()
        return [(st, self.new_idset(eng, st, FALSE_IDS))]

    def ids_of(self, eng, st, v):
        if isinstance(v, Obj) and v.kind == 'idset':
            return st.ghost['idsets'][v.data['ref']]
        if isinstance(v, Obj) and v.kind == 'uniqvars':
            return UV(v.data['of'])
        if isinstance(v, Obj) and v.kind == 'selvars':
            return SelIds(v.data['of'])
        raise OutOfSubset(f"ids of {v}")

    def obj_idset_update(self, eng, st, recv, args, kwargs, node):
        (o,) = args
        st = st.clone()
        s = dict(st.ghost['idsets'])
        s[recv.data['ref']] = z3.Map(Z.OR_D, s[recv.data['ref']], self.ids_of(eng, st, o))
        st.ghost['idsets'] = s
        return [(st, NONE)]

    def obj_idset_union(self, eng, st, recv, args, kwargs, node):
        # HashedIterable.union(other): a NEW set with the ids of both; neither operand is changed
        (o,) = args
        st = st.clone()
        return [(st, self.new_idset(eng, st, z3.Map(Z.OR_D, st.ghost['idsets'][recv.data['ref']], self.ids_of(eng, st, o))))]

    def obj_idset_add(self, eng, st, recv, args, kwargs, node):
        (o,) = args
        if not (isinstance(o, ZV) and o.ty in ('node', 'optnode')):
            raise OutOfSubset("add of a non-node", node)
        st = st.clone()
        s = dict(st.ghost['idsets'])
        s[recv.data['ref']] = z3.Store(s[recv.data['ref']], Z.nid(o.t), z3.BoolVal(True))
        st.ghost['idsets'] = s
        return [(st, NONE)]

    def getattr(self, eng, st, recv, name):
        if isinstance(recv, ZV) and recv.ty in ('node', 'optnode'):
            if name == '_parent_' and recv.t.eq(self.n):
                return [(st, ZV(st.ghost['parent'], 'optnode'))]
            if name == 'selected_variables':
                return [(st, Obj('selvars', {'of': recv.t}))]
            if name == '_children_':
                return [(st, Obj('children', {'of': recv.t}))]
            if name == '_conclusion_':
                return [(st, Obj('conclusions', {'of': [recv.t]}))]
            if name == '_conclusions_of_all_descendants_':
                return [(st, Obj('conclusions', {'of': [('desc', recv.t)]}))]
        if isinstance(recv, Obj) and recv.kind == 'conclusions' and name == 'union':
            return [(st, Meth(recv, 'union'))]
        return super().getattr(eng, st, recv, name)

    def obj_conclusions_union(self, eng, st, recv, args, kwargs, node):
        (o,) = args
        return [(st, Obj('conclusions', {'of': recv.data['of'] + o.data['of']}))]

    def f_list(self, eng, st, args, kwargs, node):
        if args and isinstance(args[0], Obj) and args[0].kind == 'conclusions':
            return [(st, args[0])]
        return super().f_list(eng, st, args, kwargs, node)

    def binop(self, eng, st, op, a, b):
        if isinstance(op, ast.Add) and all(isinstance(x, Obj) and x.kind == 'conclusions' for x in (a, b)):
            return Obj('conclusions', {'of': a.data['of'] + b.data['of']})
        return None

    @staticmethod
    def conc_ids(src):
        return DescConcIds(src[1]) if isinstance(src, tuple) else ConcIds(src)

    def node__required_variables_from_child_(self, eng, st, recv, args, kwargs, node):
        # the parent's answer (its own contract, by induction on the depth): some set of ids, here a fresh symbolic one
        if not recv.t.eq(st.ghost['parent']):
            raise OutOfSubset("_required_variables_from_child_ of something else than the parent", node)
        st = st.clone()
        st.ghost['asked_parent'] = True
        wt = kwargs.get('when_true', args[1] if len(args) > 1 else C(True))
        st.ghost['asked_when'] = st.ghost.get('asked_when', []) + [wt.v if isinstance(wt, C) else '?']
        return [(st, self.new_idset(eng, st, self.req_parent))]

    def abstract_loop(self, eng, st, s, it, ordinal):
        if isinstance(it, Obj) and it.kind in ('selvars', 'conclusions', 'children'):
            # the body only adds to id sets; an arbitrary element, then a state in which the sets have grown
            b = st.clone()
            if it.kind == 'selvars':
                v = z3.FreshConst(Z.Node, 'selvar')
                b.assume(z3.Select(SelIds(it.data['of']), Z.nid(v)), v != Z.NoneNode)
                elem = ZV(v, 'node')
            elif it.kind == 'children':
                v = z3.FreshConst(Z.Node, 'childnode')
                b.assume(v != Z.NoneNode)
                elem = ZV(v, 'node')
            else:
                v = z3.FreshConst(Z.Node, 'conclusion')
                elem = ZV(v, 'node')
            pre_sets = dict(st.ghost['idsets'])
            outs = []
            for b2 in eng.assign(s.target, elem, b):
                for o in eng.exec_block(s.body, b2):
                    if o.sig in (NEXT, CONTINUE):
                        for r, c0 in pre_sets.items():
                            eng.oblige(o.st, f"req/loop@L{s.lineno}/sets-only-grow", subset(c0, o.st.ghost['idsets'][r]), line=s.lineno)
                        if it.kind == 'selvars':
                            # which sets received this element? (recorded for the exit state)
                            o.st.ghost['_added'] = [r for r in pre_sets
                                                    if not eng.feasible(o.st, z3.Not(z3.Select(o.st.ghost['idsets'][r], Z.nid(v))),
                                                                        timeout_ms=30000)]
                            got = o.st.ghost['_added']
                            st.ghost.setdefault('_sel_added', []).append((it.data['of'], got))
                        if it.kind == 'conclusions':
                            # which sets received all the variables of this (arbitrary) conclusion?
                            got = [r for r in pre_sets if _valid(subset(UV(v), o.st.ghost['idsets'][r]))]
                            st.ghost.setdefault('_sel_added', []).append((None, got))
                    elif o.sig == BREAK:
                        outs.append(Outcome(o.st))
                    else:
                        outs.append(o)
            e = st.clone()
            sets = {}
            added = None
            for (of, got) in st.ghost.get('_sel_added', []):
                added = set(got) if added is None else (added & set(got))
            for r, c0 in pre_sets.items():
                f = z3.FreshConst(Z.ArrIB, 'grown')
                e.assume(subset(c0, f))
                if it.kind == 'selvars' and added and r in added:
                    e.assume(subset(SelIds(it.data['of']), f))      # every iteration added its element to this set
                if it.kind == 'conclusions' and added and r in added:
                    # every iteration added the variables of its conclusion: the set contains the variables of all of them
                    for src in it.data['of']:
                        e.assume(subset(self.conc_ids(src), f))
                sets[r] = f
            e.ghost['idsets'] = sets
            e.ghost.pop('_sel_added', None)
            st.ghost.pop('_sel_added', None)
            outs.append(Outcome(e))
            return outs
        return super().abstract_loop(eng, st, s, it, ordinal)

    def on_exit(self, eng, o):
        st = o.st
        if o.sig != RETURN or not (isinstance(o.val, Obj) and o.val.kind == 'idset'):
            eng.oblige(st, "req/returns-a-set", z3.BoolVal(False))
            return
        res = st.ghost['idsets'][o.val.data['ref']]
        if not st.ghost['parent'].eq(Z.NoneNode):
            eng.oblige(st, "req/contains-the-parents-answer", subset(self.req_parent, res))
            eng.oblige(st, "req/asks-the-parent", z3.BoolVal(bool(st.ghost.get('asked_parent'))))
        if self.adds_selected_of == 'self':
            eng.oblige(st, "req/contains-every-selected-expression", subset(SelIds(self.n), res))
        elif self.adds_selected_of == 'child':
            ch = st.locals.get('child')
            c = Z.f_child(self.n) if isinstance(ch, C) else ch.t
            eng.oblige(st, "req/contains-every-selected-expression", subset(SelIds(c), res))

    def signature(self, ob, model):
        return {}


SKIP = object()


class SiblingMixin:
    """C02: a row of the left operand that differs from every earlier row in a variable the right operand reads must not be
    suppressed as a duplicate when the right operand is evaluated next (AND: after a true left row; OR / ElseIf: after a false
    one; ExceptIf: after a true one): for those truth values the left operand's de-duplication key contains the right
    operand's variables."""
    right_evaluated_after_left = ()        # values of when_true for which the clause is required
    right_concludes = False                # the right operand is a rule branch whose conclusions are selected (else-if)
    own_truth = None                       # (child is left?, truth of the child) -> truth of the operator, None = not determined

    def on_exit(self, eng, o):
        super().on_exit(eng, o)
        st = o.st
        if o.sig != RETURN or not (isinstance(o.val, Obj) and o.val.kind == 'idset'):
            return
        ch = st.locals.get('child')
        wt = st.locals.get('when_true')
        is_left = (isinstance(ch, C) and ch.v is None) or (isinstance(ch, ZV) and ch.t.eq(Z.f_left(self.n)))
        is_right = isinstance(ch, ZV) and ch.t.eq(Z.f_right(self.n))
        if self.own_truth is not None and (is_left or is_right) and isinstance(wt, C) and st.ghost.get('asked_when'):
            # the parent is asked what it needs for the truth value THIS operator will have - which a child's truth value
            # does not always determine (a true left operand of a conjunction, a false left operand of a disjunction):
            # then it must be asked without assuming one (None); asking with None is always allowed
            mine = self.own_truth(is_left, wt.v)
            ok = mine is SKIP or all(a is None or (mine is not None and a == mine) for a in st.ghost['asked_when'])
            eng.oblige(st, "req/parent-is-asked-for-the-truth-value-the-operator-can-actually-have", z3.BoolVal(bool(ok)),
                       asked=repr(st.ghost['asked_when']), own=repr(mine))
        if is_left and isinstance(wt, C) and wt.v in self.right_evaluated_after_left:
            res = st.ghost['idsets'][o.val.data['ref']]
            eng.oblige(st, "req/left-operand-key-contains-the-variables-the-right-operand-reads",
                       subset(UV(Z.f_right(self.n)), res))
            if self.right_concludes:
                r = Z.f_right(self.n)
                eng.oblige(st, "req/left-operand-key-contains-the-variables-the-right-branch-concludes-with",
                           z3.And(subset(ConcIds(r), res), subset(DescConcIds(r), res)))


class ReqBase(ReqModel):
    qual = 'symbolic:SymbolicExpression._required_variables_from_child_'
    cls = 'SymbolicExpression'


class ReqQuantifier(ReqModel):
    """monotone only: whether the quantifier or its descriptor contributes the selected expressions is decided on the pair
    (ReqDescriptor executes this method's real body as its parent's answer)"""
    qual = 'symbolic:ResultQuantifier._required_variables_from_child_'
    cls = 'ResultQuantifier'
    props = ('C02', 'C16', 'C15')

    def on_exit(self, eng, o):
        super().on_exit(eng, o)
        st = o.st
        wt = st.locals.get('when_true')
        if o.sig == RETURN and isinstance(wt, C) and st.ghost.get('asked_when'):
            # a quantifier is true exactly when its descriptor is: the parent is asked for that same truth value (or without
            # assuming one)
            ok = all(a is None or a == wt.v for a in st.ghost['asked_when'])
            eng.oblige(st, "req/parent-is-asked-for-the-truth-value-the-operator-can-actually-have", z3.BoolVal(bool(ok)),
                       asked=repr(st.ghost['asked_when']), own=repr(wt.v))

    def getattr(self, eng, st, recv, name):
        if isinstance(recv, ZV) and recv.t.eq(self.n) and name == '_child_':
            return [(st, ZV(Z.f_child(self.n), 'node'))]
        return super().getattr(eng, st, recv, name)


class ReqDescriptor(ReqModel):
    """the descriptor together with its quantifier (its parent, whose real method body is executed for the parent's
    answer): the set handed to the conditions contains every selected expression"""
    qual = 'symbolic:QueryObjectDescriptor._required_variables_from_child_'
    cls = 'QueryObjectDescriptor'
    adds_selected_of = 'self'
    needs_parent = True
    trusted = ("the parent of a query descriptor is a ResultQuantifier (An / The / Infer) whose _child_ is the descriptor",)

    def getattr(self, eng, st, recv, name):
        if isinstance(recv, ZV) and recv.t.eq(self.n) and name == '_child_':
            return [(st, ZV(Z.f_child(self.n), 'optnode'))]
        if isinstance(recv, ZV) and recv.t.eq(self.parent):
            if name == '_child_':
                return [(st, ZV(self.n, 'node'))]
            if name == '_parent_':
                return [(st, ZV(z3.Const('grandparent', Z.Node), 'optnode'))]
            if name == '_required_variables_from_child_':
                return [(st, Meth(recv, name))]
        return super().getattr(eng, st, recv, name)

    def node__required_variables_from_child_(self, eng, st, recv, args, kwargs, node):
        if recv.t.eq(self.parent):
            st = st.clone()
            st.ghost['asked_parent'] = True
            q = 'symbolic:ResultQuantifier._required_variables_from_child_'
            eng.notes.append('inlined:' + q)
            outs = self.inline_def(eng, st, self.src.get(q), {}, [recv] + list(args), kwargs, node)
            # remember which returned set is "the parent's answer"
            res = []
            for s2, v in outs:
                s2 = s2.clone()
                s2.ghost['parent_answer_ref'] = v.data['ref'] if isinstance(v, Obj) and v.kind == 'idset' else None
                s2.ghost['parent_answer_at_return'] = s2.ghost['idsets'].get(s2.ghost['parent_answer_ref'])
                res.append((s2, v))
            return res
        if recv.t.eq(z3.Const('grandparent', Z.Node)):
            st = st.clone()
            return [(st, self.new_idset(eng, st, z3.Const('ReqGrandparent', Z.ArrIB)))]
        raise OutOfSubset("_required_variables_from_child_ of an unexpected node", node)

    def on_exit(self, eng, o):
        st = o.st
        if o.sig != RETURN or not (isinstance(o.val, Obj) and o.val.kind == 'idset'):
            eng.oblige(st, "req/returns-a-set", z3.BoolVal(False))
            return
        res = st.ghost['idsets'][o.val.data['ref']]
        pa = st.ghost.get('parent_answer_at_return')
        eng.oblige(st, "req/asks-the-parent", z3.BoolVal(bool(st.ghost.get('asked_parent'))))
        if pa is not None:
            eng.oblige(st, "req/contains-the-parents-answer", subset(pa, res))
        eng.oblige(st, "req/contains-every-selected-expression", subset(SelIds(self.n), res))


class ReqBinary(SiblingMixin, ReqModel):
    qual = 'symbolic:BinaryOperator._required_variables_from_child_'
    cls = 'BinaryOperator'
    props = ('C02', 'C16', 'C18', 'C15')
    right_evaluated_after_left = (True, None)
    # conjunction: false as soon as an operand is false; a true left operand leaves it open; a true right operand (the left
    # one was true then) makes it true
    own_truth = staticmethod(lambda is_left, t: None if t is None else (False if t is False else (None if is_left else True)))


class ReqOr(SiblingMixin, ReqModel):
    qual = 'symbolic:OR._required_variables_from_child_'
    cls = 'OR'
    props = ('C02', 'C16', 'C18', 'C12', 'C15')
    right_evaluated_after_left = (False, None)
    right_concludes = True
    # disjunction (else-if): true as soon as an operand is true; a false left operand leaves it open; a false right operand
    # (the left one was false then) makes it false
    own_truth = staticmethod(lambda is_left, t: None if t is None else (True if t is True else (None if is_left else False)))
    child_cases = ('none', 'left', 'right')      # precondition: the child is one of the operator's own operands


class ReqExceptIf(SiblingMixin, ReqModel):
    qual = 'conclusion_selector:ExceptIf._required_variables_from_child_'
    cls = 'ExceptIf'
    needs_parent = True
    props = ('C02', 'C12')
    right_evaluated_after_left = (True,)
    # a rule with a refinement is true exactly when its base (the left operand) is; what the refinement's own truth value
    # means for the parent is not pinned down here (SKIP: no clause for the right operand)
    own_truth = staticmethod(lambda is_left, t: t if is_left else SKIP)


CONTRACTS = [ReqBase, ReqQuantifier, ReqDescriptor, ReqBinary, ReqOr, ReqExceptIf]
