"""Contracts for the quantifier / descriptor layer: An._evaluate__, Entity._evaluate__, SetOf._evaluate__,
QueryObjectDescriptor._evaluate_ (the helper generator that joins the conditions with the selected variables)."""
from __future__ import annotations

import ast

import z3

from eqlvc import z as Z
from eqlvc.interp import (SV, ZV, C, D, Tup, Lst, Obj, Meth, Closure, Ref, NONE, TRUE, FALSE, State, Outcome,
                          OutOfSubset, NEXT, CONTINUE, BREAK, RETURN, RAISE, GENEXIT)
from .interface import (EvalContract, child_shape, tree_shape, MapRel, LeafIds, total, WD, lab, filt, Binds, TRUE_IDS,
                        pre_I, good_hyps)

f_sel = z3.Function('f_sel', Z.Node, Z.I, Z.Node)     # descriptor.selected_variables[i]
has_child = z3.Function('has_child', Z.Node, Z.B)
has_var = z3.Function('has_var', Z.Node, Z.B)


def only_ids(ids):
    a = z3.K(Z.I, z3.BoolVal(False))
    for i in ids:
        a = z3.Store(a, i, z3.BoolVal(True))
    return a


class AnEval(EvalContract):
    """symbolic.An._evaluate__.  Spec (C15): a quantifier used inside a query means the conditions of its
    descriptor; it re-exports the selected variable's binding under its own id; it always filters by truth."""
    qual = 'symbolic:An._evaluate__'
    cls = 'An'
    props = ('C01', 'C02', 'C15', 'C07')
    uses_position = True
    var_optional = True

    def children(self, n):
        return [Z.f_child(n)]

    def shape_facts(self, n):
        c, v = Z.f_child(n), Z.f_var(n)
        return child_shape(n, c) + [
            Z.truth_node(n), Z.truth_node(c),
            Z.is_value(n) == (v != Z.NoneNode),
            Binds(n) == z3.If(v != Z.NoneNode, only_ids([Z.nid(n), Z.nid(v)]), only_ids([])),
            # An.__post_init__: self._var_ = self._child_._var_ ; a descriptor's rows bind its selected variable
            z3.Implies(v != Z.NoneNode, z3.And(z3.Select(Binds(c), Z.nid(v)), z3.Select(Z.SubIds(c), Z.nid(v)),
                                               Z.nid(v) != Z.nid(n))),
        ]

    def den(self, n, rho):
        return Z.Den(Z.f_child(n), rho)

    def binds_def(self, n):
        return None       # given in shape_facts

    def own(self, n, m):
        v = Z.f_var(n)
        return z3.Implies(m.contains(Z.nid(n)),
                          z3.And(v != Z.NoneNode, m.contains(Z.nid(v)), m.get(Z.nid(n)) == m.get(Z.nid(v))))


class DescriptorMixin:
    """shared by Entity / SetOf / QOD._evaluate_: self._child_ is optional, selected variables are value operands."""
    child_optional = True
    K = 1      # number of selected variables in this instance of the contract

    def sel(self, n):
        return [f_sel(n, z3.IntVal(i)) for i in range(self.K)]

    def children(self, n):
        return [Z.f_child(n)] + self.sel(n)

    def shape_facts(self, n):
        c = Z.f_child(n)
        facts = [Z.truth_node(n), z3.Not(Z.is_value(n)), has_child(n) == (c != Z.NoneNode)]
        # class invariant: a descriptor only ever copies its flag from its conditions; without conditions it stays False
        facts.append(z3.Implies(c == Z.NoneNode, z3.Not(z3.Select(z3.Const('is_false0', Z.ArrNB), n))))
        facts += [z3.Implies(c != Z.NoneNode, f) for f in child_shape(n, c) if not f.eq(c != Z.NoneNode)]
        # the conditions root stands in condition position (it is `_conditions_root_` by construction)
        facts += [z3.Implies(c != Z.NoneNode, Z.cond_pos(c))]
        sels = self.sel(n)
        for i, s in enumerate(sels):
            facts += child_shape(n, s)
            facts += [z3.Not(Z.cond_pos(s)), z3.Not(Z.truth_node(s)), Z.is_value(s)]
            facts += [z3.Implies(c != Z.NoneNode, f) for f in tree_shape(c, s)[:1]]
            for j in range(i):
                facts += tree_shape(sels[j], s)[:1] + [Z.nid(sels[j]) != Z.nid(s)]
        facts.append(Binds(n) == only_ids([Z.nid(s) for s in sels]))
        if getattr(self, 'leaf_selected', False):
            facts += [z3.Select(LeafIds, Z.nid(s)) for s in sels]
            facts += [Z.SubIds(s) == only_ids([Z.nid(s)]) for s in sels]
        return facts

    def signature(self, ob, model):
        sig = super().signature(ob, model)
        n = z3.Const('self', Z.Node)
        for i, s in enumerate(self.sel(n)):
            sig[f'selected{i}_is_plain_variable'] = str(model.eval(z3.Select(LeafIds, Z.nid(s)), model_completion=True))
        return sig

    def position_assumed(self, st, c):
        # T3: a selected expression is evaluated as a value; it is assumed not to be, at the same time, a direct
        # operand of a logical operator whose evaluation is still suspended (its position test then sees `value`)
        return any(c.eq(s) for s in self.sel(st.ghost['self']))

    def binds_def(self, n):
        return None       # given in shape_facts

    def node__inform_selected_variables_that_they_should_be_inferred_(self, eng, st, recv, args, kwargs, node):
        q = self.src.resolve_method(self.cls, '_inform_selected_variables_that_they_should_be_inferred_')
        return self.inline_method(eng, st, q, recv, args, kwargs, node)

    def den(self, n, rho):
        c = Z.f_child(n)
        return z3.If(c != Z.NoneNode, Z.Den(c, rho), z3.BoolVal(True))

    def good(self, n, m):
        c = Z.f_child(n)
        return z3.And(*([z3.Implies(c != Z.NoneNode, Z.good_row(c, m))] + [Z.good_row(s, m) for s in self.sel(n)]))

    def wd(self, n, rho):
        c = Z.f_child(n)
        return z3.And(*([z3.Implies(c != Z.NoneNode, Z.WD(c, rho))] + [Z.WD(s, rho) for s in self.sel(n)]))

    def getattr(self, eng, st, recv, name):
        if isinstance(recv, ZV) and recv.ty == 'node' and recv.t.eq(st.ghost['self']):
            if name == 'selected_variables':
                return [(st, Lst([ZV(s, 'node') for s in self.sel(recv.t)]))]
            if name == 'selected_variable':
                # Entity.selected_variable: selected_variables[0] if any else None
                return [(st, ZV(self.sel(recv.t)[0], 'node') if self.K >= 1 else NONE)]
            if name == 'rule_mode':
                return [(st, C(False))]      # this contract: query mode (rule mode: contracts/rules.py)
        return super().getattr(eng, st, recv, name)

    def node__warn_on_unbound_variables_(self, eng, st, recv, args, kwargs, node):
        return [(st, NONE)]      # diagnostics only: writes warned_vars and the logger (scan in trusted list)

    def node__evaluate_(self, eng, st, recv, args, kwargs, node):
        sel = args[0] if args else kwargs.get('selected_vars', NONE)
        srcs = args[1] if len(args) > 1 else kwargs.get('sources', NONE)
        f = args[2] if len(args) > 2 else kwargs.get('yield_when_false', FALSE)
        return [(st, Obj('stream', {'node': recv.t, 'sigma': srcs, 'ywf': eng.to_z3_bool(eng.truth(st, f)),
                                    'line': node.lineno, 'own_method': True, 'selected': sel}))]


class EntityEval(DescriptorMixin, EvalContract):
    """symbolic.Entity._evaluate__ with one selected variable (K=1) – called by An with a dict (never None)."""
    qual = 'symbolic:Entity._evaluate__'
    cls = 'Entity'
    props = ('C01', 'C15', 'C16', 'C19', 'C07')
    K = 1
    source_cases = ('empty', 'nonempty')
    trusted = ("requires `sources` is a dict (An._evaluate__, the only caller, passes `sources or {}`)",
               "Entity.selected_variable == selected_variables[0] (property, 1 line)")


class EntityNoVarEval(DescriptorMixin, EvalContract):
    qual = 'symbolic:Entity._evaluate__'
    cls = 'Entity'
    props = ('C01',)
    K = 0
    source_cases = ('empty', 'nonempty')


class QODEvaluate(DescriptorMixin, EvalContract):
    """QueryObjectDescriptor._evaluate_(selected_vars, sources, yield_when_false) in query mode, no conclusions.

    Spec (C02/C16): rows are the rows of the conditions completed with a binding for every selected variable; an
    unbound selected variable is completed over its domain (Cartesian product), a bound one keeps its binding."""
    qual = 'symbolic:QueryObjectDescriptor._evaluate_'
    cls = 'QueryObjectDescriptor'
    props = ('C01', 'C02', 'C15', 'C16', 'C19', 'C07')
    K = 1
    inline_gens = ('_bind_selected_variables_',)
    trusted = ("no rule conclusions attached (query mode); rule mode is covered by contracts/rules.py",
               "_warn_on_unbound_variables_ has no effect on evaluation state (writes warned_vars / logger only)",
               "itertools.product via utils.generate_combinations: every combination of one row per stream (A6)")

    def setup(self, eng):
        sts = super().setup(eng)
        out = []
        for st in sts:
            n = st.ghost['self']
            for with_sel in ([True, False] if self.K > 0 else [False]):
                s2 = st.clone()
                s2.path.append(f"selected={'given' if with_sel else 'none'}")
                s2.locals['selected_vars'] = Lst([ZV(s, 'node') for s in self.sel(n)]) if with_sel else NONE
                if not with_sel:
                    # called without selected variables: nothing has to be bound
                    s2.assume(Binds(n) == Binds(n))
                    s2.ghost['no_sel'] = True
                out.append(s2)
        return out

    def binds_ids(self, st, n):
        # `_evaluate_` binds the selected variables it was given
        return only_ids([]) if st.ghost.get('no_sel') else Binds(n)

    def obj_conclusions___iter__(self, *a):
        raise OutOfSubset("conclusions")

    def abstract_loop(self, eng, st, s, it, ordinal):
        if isinstance(it, Obj) and it.kind == 'conclusions':
            return [Outcome(st)]      # query mode: no conclusions (precondition of this contract)
        if isinstance(it, Obj) and it.kind == 'product':
            return self.loop_product(eng, st, s.target, s.body, it, ordinal, s)
        return super().abstract_loop(eng, st, s, it, ordinal)

    def f_generate_combinations(self, eng, st, args, kwargs, node):
        (pm,) = args
        if not (isinstance(pm, Obj) and pm.kind == 'pymap'):
            raise OutOfSubset("generate_combinations argument", node)
        return [(st, Obj('product', {'items': pm.data['items'], 'line': node.lineno}))]

    def loop_product(self, eng, st, target, body, prod, ordinal, node):
        """itertools.product over one stream per key: every combination of one row per stream, all streams consumed
        before the first combination."""
        items = prod.data['items']
        st = st.clone()
        for i, (k, stream) in enumerate(items):
            c = stream.data['node']
            sig, sref = self.sigma_of(eng, st, stream)
            self.check_callee_pre(eng, st, c, sig, stream.data['line'], f"#prod{ordinal}.{i}")
        rho = st.ghost.get('rho_t')

        def iteration(h, witness=False):
            b = h.clone()
            rows = []
            for i, (k, stream) in enumerate(items):
                c = stream.data['node']
                b.ghost['frames'] = b.ghost.get('frames', []) + [c]
                sig, sref = self.sigma_of(eng, b, stream)
                row = eng.new_dict(b, Z.ZMap.fresh(f'prow{i}'))
                m = self.assume_row(b, c, sig, stream.data['ywf'], b.dicts[row.ref], filt(c, b.fields['eval_parent']))
                if witness:
                    b.assume(Z.ext(rho, m))
                rows.append((k, row))
            combo = Obj('combo', {'items': rows})
            res = []
            for b2 in eng.assign(target, combo, b):
                res.extend(eng.exec_block(body, b2))
            return res

        def frames(h):
            h = h.clone()
            for (k, stream) in items:
                c = stream.data['node']
                h.fields['is_false'] = Z.havoc_sub(h.fields['is_false'], c, Z.ITE_B)
                h.fields['ywf'] = Z.havoc_sub(h.fields['ywf'], c, Z.ITE_B)
                h.fields['eval_parent'] = Z.havoc_sub(h.fields['eval_parent'], c, Z.ITE_N)
            return h

        outs = []
        if eng.mode == 'sound':
            mutated = self.scout_mutations(eng, frames(st), body, iteration)
            h = self.havoc_for_loop(eng, frames(st), body, extra_refs=mutated)
            for o in iteration(h):
                if o.sig in (NEXT, CONTINUE):
                    pass
                elif o.sig == BREAK:
                    outs.append(Outcome(o.st))
                else:
                    outs.append(o)
            outs.append(Outcome(h))
            return outs
        hyps = []
        for (k, stream) in items:
            c = stream.data['node']
            sig, _ = self.sigma_of(eng, st, stream)
            hyps.append(z3.And(Z.ext(rho, sig), WD(c, rho),
                               z3.Implies(filt(c, st.fields['eval_parent']), z3.Or(Z.Den(c, rho), stream.data['ywf']))))
        for b, holds in eng.branch(st, z3.And(*hyps), f"WP{ordinal}"):
            mutated = self.scout_mutations(eng, frames(b), body, iteration)
            h = self.havoc_for_loop(eng, frames(b), body, extra_refs=mutated)
            if not holds:
                outs.append(Outcome(h))
                continue
            for o in iteration(h, witness=True):
                if o.sig in (NEXT, CONTINUE, BREAK):
                    if self.is_covered(eng, o.st):
                        outs.append(Outcome(o.st, 'covered'))
                    else:
                        outs.append(Outcome(self.havoc_for_loop(eng, o.st, body, extra_refs=mutated)))
                else:
                    outs.append(o)
        return outs


class QODEvaluateLeaf(QODEvaluate):
    """selected variables are plain variables (leaves): the case of C01 / C02"""
    props = ('C01', 'C02', 'C07')
    K = 1
    leaf_selected = True


class QODEvaluate2(QODEvaluate):
    """the same with two selected variables (set_of): Cartesian completion of two unbound selected variables."""
    K = 2
    props = ('C02',)
    leaf_selected = True


class QODEvaluate0(QODEvaluate):
    K = 0
    props = ('C01',)


class SetOfEval(DescriptorMixin, EvalContract):
    """symbolic.SetOf._evaluate__ with one selected variable (the comprehension over the selected variables is
    unrolled; SetOfEval2, thorough tier, does the same with two)"""
    qual = 'symbolic:SetOf._evaluate__'
    cls = 'SetOf'
    props = ('C02', 'C15', 'C16', 'C19')
    K = 1
    source_cases = ('empty', 'nonempty')
    trusted = ("requires `sources` is a dict (An._evaluate__, the only caller, passes `sources or {}`)",)

    def f_next(self, eng, st, args, kwargs, node):
        """next(stream): the first row of a callee stream (StopIteration if it has none)"""
        (s,) = args
        if not (isinstance(s, Obj) and s.kind == 'stream'):
            raise OutOfSubset("next() argument", node)
        c = s.data['node']
        sig, sref = self.sigma_of(eng, st, s)
        st = st.clone()
        self.check_callee_pre(eng, st, c, sig, s.data['line'], f"#next.L{node.lineno}")
        outs = []
        # callee frame
        for fld, ite in (('is_false', Z.ITE_B), ('ywf', Z.ITE_B), ('eval_parent', Z.ITE_N)):
            st.fields[fld] = Z.havoc_sub(st.fields[fld], c, ite)
        # (a) a first row exists
        b = st.clone()
        variants = [False, True] if sref is not None and any(isinstance(v, D) and v.ref == sref for v in b.locals.values()) else [False]
        for alias in variants:
            b2 = b.clone()
            row = D(sref) if alias else eng.new_dict(b2, Z.ZMap.fresh('nrow'))
            self.assume_row(b2, c, b2.dicts[sref] if sref is not None else sig, s.data['ywf'], b2.dicts[row.ref])
            if eng.mode == 'witness':
                # with the selected variable bound in sigma the stream has exactly that row (M2); it covers rho_t
                b2.assume(z3.Implies(z3.And(Z.ext(b2.ghost['rho_t'], sig)), Z.ext(b2.ghost['rho_t'], b2.dicts[row.ref].merge(sig))))
            outs.append((b2, row))
        # (b) the stream is empty: StopIteration propagates out of the generator (RuntimeError for the consumer)
        e = st.clone()
        fc = filt(c, st.fields['eval_parent'])
        hyp = lambda r: z3.And(Z.ext(r, sig), WD(c, r), z3.Implies(fc, z3.Or(Z.Den(c, r), s.data['ywf'])))
        e.assume(z3.Not(z3.And(sig.contains(Z.nid(c)), z3.Not(lab(c)))))      # clause NE of the interface
        e.qf.append(lambda r: z3.Not(hyp(r)))
        for env in e.ghost.get('envs', []):
            e.assume(e.qf[-1](env))
        eng.pending_raises.append(Outcome(e, RAISE, C(Ref('exc', 'StopIteration'))))
        return outs


class SetOfEval2(SetOfEval):
    K = 2
    tiers = ('thorough',)


CONTRACTS = [SetOfEval2, AnEval, EntityEval, EntityNoVarEval, QODEvaluate, QODEvaluateLeaf, QODEvaluate2, QODEvaluate0, SetOfEval]
