"""Small functions named in the properties' anchors, each against the clause its property needs.

  SymbolicExpression._is_duplicate_output_   (C02, C04, C16)  a row is reported as a duplicate only on a hit of the per-parent,
                                             per-truth seen set for its projection on the required variables; a miss records
                                             exactly that projection; an empty key never suppresses anything
  ResultQuantifier._process_result_          (C01, C19)       for an entity: the value handed to the user is the very object the
                                             row binds the selected variable to, whatever its truthiness
  Add._evaluate__ / Set._evaluate__          (C12, C11)       the conclusion binds the concluded variable, in the given binding,
                                             to the value its value-expression has under that binding; nothing else changes
  cache_data.yield_class_values_from_cache   (C14)            the flat registry branch: the stores of exactly the given / looked-up
                                             classes, each once, in order"""
from __future__ import annotations

import ast

import z3

from eqlvc import z as Z
from eqlvc.interp import (SV, ZV, C, D, Tup, Lst, Obj, Meth, Closure, Ref, NONE, TRUE, FALSE, State, Outcome,
                          OutOfSubset, NEXT, CONTINUE, BREAK, RETURN, RAISE, GENEXIT)
from eqlvc.libmodel import LibModel, base_modenv

FALSE_IDS = z3.K(Z.I, z3.BoolVal(False))


class IsDuplicateOutput(LibModel):
    qual = 'symbolic:SymbolicExpression._is_duplicate_output_'
    cls = 'SymbolicExpression'
    props = ('C02', 'C04', 'C16')
    modes = ('sound',)
    trusted = ("the parent's _required_variables_from_child_ answer is some id set (its content: contracts/required.py)",
               "SeenSet.check / add: contracts/cache.py; dict.setdefault returns the stored pair of seen sets of that parent")

    def modenv(self):
        env = base_modenv()
        env['SeenSet'] = C(Ref('class', 'SeenSet'))
        return env

    def setup(self, eng):
        st = State()
        n = z3.Const('self', Z.Node)
        st.ghost['self'] = n
        st.locals['self'] = ZV(n, 'node')
        st.fields = {'is_false': z3.Const('is_false0', Z.ArrNB)}
        st.locals['output'] = eng.new_dict(st, Z.ZMap.fresh('output'))
        st.ghost['req'] = z3.Const('required_ids', Z.ArrIB)
        st.ghost['asked'] = []
        st.ghost['seen_calls'] = []
        return [st]

    def getattr(self, eng, st, recv, name):
        if isinstance(recv, ZV) and recv.ty == 'node' and recv.t.eq(st.ghost['self']):
            if name == '_parent_':
                return [(st, Obj('parent', {}))]
            if name == '_is_false_':
                return [(st, ZV(z3.Select(st.fields['is_false'], recv.t), 'bool'))]
            if name == '_seen_parent_values_by_parent_':
                return [(st, Obj('seenmap', {}))]
        if isinstance(recv, Obj) and recv.kind == 'parent':
            if name == '_id_':
                return [(st, ZV(z3.Int('parent_id'), 'int'))]
            return [(st, Meth(recv, name))]
        if isinstance(recv, Obj) and recv.kind in ('seenmap', 'seenset'):
            return [(st, Meth(recv, name))]
        return super().getattr(eng, st, recv, name)

    def call(self, eng, st, f, args, kwargs, node):
        if isinstance(f, Meth) and isinstance(f.recv, Obj):
            k, nm = f.recv.kind, f.name
            if k == 'parent' and nm == '_required_variables_from_child_':
                st = st.clone()
                wt = kwargs.get('when_true', args[1] if len(args) > 1 else None)
                st.ghost['asked'] = st.ghost['asked'] + [(args[0] if args else None, wt)]
                return [(st, Obj('idset', {}))]
            if k == 'seenmap' and nm == 'setdefault':
                return [(st, Obj('seenpair', {'parent': args[0]}))]
            if k == 'seenset' and nm == 'check':
                st = st.clone()
                seen = z3.FreshConst(Z.B, 'seen')
                st.ghost['seen_calls'] = st.ghost['seen_calls'] + [('check', f.recv.data, args[0], seen)]
                return [(st, ZV(seen, 'bool'))]
            if k == 'seenset' and nm == 'add':
                st = st.clone()
                st.ghost['seen_calls'] = st.ghost['seen_calls'] + [('add', f.recv.data, args[0], None)]
                return [(st, NONE)]
        if isinstance(f, C) and f.v == Ref('class', 'SeenSet'):
            return [(st, Obj('newseenset', {}))]
        return super().call(eng, st, f, args, kwargs, node)

    def e_dict_display(self, eng, st, e):
        return None

    def obj_truth(self, eng, st, v):
        if v.kind == 'idset':
            return st.ghost['req'] != FALSE_IDS
        return None

    def key_ids(self, eng, st, y):
        if isinstance(y, Obj) and y.kind == 'idset':
            return st.ghost['req']
        return super().key_ids(eng, st, y)

    def subscript(self, eng, st, recv, k):
        if isinstance(recv, Obj) and recv.kind == 'seenpair':
            return [(st, Obj('seenset', {'parent': recv.data['parent'], 'truth': eng.to_z3_bool(eng.truth(st, k))}))]
        return super().subscript(eng, st, recv, k) if hasattr(super(), 'subscript') else None

    def on_exit(self, eng, o):
        st = o.st
        n = st.ghost['self']
        if o.sig != RETURN:
            eng.oblige(st, "C02/dup/returns", z3.BoolVal(False))
            return
        res = eng.to_z3_bool(eng.truth(st, o.val))
        calls = st.ghost['seen_calls']
        checks = [c for c in calls if c[0] == 'check']
        adds = [c for c in calls if c[0] == 'add']
        out = st.dicts[st.locals['output'].ref]
        truth = z3.Not(z3.Select(z3.Const('is_false0', Z.ArrNB), n))
        asked = st.ghost['asked']
        ok_asked = (len(asked) == 1 and isinstance(asked[0][0], ZV) and asked[0][0].t.eq(n))
        eng.oblige(st, "C02/dup/asks-its-parent-once-for-its-own-truth-value",
                   z3.And(z3.BoolVal(bool(ok_asked)), eng.to_z3_bool(eng.truth(st, asked[0][1])) == truth if ok_asked and asked[0][1] is not None
                          else z3.BoolVal(False)))
        eng.oblige(st, "C02/dup/at-most-one-lookup-and-no-record-without-a-lookup", z3.BoolVal(len(checks) <= 1 and len(adds) <= len(checks)))
        if not checks:
            # no lookup: nothing may be reported as a duplicate, and that is only allowed when the key would be empty
            proj = out.restrict(st.ghost['req'])
            eng.oblige(st, "C02/dup/without-a-lookup-nothing-is-a-duplicate", z3.And(z3.Not(res), proj.is_empty()))
            return
        _, ss, d, seen = checks[0]
        ok_key = isinstance(d, D) and st.ghost.get('derived', {}).get(d.ref, (None,))[0] == st.locals['output'].ref
        eng.oblige(st, "C02/dup/key-is-the-projection-of-the-row-on-the-required-variables", z3.BoolVal(bool(ok_key)))
        if ok_key:
            ids = st.ghost['derived'][d.ref][1]
            eng.oblige(st, "C02/dup/projection-is-on-exactly-the-required-variables", ids == st.ghost['req'])
        eng.oblige(st, "C02/dup/looked-up-under-this-parent-and-this-truth-value",
                   z3.And(eng.as_int(ss['parent']) == z3.Int('parent_id'), ss['truth'] == truth))
        eng.oblige(st, "C02/dup/duplicate-exactly-when-seen-before", res == seen)
        ok_add = bool(adds) and isinstance(adds[0][2], D) and isinstance(d, D) and adds[0][2].ref == d.ref
        eng.oblige(st, "C02/dup/a-miss-records-exactly-that-key-in-the-same-set",
                   z3.If(seen, z3.BoolVal(not adds), z3.And(z3.BoolVal(ok_add), adds[0][1]['truth'] == ss['truth'] if adds else z3.BoolVal(False))))

    def signature(self, ob, model):
        return {}


class ProcessResultEntity(LibModel):
    qual = 'symbolic:ResultQuantifier._process_result_'
    cls = 'ResultQuantifier'
    props = ('C01', 'C19', 'C06')
    modes = ('sound',)
    trusted = ("the set_of branch (UnificationDict over the selected variables) is exercised by the bounded stand-ins only",)

    def modenv(self):
        env = base_modenv()
        return env

    def setup(self, eng):
        st = State()
        n = z3.Const('self', Z.Node)
        st.ghost['self'] = n
        st.locals['self'] = ZV(n, 'node')
        st.locals['result'] = eng.new_dict(st, Z.ZMap.fresh('row'))
        st.ghost['selvar'] = z3.Const('selected_variable', Z.Node)
        # the row of an entity binds its selected variable (interface clause R5 / Binds)
        st.assume(st.dicts[st.locals['result'].ref].contains(Z.nid(st.ghost['selvar'])))
        return [st]

    def getattr(self, eng, st, recv, name):
        if isinstance(recv, ZV) and recv.ty == 'node' and recv.t.eq(st.ghost['self']) and name == '_child_':
            return [(st, Obj('entity_child', {}))]
        if isinstance(recv, Obj) and recv.kind == 'entity_child' and name == 'selected_variable':
            return [(st, ZV(st.ghost['selvar'], 'node'))]
        if isinstance(recv, ZV) and recv.ty == 'hv' and name == 'value':
            return [(st, ZV(Z.hv_value(recv.t), 'val'))]
        return super().getattr(eng, st, recv, name)

    def f_isinstance(self, eng, st, args, kwargs, node):
        o, c = args
        if isinstance(o, Obj) and o.kind == 'entity_child' and isinstance(c, C) and isinstance(c.v, Ref):
            return [(st, C(c.v.name == 'Entity'))]
        return super().f_isinstance(eng, st, args, kwargs, node)

    def on_exit(self, eng, o):
        st = o.st
        if o.sig != RETURN or not (isinstance(o.val, ZV) and o.val.ty == 'val'):
            eng.oblige(st, "C01/result/returns-a-value", z3.BoolVal(False))
            return
        row = st.dicts[st.locals['result'].ref]
        eng.oblige(st, "C01/result/is-the-object-the-row-binds-the-selected-variable-to",
                   o.val.t == Z.hv_value(row.get(Z.nid(st.ghost['selvar']))))

    def signature(self, ob, model):
        return {}


class ConclusionEvaluate(LibModel):
    """Add._evaluate__ / Set._evaluate__"""
    cls = 'Conclusion'
    props = ('C12', 'C11')
    modes = ('sound',)
    bound_cases = (None,)
    trusted = ("the value expression's stream delivers, first, a row that extends the given binding and binds the value "
               "expression (interface contract I, clauses R1 / R5, for an inferred variable: contracts/inference.py)",)

    def modenv(self):
        return base_modenv()

    def setup(self, eng):
        sts = []
        for bound in self.bound_cases:
            st = State()
            n = z3.Const('self', Z.Node)
            st.ghost['self'] = n
            st.locals['self'] = ZV(n, 'node')
            sig = Z.ZMap.fresh('binding')
            st.locals['sources'] = eng.new_dict(st, sig)
            st.ghost['sig0'] = sig
            st.ghost['var'] = z3.Const('concluded_var', Z.Node)       # self.var._var_
            st.ghost['value'] = z3.Const('value_expr', Z.Node)
            st.assume(Z.nid(st.ghost['var']) != Z.nid(st.ghost['value']))
            if bound is not None:
                st.assume(sig.contains(Z.nid(st.ghost['var'])) == z3.BoolVal(bound))
                st.path.append(f"variable already bound={bound}")
            st.ghost['evaluated'] = []
            sts.append(st)
        return sts

    def getattr(self, eng, st, recv, name):
        if isinstance(recv, ZV) and recv.ty == 'node':
            if recv.t.eq(st.ghost['self']):
                if name == 'var':
                    return [(st, Obj('varref', {}))]
                if name == 'value':
                    return [(st, ZV(st.ghost['value'], 'node'))]
            if name == '_id_':
                return [(st, ZV(Z.nid(recv.t), 'int'))]
            if name == '_evaluate__':
                return [(st, Meth(recv, name))]
        if isinstance(recv, Obj) and recv.kind == 'varref':
            if name == '_var_':
                return [(st, ZV(st.ghost['var'], 'node'))]
            if name == '_evaluate__':
                return [(st, Meth(recv, name))]
        return super().getattr(eng, st, recv, name)

    def setattr(self, eng, st, recv, name, v):
        if isinstance(recv, ZV) and recv.ty == 'node' and name == '_yield_when_false_':
            return [st]
        return None

    def call(self, eng, st, f, args, kwargs, node):
        if isinstance(f, Meth) and f.name == '_evaluate__':
            who = st.ghost['value'] if isinstance(f.recv, ZV) else st.ghost['var']
            src = args[0]
            st = st.clone()
            st.ghost['evaluated'] = st.ghost['evaluated'] + [(who, st.dicts[src.ref] if isinstance(src, D) else None)]
            return [(st, Obj('rowstream', {'of': who, 'sigma': src}))]
        if isinstance(f, C) and isinstance(f.v, Ref) and f.v.name in ('iter', 'next') and args and isinstance(args[0], Obj) \
                and args[0].kind == 'rowstream':
            if f.v.name == 'iter':
                return [(st, args[0])]
            rs = args[0]
            st = st.clone()
            sig = st.dicts[rs.data['sigma'].ref]
            row = Z.ZMap.fresh('first_row')
            d = eng.new_dict(st, row)
            st.assume(row.contains(Z.nid(rs.data['of'])), row.consistent_with(sig))
            st.ghost['first_rows'] = st.ghost.get('first_rows', []) + [(rs.data['of'], row)]
            return [(st, d)]
        return super().call(eng, st, f, args, kwargs, node)

    def on_exit(self, eng, o):
        st = o.st
        nm = self.qual.split(':')[1].split('.')[0]
        if o.sig != RETURN or not isinstance(o.val, D):
            eng.oblige(st, f"C12/{nm}/returns-a-binding", z3.BoolVal(False))
            return
        post, pre = st.dicts[o.val.ref], st.ghost['sig0']
        vid = Z.nid(st.ghost['var'])
        eng.oblige(st, f"C12/{nm}/binds-the-concluded-variable", post.contains(vid))
        # every other entry is as before
        i = z3.FreshConst(Z.I, 'i')
        eng.oblige(st, f"C12/{nm}/nothing-else-changes",
                   z3.Implies(i != vid, z3.And(z3.Select(post.has, i) == z3.Select(pre.has, i),
                                               z3.Implies(z3.Select(pre.has, i), z3.Select(post.val, i) == z3.Select(pre.val, i)))))
        ev = [e for e in st.ghost['evaluated'] if e[0].eq(st.ghost['value'])]
        ok = z3.BoolVal(False)
        if len(ev) == 1 and ev[0][1] is not None:
            at = ev[0][1]       # the binding the value expression was evaluated under: the given one (plus, for Set, the variable)
            ok = z3.Implies(i != vid, z3.And(z3.Select(at.has, i) == z3.Select(pre.has, i),
                                             z3.Implies(z3.Select(pre.has, i), z3.Select(at.val, i) == z3.Select(pre.val, i))))
        eng.oblige(st, f"C12/{nm}/value-expression-evaluated-once-under-the-binding-being-concluded", ok)
        self.value_clause(eng, st, nm, post)

    def value_clause(self, eng, st, nm, post):
        rows = [r for who, r in st.ghost.get('first_rows', []) if who.eq(st.ghost['value'])]
        val = st.ghost['value']
        eng.oblige(st, f"C12/{nm}/to-the-value-its-expression-has-under-that-binding",
                   z3.And(z3.BoolVal(len(rows) == 1), post.get(Z.nid(st.ghost['var'])) == rows[0].get(Z.nid(val))) if rows
                   else z3.BoolVal(False))

    def signature(self, ob, model):
        return {}


class AddEvaluate(ConclusionEvaluate):
    qual = 'conclusion:Add._evaluate__'


class SetEvaluate(ConclusionEvaluate):
    qual = 'conclusion:Set._evaluate__'
    bound_cases = (True, False)


class YieldClassValues(LibModel):
    qual = 'cache_data:yield_class_values_from_cache'
    cls = None
    props = ('C14',)
    modes = ('sound',)
    trusted = ("IndexedCache.retrieve(None, from_index=False) yields every value of the flat store once (cache_data.py, first "
               "branch of retrieve)",)

    def modenv(self):
        env = base_modenv()
        env['get_cache_keys_for_class_'] = C(Ref('func', 'get_cache_keys_for_class_'))
        return env

    def setup(self, eng):
        sts = []
        for given in (None, 0, 1, 2):
            st = State()
            st.locals['cache'] = Obj('registry', {})
            st.locals['clazz'] = Obj('theclass', {})
            st.locals['assignment'] = NONE
            st.locals['from_index'] = FALSE
            st.locals['cache_keys'] = NONE if given is None else Lst([Obj('key', {'i': i}) for i in range(given)], eng.new_ref())
            st.ghost['given'] = given
            st.ghost['streams'] = []
            st.ghost['looked_up'] = 0
            st.path.append(f"cache_keys={'not given' if given is None else given}")
            sts.append(st)
        return sts

    def getattr(self, eng, st, recv, name):
        if isinstance(recv, Obj) and recv.kind == 'store':
            return [(st, Meth(recv, name))]
        return super().getattr(eng, st, recv, name)

    def subscript(self, eng, st, recv, k):
        if isinstance(recv, Obj) and recv.kind == 'registry':
            return [(st, Obj('store', {'key': k}))]
        return super().subscript(eng, st, recv, k) if hasattr(super(), 'subscript') else None

    def call(self, eng, st, f, args, kwargs, node):
        if isinstance(f, C) and f.v == Ref('func', 'get_cache_keys_for_class_'):
            st = st.clone()
            st.ghost['looked_up'] += 1
            ok = len(args) == 2 and isinstance(args[0], Obj) and args[0].kind == 'registry' and isinstance(args[1], Obj) and args[1].kind == 'theclass'
            return [(st, Lst([Obj('key', {'i': i, 'looked_up': ok}) for i in range(2)], eng.new_ref()))]
        if isinstance(f, Meth) and isinstance(f.recv, Obj) and f.recv.kind == 'store' and f.name == 'retrieve':
            fi = kwargs.get('from_index', args[1] if len(args) > 1 else TRUE)
            return [(st, Obj('gen', {'store': f.recv.data['key'], 'flat': isinstance(fi, C) and fi.v is False,
                                     'assignment': args[0] if args else None}))]
        return super().call(eng, st, f, args, kwargs, node)

    def yield_from(self, eng, st, src, ordinal, node):
        if isinstance(src, Obj) and src.kind == 'gen':
            st = st.clone()
            st.ghost['streams'] = st.ghost['streams'] + [src]
            return [Outcome(st)]
        return super().yield_from(eng, st, src, ordinal, node)

    def on_exit(self, eng, o):
        st = o.st
        if o.sig not in (NEXT, RETURN):
            eng.oblige(st, "C14/values/finishes-normally", z3.BoolVal(False))
            return
        given = st.ghost['given']
        want = list(range(given)) if given else [0, 1]       # none given (or an empty list): the looked-up classes
        got = [s.data['store'].data['i'] for s in st.ghost['streams'] if isinstance(s.data['store'], Obj) and s.data['store'].kind == 'key']
        eng.oblige(st, "C14/values/the-stores-of-exactly-those-classes-each-once-in-order", z3.BoolVal(got == want and len(got) == len(st.ghost['streams'])))
        eng.oblige(st, "C14/values/read-from-the-flat-store", z3.BoolVal(all(s.data['flat'] for s in st.ghost['streams'])))
        if not given:
            keys_ok = all(s.data['store'].data.get('looked_up') for s in st.ghost['streams'])
            eng.oblige(st, "C14/values/classes-looked-up-for-the-requested-type-when-not-given", z3.BoolVal(st.ghost['looked_up'] == 1 and keys_ok))

    def signature(self, ob, model):
        return {}


CONTRACTS = [IsDuplicateOutput, ProcessResultEntity, AddEvaluate, SetEvaluate, YieldClassValues]
