"""Contracts of the `_evaluate__` overrides in symbolic.py: the class-specific unfolding of Den / good_row."""
from __future__ import annotations

import ast

import z3

from eqlvc import z as Z
from eqlvc.interp import ZV, C, D, Obj, Ref, NONE, OutOfSubset
from .interface import EvalContract, child_shape, tree_shape, subtree_is, MapRel, LeafIds, total, WD


class DomainMappingEval(EvalContract):
    """symbolic.DomainMapping._evaluate__ (shared by Attribute / Index / Call / Flatten).

    Spec (C01, C16, C19): the node's entry is one of the values `_apply_mapping_` yields for the child's entry
    (MapRel); in condition position its truth is bool(value) xor _invert_ (C03)."""
    qual = 'symbolic:DomainMapping._evaluate__'
    uses_position = True
    cls = 'DomainMapping'
    props = ('C01', 'C02', 'C03', 'C15', 'C16', 'C19', 'C07')

    def shape_facts(self, n):
        c = Z.f_child(n)
        return child_shape(n, c) + [z3.Not(Z.cond_pos(c)), Z.is_value(c), Z.is_value(n), z3.Not(Z.truth_node(n)),
                                    subtree_is(n, [c])]

    def children(self, n):
        return [Z.f_child(n)]

    def den(self, n, rho):
        return z3.Xor(Z.truthy(Z.hv_value(z3.Select(rho, Z.nid(n)))), Z.inv(n))

    def value_child(self, n, c):
        return True

    def own(self, n, m):
        c = Z.f_child(n)
        return z3.Implies(m.contains(Z.nid(n)),
                          z3.And(m.contains(Z.nid(c)), MapRel(n, m.get(Z.nid(c)), m.get(Z.nid(n)))))

    def extra_yield_obligations(self, eng, st, v, ordinal, node):
        """C15 (`using a sub-query as an operand restricts that operand to the sub-query's solutions`): the row clauses of I
        speak about the well-defined environments extending a row, and a row that binds a NON-solution of a sub-query has
        none - so this has to be said separately: when the child is a sub-query (a truth node) and delivered this binding as
        false (it was asked for false results), there is no value to take, and the mapping's own row is false whatever the
        attribute of the non-solution happens to be."""
        n = st.ghost['self']
        c = Z.f_child(n)
        if v.ref == st.ghost.get('sigma_ref'):
            return          # already bound: the incoming binding is passed on
        eng.oblige(st, f"C15-only/row@yield#{ordinal}/no-value-from-a-sub-query-that-does-not-hold",
                   z3.Implies(z3.And(Z.truth_node(c), z3.Select(st.fields['is_false'], c)), z3.Select(st.fields['is_false'], n)),
                   line=node.lineno)


CONTRACTS = [DomainMappingEval]


class ComparatorEval(EvalContract):
    """symbolic.Comparator._evaluate__ (result cache off; the cache-hit branch is C05's obligation set).

    Spec (C01/C02): Den = operation(value of left operand, value of right operand); both operands are in value
    position, so every binding of them is needed whatever its truthiness (C19)."""
    qual = 'symbolic:Comparator._evaluate__'
    cls = 'Comparator'
    props = ('C01', 'C02', 'C15', 'C19', 'C07')
    inline = ('get_first_second_operands', 'apply_operation', 'update_cache')

    def children(self, n):
        return [Z.f_left(n), Z.f_right(n)]

    def shape_facts(self, n):
        l, r = Z.f_left(n), Z.f_right(n)
        return (child_shape(n, l) + child_shape(n, r) + tree_shape(l, r) +
                [z3.Not(Z.cond_pos(l)), z3.Not(Z.cond_pos(r)), Z.is_value(l), Z.is_value(r), Z.is_value(n),
                 subtree_is(n, [l, r]),
                 Z.truth_node(n)])   # a comparator always filters by its own truth

    def den(self, n, rho):
        l, r = Z.f_left(n), Z.f_right(n)
        return Z.opapp(Z.optag(n), Z.hv_value(z3.Select(rho, Z.nid(l))), Z.hv_value(z3.Select(rho, Z.nid(r))))

    def value_child(self, n, c):
        return True

    def own(self, n, m):
        l, r = Z.f_left(n), Z.f_right(n)
        res = Z.boolval(Z.opapp(Z.optag(n), Z.hv_value(m.get(Z.nid(l))), Z.hv_value(m.get(Z.nid(r)))))
        return z3.Implies(m.contains(Z.nid(n)),
                          z3.And(m.contains(Z.nid(l)), m.contains(Z.nid(r)),
                                 m.get(Z.nid(n)) == Z.mkhv(res, Z.objid(res))))


CONTRACTS.append(ComparatorEval)


class ANDEval(EvalContract):
    """symbolic.AND._evaluate__ (result cache off).  Spec: Den = Den(left) and Den(right); rows of the right side are
    produced under the left row (bindings threaded left to right)."""
    qual = 'symbolic:AND._evaluate__'
    cls = 'AND'
    props = ('C01', 'C02', 'C03', 'C07')
    inline = ('update_cache',)

    def children(self, n):
        return [Z.f_left(n), Z.f_right(n)]

    def shape_facts(self, n):
        l, r = Z.f_left(n), Z.f_right(n)
        return (child_shape(n, l) + child_shape(n, r) + tree_shape(l, r) +
                [Z.cond_pos(l), Z.cond_pos(r), Z.truth_node(n), z3.Not(Z.is_value(n))])

    def den(self, n, rho):
        return z3.And(Z.Den(Z.f_left(n), rho), Z.Den(Z.f_right(n), rho))


class ElseIfEval(EvalContract):
    """symbolic.ElseIf._evaluate__ (result cache off).  Spec: Den = Den(left) or Den(right), each binding once."""
    qual = 'symbolic:ElseIf._evaluate__'
    cls = 'ElseIf'
    props = ('C01', 'C02', 'C03', 'C07')
    inline = ('update_cache',)

    def children(self, n):
        return [Z.f_left(n), Z.f_right(n)]

    def shape_facts(self, n):
        l, r = Z.f_left(n), Z.f_right(n)
        return (child_shape(n, l) + child_shape(n, r) + tree_shape(l, r) +
                [Z.cond_pos(l), Z.cond_pos(r), Z.truth_node(n), z3.Not(Z.is_value(n))])

    def den(self, n, rho):
        return z3.Or(Z.Den(Z.f_left(n), rho), Z.Den(Z.f_right(n), rho))

    trusted = ("T4: the `if not any_left` fallback (left operand delivered no row at all, i.e. one of its variables has an "
               "empty domain) yields the right row without merging sigma; clause R6 is waived for that yield only",)

    def r6_waived(self, eng, st, ordinal, node):
        # the yield that is lexically inside `if not any_left:`
        return any(p.startswith('L') and p.endswith('if+') and self._is_not_any_left(eng, p) for p in st.path)

    def _is_not_any_left(self, eng, plabel):
        import ast as _ast
        ln = int(plabel[1:-3])
        for x in _ast.walk(eng.fdef):
            if isinstance(x, _ast.If) and x.lineno == ln:
                t = x.test
                # `if not <flag>` where <flag> is an iteration flag of the loop over the left operand (whatever its name)
                return (isinstance(t, _ast.UnaryOp) and isinstance(t.op, _ast.Not) and isinstance(t.operand, _ast.Name)
                        and t.operand.id in getattr(self, '_loop_flags', {}).get(1, ()))
        return False


CONTRACTS += [ANDEval, ElseIfEval]


from eqlvc.libmodel import isa, str_const  # noqa: E402

dom_truthy = z3.Function('dom_truthy', Z.Node, Z.B)     # bool(variable._domain_)


class VariablePlainEval(EvalContract):
    """symbolic.Variable._evaluate__ for a plain variable over an explicitly supplied, non-empty domain
    (no keyword constraints, not inferred, not a predicate).  Spec: it enumerates exactly Dom(x) (C01/C02), or
    passes the incoming binding on when it is already bound."""
    qual = 'symbolic:Variable._evaluate__'
    uses_position = False     # a plain variable's flag is constantly False, so the position test has no effect
    cls = 'Variable'
    props = ('C01', 'C02', 'C07')
    is_leaf = True
    trusted = ("HashedIterable.__iter__ delivers exactly Dom(x) (contract in hashed_data contracts)",
               "class invariant: a plain variable never writes its own _is_false_ (scan of symbolic.Variable)")

    def shape_facts(self, n):
        return [Z.is_value(n), dom_truthy(n), z3.Not(Z.truth_node(n)), subtree_is(n, [])]

    def setup(self, eng):
        sts = super().setup(eng)
        for st in sts:
            n = st.ghost['self']
            st.assume(z3.Not(z3.Select(st.fields['is_false'], n)))
        return sts

    def den(self, n, rho):
        return z3.BoolVal(True)

    def own(self, n, m):
        return z3.Implies(m.contains(Z.nid(n)), Z.indom(n, m.get(Z.nid(n))))

    def getattr(self, eng, st, recv, name):
        if isinstance(recv, ZV) and recv.ty == 'node' and recv.t.eq(st.ghost['self']):
            if name == '_domain_':
                return [(st, Obj('domain', {'of': recv.t}))]
            if name in ('_is_inferred_', '_evaluating_kwargs_expression_'):
                return [(st, C(False))]
            if name in ('_kwargs_expression_', '_predicate_type_'):
                return [(st, C(None))]
            if name == '_child_vars_':
                return [(st, Lst([]))]
        return super().getattr(eng, st, recv, name)

    def obj_truth(self, eng, st, v):
        if v.kind == 'domain':
            return dom_truthy(v.data['of'])
        return None


CONTRACTS += [VariablePlainEval]


# ---------------------------------------------------------------------------------------------------------------------
# Result cache on, nothing covered yet (every coverage check misses): what the operators WRITE into their caches.
# C05 needs the stored truth value to be the one the row is yielded with, and the stored binding to be part of that row.
CacheKeys = z3.Function('CacheKeys', Z.Node, Z.I, Z.ArrIB)      # cache.keys as a set of ids (per node and cache)
WHICH = {'_cache_': 0, 'right_cache': 1, 'left_cache': 2}


class CacheWriteMixin:
    caching_cases = (True,)
    modes = ('sound',)
    trusted_keys = ("the keys of an operator's caches are ids of variables of its operands: right_cache of the right operand's "
                    "variables, _cache_ of both operands' (proved separately: contracts CacheKeysRight / CacheKeysOwn on the "
                    "two __post_init__ methods)",)

    def setup(self, eng):
        sts = super().setup(eng)
        for st in sts:
            n = st.ghost['self']
            st.assume(z3.Map(Z.IMP_D, CacheKeys(n, z3.IntVal(WHICH['right_cache'])), Z.SubIds(Z.f_right(n))) == z3.K(Z.I, z3.BoolVal(True)),
                      z3.Map(Z.IMP_D, CacheKeys(n, z3.IntVal(WHICH['_cache_'])), Z.SubIds(n)) == z3.K(Z.I, z3.BoolVal(True)))
        return sts

    def getattr(self, eng, st, recv, name):
        if isinstance(recv, Obj) and recv.kind == 'cache' and name == 'keys':
            return [(st, Obj('keylist', {'ids': CacheKeys(recv.data['of'], z3.IntVal(WHICH[recv.data['which']]))}))]
        return super().getattr(eng, st, recv, name)

    def obj_cache_check(self, eng, st, recv, args, kwargs, node):
        return [(st, FALSE_SV)]       # cold cache: the hit branches are the subject of the coherence obligations

    def obj_cache_insert(self, eng, st, recv, args, kwargs, node):
        d = args[0]
        out = kwargs.get('output', args[1] if len(args) > 1 else None)
        if not isinstance(d, D) or out is None:
            raise OutOfSubset("cache.insert arguments", node)
        st = st.clone()
        st.ghost['last_insert'] = {'which': recv.data['which'], 'map': st.dicts[d.ref], 'of': recv.data['of'],
                                   'label': eng.to_z3_bool(eng.truth(st, out)), 'line': node.lineno}
        return [(st, NONE)]

    def extra_yield_obligations(self, eng, st, v, ordinal, node):
        ins = st.ghost.get('last_insert')
        if ins is None:
            return
        n = st.ghost['self']
        lbl = z3.Select(st.fields['is_false'], n)
        row = st.dicts[v.ref]
        eng.oblige(st, f"C05/cache-write@L{ins['line']}/stored-truth-value-is-the-yielded-one", ins['label'] == lbl,
                   line=ins['line'])
        eng.oblige(st, f"C05/cache-write@L{ins['line']}/stored-binding-is-part-of-the-yielded-row", row.extends(ins['map']),
                   line=ins['line'])
        # ... and not weaker than it on the cache's keys: a key the row binds and the entry leaves open is a wildcard, so
        # the entry would claim coverage (and this truth value) for bindings that were never evaluated
        keys = CacheKeys(ins['of'], z3.IntVal(WHICH[ins['which']]))
        eng.oblige(st, f"C05/cache-write@L{ins['line']}/stored-binding-binds-every-cache-key-the-row-binds",
                   z3.Map(Z.IMP_D, z3.Map(Z.AND_D, row.has, keys), ins['map'].has) == z3.K(Z.I, z3.BoolVal(True)), line=ins['line'])

    def on_yield(self, eng, st, v, ordinal, node):
        res = super().on_yield(eng, st, v, ordinal, node)
        for s in res:
            s.ghost.pop('last_insert', None)
        return res


FALSE_SV = C(False)


class ComparatorCacheWrite(CacheWriteMixin, ComparatorEval):
    trusted = tuple(getattr(ComparatorEval, 'trusted', ())) + CacheWriteMixin.trusted_keys
    props = ('C05', 'C01', 'C02', 'C04', 'C18', 'C16')


class ANDCacheWrite(CacheWriteMixin, ANDEval):
    trusted = tuple(getattr(ANDEval, 'trusted', ())) + CacheWriteMixin.trusted_keys
    props = ('C05', 'C01', 'C02', 'C03', 'C04', 'C18', 'C16')


class ElseIfCacheWrite(CacheWriteMixin, ElseIfEval):
    """... and (C12, C05): the else-if's result cache holds truth values, not which conclusion a conclusion selector selected,
    so a right operand that selects conclusions (an Alternative / Next under the else-if of a rule tree) is evaluated and
    never looked up in / replayed from right_cache."""
    trusted = tuple(getattr(ElseIfEval, 'trusted', ())) + CacheWriteMixin.trusted_keys
    props = ('C05', 'C01', 'C02', 'C03', 'C04', 'C18', 'C12', 'C16')

    def obj_cache_check(self, eng, st, recv, args, kwargs, node):
        n = st.ghost['self']
        if recv.data['which'] == 'right_cache' and recv.data['of'].eq(n):
            eng.oblige(st, f"C12/else-if@L{node.lineno}/a-conclusion-selecting-right-operand-is-not-replayed-from-the-result-cache",
                       z3.Not(Z.selects_conclusions(Z.f_right(n))), line=node.lineno)
        return super().obj_cache_check(eng, st, recv, args, kwargs, node)


CONTRACTS += [ComparatorCacheWrite, ANDCacheWrite, ElseIfCacheWrite]


# ---------------------------------------------------------------------------------------------------------------------
# C04: the "keyword expression is being evaluated" flag of a variable is scoped to one evaluation
from eqlvc.interp import State, Outcome, Tup, Meth, Closure, NEXT, CONTINUE, BREAK, RETURN, RAISE, GENEXIT  # noqa: E402
from eqlvc.libmodel import LibModel, base_modenv, init_fields  # noqa: E402


class KwargsExpressionFlag(LibModel):
    """symbolic.Variable._evaluate_kwargs_expression_: while the keyword expression of the variable is evaluated the
    variable answers with its plain domain (flag _evaluating_kwargs_expression_).  C04: however the evaluation ends -
    exhausted, abandoned by the consumer at any of its yields (GeneratorExit), or by an exception out of the expression -
    the flag is cleared again, so the next evaluation applies the keyword constraints; and it is set whenever the keyword
    expression is asked for rows."""
    qual = 'symbolic:Variable._evaluate_kwargs_expression_'
    cls = 'Variable'
    props = ('C04',)
    modes = ('sound',)
    track_abandon = True
    trusted = ("the keyword expression's own _evaluate__ is an arbitrary generator that may raise (interface contract I is "
               "not needed for this clause)",)

    def modenv(self):
        return base_modenv()

    def setup(self, eng):
        st = State()
        st.fields = init_fields()
        self.n = z3.Const('self', Z.Node)
        self.kx = z3.Const('kwargs_expression', Z.Node)
        st.locals['self'] = ZV(self.n, 'node')
        st.ghost['self'] = self.n
        st.locals['sources'] = eng.new_dict(st, Z.ZMap.fresh('sources'))
        st.ghost['flag'] = C(False)
        st.ghost['asked'] = 0
        return [st]

    def getattr(self, eng, st, recv, name):
        if isinstance(recv, ZV) and recv.ty == 'node' and recv.t.eq(self.n):
            if name == '_kwargs_expression_':
                return [(st, ZV(self.kx, 'node'))]
            if name == '_evaluating_kwargs_expression_':
                return [(st, st.ghost['flag'])]
        return super().getattr(eng, st, recv, name)

    def setattr(self, eng, st, recv, name, v):
        if isinstance(recv, ZV) and recv.ty == 'node' and recv.t.eq(self.n) and name == '_evaluating_kwargs_expression_':
            st = st.clone()
            st.ghost['flag'] = v
            return [st]
        return super().setattr(eng, st, recv, name, v)

    def node__evaluate__(self, eng, st, recv, args, kwargs, node):
        if not recv.t.eq(self.kx):
            raise OutOfSubset("_evaluate__ of something else than the keyword expression", node)
        flag = st.ghost['flag']
        eng.oblige(st, "C04/kwflag/set-while-the-keyword-expression-is-evaluated", z3.BoolVal(isinstance(flag, C) and flag.v is True),
                   line=node.lineno)
        st = st.clone()
        st.ghost['asked'] += 1
        return [(st, Obj('kxstream', {}))]

    def abstract_loop(self, eng, st, s, it, ordinal):
        if isinstance(it, Obj) and it.kind == 'kxstream':
            raised = st.clone()
            raised.path.append('the-keyword-expression-raises')
            outs = [Outcome(st), Outcome(raised, RAISE, C(Ref('exc', 'Exception')))]
            b = st.clone()
            row = eng.new_dict(b, Z.ZMap.fresh('row'))
            b.fields['is_false'] = z3.FreshConst(b.fields['is_false'].sort(), 'is_false')
            for b2 in eng.assign(s.target, row, b):
                for o in eng.exec_block(s.body, b2):
                    outs.append(Outcome(o.st) if o.sig in (NEXT, CONTINUE, BREAK) else o)
            return outs
        return super().abstract_loop(eng, st, s, it, ordinal)

    def on_yield(self, eng, st, v, ordinal, node):
        eng.oblige(st, f"cover@yield#{ordinal}", z3.BoolVal(True), kind='cover', line=node.lineno)
        return [st]

    def on_exit(self, eng, o):
        st = o.st
        flag = st.ghost['flag']
        how = {NEXT: 'exhausted', RETURN: 'exhausted', RAISE: 'an-exception', GENEXIT: 'abandoned'}.get(o.sig, str(o.sig))
        eng.oblige(st, f"C04/kwflag/cleared-when-the-evaluation-ends/{how}", z3.BoolVal(isinstance(flag, C) and flag.v is False))
        if o.sig in (NEXT, RETURN):
            eng.oblige(st, "C04/kwflag/the-keyword-expression-is-evaluated", z3.BoolVal(st.ghost['asked'] >= 1))

    def signature(self, ob, model):
        return {}


CONTRACTS += [KwargsExpressionFlag]


# ---------------------------------------------------------------------------------------------------------------------
# C05: what is replayed from a result cache is what is stored there
class CacheReplay(LibModel):
    """BinaryOperator.yield_final_output_from_cache(variables_sources, cache): the READ side of the operators' result caches.
    Assumed (IndexedCache.retrieve: bounded exhaustive check C20_cache; _most_general_: bounded exhaustive check
    C05_most_general): the loop runs over some of the entries `retrieve` found for the lookup - each a pair (the entry's
    binding merged into the lookup, the truth value stored with it).  Proved: a replayed row IS such an entry's binding,
    untouched (it extends the lookup), the node's truth flag at that moment IS the truth value stored with that very entry,
    and an entry is skipped only when it is a false one that the duplicate filter rejects.  Together with the cache-write
    clauses (the stored truth value is the one the row was yielded with, the stored binding is the row on the cache keys)
    a replay repeats what an evaluation delivered."""
    qual = 'symbolic:BinaryOperator.yield_final_output_from_cache'
    cls = 'BinaryOperator'
    props = ('C05',)
    modes = ('sound',)
    final = True
    trusted = ("IndexedCache.retrieve yields (entry binding merged into the lookup, stored value) for the matching entries "
               "(bounded exhaustive check C20_cache)",
               "_most_general_ returns some of the pairs it was given, each as it was (bounded exhaustive check C05_most_general)",
               "the profiling counters have no effect on results")

    def modenv(self):
        return base_modenv()

    def setup(self, eng):
        sts = []
        for given in ((False, True) if self.final else (True,)):
            st = State()
            st.fields = init_fields()
            self.n = z3.Const('self', Z.Node)
            st.locals['self'] = ZV(self.n, 'node')
            st.ghost['self'] = self.n
            vs = eng.new_dict(st, Z.ZMap.fresh('lookup'))
            st.locals['variables_sources'] = vs
            st.ghost['lookup_ref'] = vs.ref
            st.ghost['lookup0'] = st.dicts[vs.ref]
            st.locals['cache'] = Obj('cache', {'of': self.n, 'which': 'given'}) if given else NONE
            st.ghost['given'] = given
            st.ghost['cur'] = None
            st.ghost['skipped_ok'] = True
            st.path.append(f"cache={'given' if given else 'own'}")
            sts.append(st)
        return sts

    # the profiling counters (cache_match_count.values[name] += 1 ...) are dropped
    def augassign(self, eng, st, s):
        if isinstance(s.target, ast.Subscript) and ast.unparse(s.target).startswith(('cache_match_count.', 'cache_enter_count.', 'cache_search_count.')):
            return [Outcome(st)]
        return None

    def setitem(self, eng, st, recv, k, v):
        if isinstance(recv, Obj) and recv.kind == 'counter':
            return [st]
        return None

    def obj_cache_retrieve(self, eng, st, recv, args, kwargs, node):
        ok = len(args) == 1 and not kwargs and isinstance(args[0], D) and args[0].ref == st.ghost['lookup_ref']
        want = 'given' if st.ghost['given'] else '_cache_'
        eng.oblige(st, "C05/replay/the-lookup-is-the-binding-that-was-handed-in-on-the-right-cache",
                   z3.BoolVal(bool(ok and recv.data.get('which') == want)), line=node.lineno)
        return [(st, Obj('retrieved', {}))]

    def node__most_general_(self, eng, st, recv, args, kwargs, node):
        if not (len(args) == 1 and isinstance(args[0], Obj) and args[0].kind == 'retrieved'):
            raise OutOfSubset("_most_general_ of something else than what retrieve returned", node)
        return [(st, Obj('kept', {}))]

    def node__is_duplicate_output_(self, eng, st, recv, args, kwargs, node):
        cur = st.ghost['cur']
        ok = cur is not None and len(args) == 1 and isinstance(args[0], D) and args[0].ref == cur[0]
        eng.oblige(st, "C05/replay/the-duplicate-filter-is-asked-about-the-entry-itself", z3.BoolVal(bool(ok)), line=node.lineno)
        st = st.clone()
        d = z3.FreshConst(Z.B, 'is_duplicate')
        st.ghost['dup'] = d
        return [(st, ZV(d, 'bool'))]

    def getattr(self, eng, st, recv, name):
        if isinstance(recv, Obj) and recv.kind == 'cache' and name in ('enter_count', 'search_count'):
            return [(st, ZV(z3.FreshConst(Z.I, name), 'int'))]
        return super().getattr(eng, st, recv, name)

    def abstract_loop(self, eng, st, s, it, ordinal):
        if isinstance(it, Obj) and it.kind == 'kept':
            outs = [Outcome(st)]
            b = st.clone()
            out = eng.new_dict(b, Z.ZMap.fresh('entry'))
            b.assume(b.dicts[out.ref].extends(b.ghost['lookup0']))
            label = z3.FreshConst(Z.B, 'stored_is_false')
            b.ghost['cur'] = (out.ref, label, b.dicts[out.ref])
            b.ghost['dup'] = None
            for b2 in eng.assign(s.target, Tup([out, ZV(label, 'bool')]), b):
                for o in eng.exec_block(s.body, b2):
                    if o.sig == CONTINUE or (o.sig == NEXT and not o.st.ghost.get('yielded_cur')):
                        # the entry was not replayed: only a false entry the duplicate filter rejected may be skipped
                        dup = o.st.ghost.get('dup')
                        eng.oblige(o.st, "C05/replay/only-a-false-duplicate-entry-is-skipped",
                                   z3.And(label, dup) if (dup is not None and self.final) else z3.BoolVal(False))
                    o.st.ghost.pop('yielded_cur', None) if isinstance(o.st.ghost, dict) else None
                    outs.append(Outcome(o.st) if o.sig in (NEXT, CONTINUE, BREAK) else o)
            return outs
        return super().abstract_loop(eng, st, s, it, ordinal)

    def on_yield(self, eng, st, v, ordinal, node):
        cur = st.ghost['cur']
        n = self.n
        row, lab = v, None
        if not self.final:
            if not (isinstance(v, Tup) and len(v.items) == 2):
                raise OutOfSubset("yield of something else than (row, truth value)", node)
            row, lab = v.items
        if not isinstance(row, D):
            raise OutOfSubset("yield of a non-dict", node)
        ok_row = cur is not None and row.ref == cur[0]
        eng.oblige(st, f"C05/replay@yield#{ordinal}/the-row-is-the-stored-entry-itself", z3.BoolVal(bool(ok_row)), line=node.lineno)
        if cur is not None:
            eng.oblige(st, f"C05/replay@yield#{ordinal}/the-row-is-untouched", st.dicts[row.ref].same(cur[2]), line=node.lineno)
            eng.oblige(st, f"C05/replay@yield#{ordinal}/the-row-extends-the-lookup", st.dicts[row.ref].extends(st.ghost['lookup0']), line=node.lineno)
            if self.final:
                eng.oblige(st, f"C05/replay@yield#{ordinal}/the-truth-flag-is-the-one-stored-with-the-entry",
                           z3.Select(st.fields['is_false'], n) == cur[1], line=node.lineno)
            else:
                eng.oblige(st, f"C05/replay@yield#{ordinal}/the-truth-value-handed-on-is-the-one-stored-with-the-entry",
                           z3.BoolVal(isinstance(lab, ZV)) if not isinstance(lab, ZV) else lab.t == cur[1], line=node.lineno)
        eng.oblige(st, f"C05/replay@yield#{ordinal}/the-lookup-binding-is-left-as-it-was",
                   st.dicts[st.ghost['lookup_ref']].same(st.ghost['lookup0']), line=node.lineno)
        eng.oblige(st, f"cover@yield#{ordinal}", z3.BoolVal(True), kind='cover', line=node.lineno)
        st = st.clone()
        st.ghost['yielded_cur'] = True
        return [st]

    def on_exit(self, eng, o):
        if o.sig == RAISE:
            eng.oblige(o.st, "C05/replay/no-exception", z3.BoolVal(False))

    def signature(self, ob, model):
        return {}


class CacheReplayPairs(CacheReplay):
    """BinaryOperator.yield_from_cache(variables_sources, cache): the same, handing on (row, stored truth value) pairs and
    skipping nothing"""
    qual = 'symbolic:BinaryOperator.yield_from_cache'
    final = False


CONTRACTS += [CacheReplay, CacheReplayPairs]


class UnionNoReplay(LibModel):
    """symbolic.Union._evaluate__ (the operator behind next_rule; or_ never builds it): ONE clause only (C05) - its result
    cache holds truth values, not which operand an output came from, and a Next draws its conclusions by exactly that
    (left_evaluated / right_evaluated), so a union that selects conclusions is evaluated and never replayed from its own
    cache.  Everything else this function does is NOT under contract (its loops are skipped here; bounded families
    'nextrule' and 'nextrule_nested' only)."""
    qual = 'symbolic:Union._evaluate__'
    cls = 'Union'
    props = ('C05',)
    modes = ('sound',)
    trusted = ("the rest of Union._evaluate__ / evaluate_right is not under contract (bounded families nextrule, nextrule_nested)",)

    def modenv(self):
        return base_modenv()

    def setup(self, eng):
        sts = []
        for given in (False, True):
            st = State()
            st.fields = init_fields()
            self.n = z3.Const('self', Z.Node)
            st.locals['self'] = ZV(self.n, 'node')
            st.ghost['self'] = self.n
            st.locals['sources'] = eng.new_dict(st, Z.ZMap.fresh('sources')) if given else NONE
            st.locals['yield_when_false'] = ZV(z3.Const('ywf', Z.B), 'bool')
            st.ghost['checked'] = 0
            st.path.append(f"sources={'dict' if given else 'none'}")
            sts.append(st)
        return sts

    def getattr(self, eng, st, recv, name):
        if isinstance(recv, ZV) and recv.ty == 'node' and recv.t.eq(self.n) and name in ('left_evaluated', 'right_evaluated'):
            return [(st, ZV(z3.FreshConst(Z.B, name), 'bool'))]
        return super().getattr(eng, st, recv, name)

    def setattr(self, eng, st, recv, name, v):
        if isinstance(recv, ZV) and recv.ty == 'node' and recv.t.eq(self.n) and name in ('left_evaluated', 'right_evaluated'):
            return [st]
        return super().setattr(eng, st, recv, name, v)

    def f_is_caching_enabled(self, eng, st, args, kwargs, node):
        return [(st, ZV(z3.Const('caching_enabled', Z.B), 'bool'))]

    def obj_cache_check(self, eng, st, recv, args, kwargs, node):
        if recv.data.get('which') == '_cache_' and recv.data['of'].eq(self.n):
            eng.oblige(st, f"C05/union@L{node.lineno}/a-conclusion-selecting-union-is-not-replayed-from-its-result-cache",
                       z3.Not(Z.selects_conclusions(self.n)), line=node.lineno)
        st = st.clone()
        st.ghost['checked'] += 1
        return [(st, ZV(z3.FreshConst(Z.B, 'covered'), 'bool'))]

    def node_yield_final_output_from_cache(self, eng, st, recv, args, kwargs, node):
        return [(st, Obj('replay', {}))]

    def node__evaluate__(self, eng, st, recv, args, kwargs, node):
        return [(st, Obj('skipped_stream', {}))]

    def node_evaluate_right(self, eng, st, recv, args, kwargs, node):
        return [(st, Obj('skipped_stream', {}))]

    def yield_from(self, eng, st, src, ordinal, node):
        return [Outcome(st)]

    def abstract_loop(self, eng, st, s, it, ordinal):
        if isinstance(it, Obj) and it.kind == 'skipped_stream':
            return [Outcome(st)]          # not under contract (see the docstring)
        return super().abstract_loop(eng, st, s, it, ordinal)

    def on_yield(self, eng, st, v, ordinal, node):
        return [st]

    def on_exit(self, eng, o):
        pass

    def signature(self, ob, model):
        return {}


CONTRACTS += [UnionNoReplay]


# ---------------------------------------------------------------------------------------------------------------------
# C05: what the result caches are keyed by (discharges the assumption CacheWriteMixin.trusted_keys makes)
from .required import UV, subset  # noqa: E402
from eqlvc.libmodel import isa, str_const  # noqa: E402,F811


class CacheKeysOwn(LibModel):
    """BinaryOperator.__post_init__: the operator's own result cache (_cache_) is keyed by variables of its two operands
    only, and by EVERY variable of them that is not a literal (a variable that is left out would make an entry claim
    coverage - and a truth value - for bindings of that variable that were never evaluated).
    Assumed: HashedIterable.union / filter are set union / subset-by-predicate over wrapped values (hashed_data, 2-line
    bodies); _update_children_ returns the operands it was given (wrapping constants in a Literal)."""
    qual = 'symbolic:BinaryOperator.__post_init__'
    cls = 'BinaryOperator'
    props = ('C05', 'C16')
    modes = ('sound',)
    which = '_cache_'
    trusted = ("HashedIterable.union / filter: set union, subset by the given predicate (hashed_data.py)",
               "SymbolicExpression._update_children_ returns the operands it was given")

    def modenv(self):
        env = base_modenv()
        env['super'] = C(Ref('func', 'super'))
        return env

    def setup(self, eng):
        st = State()
        st.fields = init_fields()
        self.n = z3.Const('self', Z.Node)
        st.locals['self'] = ZV(self.n, 'node')
        st.ghost['self'] = self.n
        st.ghost['keys'] = {}
        return [st]

    def vars_of_operands(self):
        l, r = Z.f_left(self.n), Z.f_right(self.n)
        return z3.Map(Z.OR_D, UV(l), UV(r)) if self.which == '_cache_' else UV(r)

    # ---- super().__post_init__(), _update_children_
    def call(self, eng, st, f, args, kwargs, node):
        if isinstance(f, C) and f.v == Ref('func', 'super'):
            return [(st, Obj('super_proxy'))]
        if isinstance(f, Meth) and isinstance(f.recv, Obj) and f.recv.kind == 'super_proxy' and f.name == '__post_init__':
            return [(st, NONE)]
        if isinstance(f, Meth) and f.name == '_update_children_':
            return [(st, Tup(list(args)))]
        return super().call(eng, st, f, args, kwargs, node)

    def getattr(self, eng, st, recv, name):
        if isinstance(recv, ZV) and recv.ty == 'node' and recv.t.eq(self.n) and name == '_update_children_':
            return [(st, Meth(recv, name))]
        if isinstance(recv, Obj) and recv.kind == 'idsetx':
            return [(st, Meth(recv, name))]
        if isinstance(recv, Obj) and recv.kind == 'uvelem':
            if name == 'value':
                return [(st, ZV(recv.data['node'], 'node'))]
            if name == 'id_':
                return [(st, ZV(Z.nid(recv.data['node']), 'int'))]
        if isinstance(recv, Obj) and recv.kind == 'cache' and name == 'keys':
            return [(st, st.ghost['keys'].get(recv.data['which'], NONE))]
        return super().getattr(eng, st, recv, name)

    def setattr(self, eng, st, recv, name, v):
        if isinstance(recv, ZV) and recv.ty == 'node' and recv.t.eq(self.n) and name in ('left', 'right'):
            want = Z.f_left(self.n) if name == 'left' else Z.f_right(self.n)
            eng.oblige(st, f"C05/keys/operand-{name}-stays-what-it-was", z3.BoolVal(isinstance(v, ZV) and v.ty == 'node' and v.t.eq(want)))
            return [st]
        if isinstance(recv, Obj) and recv.kind == 'cache' and name == 'keys':
            st = st.clone()
            st.ghost['keys'] = {**st.ghost['keys'], recv.data['which']: v}
            return [st]
        return super().setattr(eng, st, recv, name, v)

    # ---- sets of wrapped variables: Obj('idsetx', mem = python function id-term -> membership term)
    def _mem(self, v):
        if isinstance(v, Obj) and v.kind == 'uniqvars':
            arr = UV(v.data['of'])
            return lambda i: z3.Select(arr, i)
        if isinstance(v, Obj) and v.kind == 'idsetx':
            return v.data['mem']
        raise OutOfSubset(f"ids of {v}")

    def obj_uniqvars_union(self, eng, st, recv, args, kwargs, node):
        a, b = self._mem(recv), self._mem(args[0])
        return [(st, Obj('idsetx', {'mem': lambda i: z3.Or(a(i), b(i))}))]

    obj_idsetx_union = obj_uniqvars_union

    def obj_uniqvars_filter(self, eng, st, recv, args, kwargs, node):
        (fn,) = args
        e = z3.FreshConst(Z.Node, 'elem')
        outs = self.call_closure(eng, st, fn, [Obj('uvelem', {'node': e})], {}, node) if isinstance(fn, Closure) else None
        if not outs or len(outs) != 1:
            raise OutOfSubset("filter predicate", node)
        st2, r = outs[0]
        keep = eng.to_z3_bool(eng.truth(st2, r))
        inner = self._mem(recv)
        return [(st2, Obj('idsetx', {'mem': lambda i: z3.And(inner(i), z3.substitute(keep, (e, Z.node_of(i))))}))]

    obj_idsetx_filter = obj_uniqvars_filter

    def f_isinstance(self, eng, st, args, kwargs, node):
        o, c = args
        if isinstance(o, Obj) and o.kind == 'uvelem':
            return [(st, C(False))]       # the element is the HashedValue wrapper, never an expression class
        return super().f_isinstance(eng, st, args, kwargs, node)

    def listcomp(self, eng, st, e):
        # [v.id_ for v in <set of wrapped variables> if <predicate on v> ...]
        g = e.generators[0]
        if len(e.generators) == 1 and isinstance(e.elt, ast.Attribute) and e.elt.attr == 'id_' \
                and isinstance(e.elt.value, ast.Name) and isinstance(g.target, ast.Name) and e.elt.value.id == g.target.id:
            outs = []
            for s2, it in eng.eval(g.iter, st):
                mem = self._mem(it)
                if g.ifs:
                    elem = z3.FreshConst(Z.Node, 'elem')
                    s3 = s2.clone()
                    s3.locals[g.target.id] = Obj('uvelem', {'node': elem})
                    keeps = []
                    for cond in g.ifs:
                        n0 = len(s3.pc)
                        alts = [z3.And(*(list(sk.pc[n0:]) + [eng.to_z3_bool(eng.truth(sk, vk))])) for sk, vk in eng.eval(cond, s3)]
                        keeps.append(z3.Or(*alts) if alts else z3.BoolVal(False))
                    keep = z3.And(*keeps)
                    inner = mem
                    mem = (lambda inner, keep, elem: (lambda i: z3.And(inner(i), z3.substitute(keep, (elem, Z.node_of(i))))))(inner, keep, elem)
                outs.append((s2, Obj('keylist', {'mem': mem})))
            return outs
        return super().listcomp(eng, st, e)

    def on_exit(self, eng, o):
        st = o.st
        if o.sig not in (NEXT, RETURN):
            eng.oblige(st, "C05/keys/finishes-normally", z3.BoolVal(False))
            return
        k = st.ghost['keys'].get(self.which)
        if not (isinstance(k, Obj) and k.kind == 'keylist'):
            eng.oblige(st, f"C05/keys/{self.which}-gets-its-keys", z3.BoolVal(False))
            return
        K = k.data['mem']
        Uarr = self.vars_of_operands()
        i = z3.FreshConst(Z.I, 'any_id')          # an arbitrary id: the clauses are pointwise
        whose = "the-operands" if self.which == '_cache_' else "the-right-operand"
        eng.oblige(st, f"C05/keys/{self.which}-is-keyed-by-variables-of-{whose}-only", z3.Implies(K(i), z3.Select(Uarr, i)))
        eng.oblige(st, f"C05/keys/{self.which}-is-keyed-by-every-variable-of-{whose}-that-is-not-a-literal",
                   z3.Implies(z3.And(z3.Select(Uarr, i), z3.Not(isa(str_const('Literal'), Z.node_of(i)))), K(i)))

    def signature(self, ob, model):
        return {}


class CacheKeysRight(CacheKeysOwn):
    """LogicalOperator.__post_init__: the cache of the right operand's results (right_cache) is keyed by variables of the
    right operand only, and by every one of them that is not a literal."""
    qual = 'symbolic:LogicalOperator.__post_init__'
    cls = 'LogicalOperator'
    which = 'right_cache'
    props = ('C05', 'C02', 'C18')


CONTRACTS += [CacheKeysOwn, CacheKeysRight]


# ---------------------------------------------------------------------------------------------------------------------
# C05 / C02: for one binding, an operand's results come from the result cache or from evaluating it - never both
class ReplayOrEvaluate(LibModel):
    """AND._evaluate__ (control flow around the result cache only; what the rows are is the subject of the interface
    contract, cache off).  For every row of the left operand: (1) results are replayed from right_cache only after a
    coverage check of that very binding on that very cache succeeded; (2) once the results for a binding were replayed, the right operand is not evaluated for it as well (the rows
    would come twice: C02 'no row is returned twice').  The streams' contents are not looked at here (the right operand's
    loop is skipped)."""
    qual = 'symbolic:AND._evaluate__'
    cls = 'AND'
    props = ('C05', 'C02')
    modes = ('sound',)
    own_cache = False
    selector_clause = False      # (rule construction never puts a conclusion selector below a conjunction)
    trusted = ("only the control flow around cache.check / replay / evaluate is followed here; the rows themselves are the "
               "subject of the interface contract (ANDEval, ElseIfEval, ComparatorEval) and of CacheReplay",)

    def modenv(self):
        return base_modenv()

    def setup(self, eng):
        st = State()
        st.fields = init_fields()
        self.n = z3.Const('self', Z.Node)
        st.locals['self'] = ZV(self.n, 'node')
        st.ghost['self'] = self.n
        st.locals['sources'] = eng.new_dict(st, Z.ZMap.fresh('sources'))
        st.locals['yield_when_false'] = ZV(z3.Const('ywf', Z.B), 'bool')
        st.ghost['covered'] = {}          # (which cache, dict ref) -> the boolean the coverage check returned
        st.ghost['replayed'] = frozenset()
        return [st]

    def f_is_caching_enabled(self, eng, st, args, kwargs, node):
        return [(st, ZV(z3.Const('caching_enabled', Z.B), 'bool'))]

    def obj_cache_check(self, eng, st, recv, args, kwargs, node):
        if len(args) != 1 or not isinstance(args[0], D):
            raise OutOfSubset("cache.check argument", node)
        h = z3.FreshConst(Z.B, 'covered')
        st = st.clone()
        st.ghost['covered'] = {**st.ghost['covered'], (recv.data['which'], args[0].ref): h}
        return [(st, ZV(h, 'bool'))]

    def node_yield_final_output_from_cache(self, eng, st, recv, args, kwargs, node):
        which = '_cache_'
        cache = kwargs.get('cache', args[1] if len(args) > 1 else None)
        if isinstance(cache, Obj) and cache.kind == 'cache':
            which = cache.data['which']
        d = args[0] if args else None
        h = st.ghost['covered'].get((which, d.ref)) if isinstance(d, D) else None
        eng.oblige(st, f"C05/replay-or-evaluate@L{node.lineno}/replay-only-after-a-successful-coverage-check-of-this-binding-on-this-cache",
                   h if h is not None else z3.BoolVal(False), line=node.lineno)
        if which == 'right_cache' and self.selector_clause:
            eng.oblige(st, f"C05/replay-or-evaluate@L{node.lineno}/a-conclusion-selecting-operand-is-not-replayed",
                       z3.Not(Z.selects_conclusions(Z.f_right(self.n))), line=node.lineno)
        st = st.clone()
        st.ghost['replayed'] = st.ghost['replayed'] | {d.ref if isinstance(d, D) else None}
        return [(st, Obj('replay', {}))]

    def node__evaluate__(self, eng, st, recv, args, kwargs, node):
        d = args[0] if args else None
        is_left = recv.t.eq(Z.f_left(self.n))
        if self.own_cache:
            clash = bool(st.ghost['replayed'])
        else:
            clash = (not is_left) and isinstance(d, D) and d.ref in st.ghost['replayed']
        eng.oblige(st, f"C02/replay-or-evaluate@L{node.lineno}/not-evaluated-for-a-binding-whose-results-were-replayed",
                   z3.BoolVal(not clash), line=node.lineno)
        return [(st, Obj('left_stream' if (is_left and not self.own_cache) else 'skipped_stream', {}))]

    def node__is_duplicate_output_(self, eng, st, recv, args, kwargs, node):
        return [(st, ZV(z3.FreshConst(Z.B, 'dup'), 'bool'))]

    def node_update_cache(self, eng, st, recv, args, kwargs, node):
        return [(st, NONE)]

    def node_get_first_second_operands(self, eng, st, recv, args, kwargs, node):
        return [(st, Tup([ZV(Z.f_left(self.n), 'node'), ZV(Z.f_right(self.n), 'node')]))]

    def yield_from(self, eng, st, src, ordinal, node):
        return [Outcome(st)]

    def abstract_loop(self, eng, st, s, it, ordinal):
        if isinstance(it, Obj) and it.kind == 'skipped_stream':
            return [Outcome(st)]
        if isinstance(it, Obj) and it.kind == 'left_stream':
            outs = [Outcome(st)]
            b = st.clone()
            row = eng.new_dict(b, Z.ZMap.fresh('left_row'))
            b.fields['is_false'] = z3.FreshConst(b.fields['is_false'].sort(), 'is_false')
            b.ghost['replayed'] = frozenset()
            for b2 in eng.assign(s.target, row, b):
                for o in eng.exec_block(s.body, b2):
                    outs.append(Outcome(o.st) if o.sig in (NEXT, CONTINUE, BREAK) else o)
            return outs
        return super().abstract_loop(eng, st, s, it, ordinal)

    def on_yield(self, eng, st, v, ordinal, node):
        return [st]

    def on_exit(self, eng, o):
        pass

    def signature(self, ob, model):
        return {}


class ReplayOrEvaluateElseIf(ReplayOrEvaluate):
    """ElseIf._evaluate__: the same two clauses for the else-if's right operand (per false row of the left operand)."""
    qual = 'symbolic:ElseIf._evaluate__'
    cls = 'ElseIf'
    props = ('C05', 'C02', 'C12')
    selector_clause = True


class ReplayOrEvaluateComparator(ReplayOrEvaluate):
    """Comparator._evaluate__: the comparison's own cache - results are replayed only after a successful coverage check of
    the incoming binding, and then neither operand is evaluated."""
    qual = 'symbolic:Comparator._evaluate__'
    cls = 'Comparator'
    props = ('C05', 'C02')
    own_cache = True


CONTRACTS += [ReplayOrEvaluate, ReplayOrEvaluateElseIf, ReplayOrEvaluateComparator]
