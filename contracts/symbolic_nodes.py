"""Contracts of the `_evaluate__` overrides in symbolic.py: the class-specific unfolding of Den / good_row."""
from __future__ import annotations

import z3

from eqlvc import z as Z
from eqlvc.interp import ZV, C, D, Obj, Ref, NONE, OutOfSubset
from .interface import EvalContract, child_shape, tree_shape, MapRel, LeafIds, total, WD


class DomainMappingEval(EvalContract):
    """symbolic.DomainMapping._evaluate__ (shared by Attribute / Index / Call / Flatten).

    Spec (C01, C16, C19): the node's entry is one of the values `_apply_mapping_` yields for the child's entry
    (MapRel); in condition position its truth is bool(value) xor _invert_ (C03)."""
    qual = 'symbolic:DomainMapping._evaluate__'
    cls = 'DomainMapping'
    props = ('C01', 'C03', 'C16', 'C19', 'C02')

    def shape_facts(self, n):
        c = Z.f_child(n)
        return child_shape(n, c) + [z3.Not(Z.cond_pos(c)), Z.is_value(c), Z.is_value(n)]

    def children(self, n):
        return [Z.f_child(n)]

    def den(self, n, rho):
        return z3.Xor(Z.truthy(Z.hv_value(z3.Select(rho, Z.nid(n)))), Z.inv(n))

    def good(self, n, m):
        c = Z.f_child(n)
        return z3.And(Z.good_row(c, m),
                      z3.Implies(m.contains(Z.nid(n)),
                                 z3.And(m.contains(Z.nid(c)), MapRel(n, m.get(Z.nid(c)), m.get(Z.nid(n))))))


CONTRACTS = [DomainMappingEval]


class ComparatorEval(EvalContract):
    """symbolic.Comparator._evaluate__ (result cache off; the cache-hit branch is C05's obligation set).

    Spec (C01/C02): Den = operation(value of left operand, value of right operand); both operands are in value
    position, so every binding of them is needed whatever its truthiness (C19)."""
    qual = 'symbolic:Comparator._evaluate__'
    cls = 'Comparator'
    props = ('C01', 'C02', 'C19', 'C18')
    inline = ('get_first_second_operands', 'apply_operation', 'update_cache')

    def children(self, n):
        return [Z.f_left(n), Z.f_right(n)]

    def shape_facts(self, n):
        l, r = Z.f_left(n), Z.f_right(n)
        return (child_shape(n, l) + child_shape(n, r) + tree_shape(l, r) +
                [z3.Not(Z.cond_pos(l)), z3.Not(Z.cond_pos(r)), Z.is_value(l), Z.is_value(r), Z.is_value(n),
                 Z.cond_pos(n)])   # T2: comparators stand in condition position

    def den(self, n, rho):
        l, r = Z.f_left(n), Z.f_right(n)
        return Z.opapp(Z.optag(n), Z.hv_value(z3.Select(rho, Z.nid(l))), Z.hv_value(z3.Select(rho, Z.nid(r))))

    def good(self, n, m):
        l, r = Z.f_left(n), Z.f_right(n)
        res = Z.boolval(Z.opapp(Z.optag(n), Z.hv_value(m.get(Z.nid(l))), Z.hv_value(m.get(Z.nid(r)))))
        return z3.And(Z.good_row(l, m), Z.good_row(r, m),
                      z3.Implies(m.contains(Z.nid(n)),
                                 z3.And(m.contains(Z.nid(l)), m.contains(Z.nid(r)),
                                        m.get(Z.nid(n)) == Z.mkhv(res, Z.objid(res)))))


CONTRACTS.append(ComparatorEval)


class ANDEval(EvalContract):
    """symbolic.AND._evaluate__ (result cache off).  Spec: Den = Den(left) and Den(right); rows of the right side are
    produced under the left row (bindings threaded left to right)."""
    qual = 'symbolic:AND._evaluate__'
    cls = 'AND'
    props = ('C01', 'C02', 'C03')
    inline = ('update_cache',)

    def children(self, n):
        return [Z.f_left(n), Z.f_right(n)]

    def shape_facts(self, n):
        l, r = Z.f_left(n), Z.f_right(n)
        return (child_shape(n, l) + child_shape(n, r) + tree_shape(l, r) +
                [Z.cond_pos(l), Z.cond_pos(r), Z.cond_pos(n), z3.Not(Z.is_value(n))])

    def den(self, n, rho):
        return z3.And(Z.Den(Z.f_left(n), rho), Z.Den(Z.f_right(n), rho))

    def good(self, n, m):
        return z3.And(Z.good_row(Z.f_left(n), m), Z.good_row(Z.f_right(n), m))


class ElseIfEval(EvalContract):
    """symbolic.ElseIf._evaluate__ (result cache off).  Spec: Den = Den(left) or Den(right), each binding once."""
    qual = 'symbolic:ElseIf._evaluate__'
    cls = 'ElseIf'
    props = ('C01', 'C02', 'C03')
    inline = ('update_cache',)

    def children(self, n):
        return [Z.f_left(n), Z.f_right(n)]

    def shape_facts(self, n):
        l, r = Z.f_left(n), Z.f_right(n)
        return (child_shape(n, l) + child_shape(n, r) + tree_shape(l, r) +
                [Z.cond_pos(l), Z.cond_pos(r), Z.cond_pos(n), z3.Not(Z.is_value(n))])

    def den(self, n, rho):
        return z3.Or(Z.Den(Z.f_left(n), rho), Z.Den(Z.f_right(n), rho))

    def good(self, n, m):
        return z3.And(Z.good_row(Z.f_left(n), m), Z.good_row(Z.f_right(n), m))

    def loop_invariant(self, eng, st, ordinal, iterated):
        if ordinal == 1 and 'any_left' in st.locals:
            return eng.to_z3_bool(eng.truth(st, st.locals['any_left'])) == iterated
        return None


CONTRACTS += [ANDEval, ElseIfEval]
