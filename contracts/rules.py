"""C12: rule trees.  Conclusion selection in ExceptIf / Alternative / Next, and the construction functions
rule.refinement / rule.alternative_or_next (slot replacement in the parent operator).

Spec (ripple-down rules), Sel(n, rho) = the set of conclusions node n contributes under rho:
    leaf condition            its statically attached conclusions
    ExceptIf(l, r)            Sel(r) if Den(r) else Sel(l)            (a refinement overrides what it refines)
    Alternative(l, r)         Sel(l) if Den(l) else (Sel(r) if Den(r) else {})
Snapshot clause S1 (added to the interface for these contracts): at every yield, n._conclusion_ == Sel(n, rho) for every
well-formed rho extending the row; the descriptor applies exactly the conclusions it finds at that moment."""
from __future__ import annotations

import ast

import z3

from eqlvc import z as Z
from eqlvc.interp import (SV, ZV, C, D, Tup, Lst, Obj, Meth, Closure, Ref, NONE, TRUE, FALSE, State, Outcome,
                          OutOfSubset, NEXT, CONTINUE, BREAK, RETURN, RAISE, GENEXIT)
from eqlvc.libmodel import LibModel, base_modenv, init_fields, isa, str_const
from .interface import (EvalContract, child_shape, tree_shape, subtree_is, LeafIds, total, WD, lab, filt, Binds, TRUE_IDS, pre_I)

ArrNodeSet = z3.ArraySort(Z.Node, Z.ArrIB)
Sel = z3.Function('Sel', Z.Node, Z.Env, Z.ArrIB)
EMPTY = z3.K(Z.I, z3.BoolVal(False))


class ConclusionMixin:
    """adds the conclusion sets (field `concl`) and clause S1 to the interface"""

    def setup(self, eng):
        sts = super().setup(eng)
        for st in sts:
            st.fields['concl'] = z3.Const('concl0', ArrNodeSet)
            n = st.ghost['self']
            # quiescent state: a selector's own (dynamic) conclusion set is empty between rows
            st.assume(z3.Select(st.fields['concl'], n) == EMPTY)
        return sts

    def getattr(self, eng, st, recv, name):
        if isinstance(recv, ZV) and recv.ty in ('node', 'optnode') and name == '_conclusion_':
            return [(st, Obj('conclset', {'of': recv.t}))]
        return super().getattr(eng, st, recv, name)

    def obj_conclset_update(self, eng, st, recv, args, kwargs, node):
        (o,) = args
        st = st.clone()
        src = z3.Select(st.fields['concl'], o.data['of']) if isinstance(o, Obj) and o.kind == 'conclset' else None
        if src is None:
            raise OutOfSubset("update of a conclusion set with something else", node)
        cur = z3.Select(st.fields['concl'], recv.data['of'])
        st.fields['concl'] = z3.Store(st.fields['concl'], recv.data['of'], z3.Map(Z.OR_D, cur, src))
        return [(st, NONE)]

    def obj_conclset_clear(self, eng, st, recv, args, kwargs, node):
        st = st.clone()
        st.fields['concl'] = z3.Store(st.fields['concl'], recv.data['of'], EMPTY)
        return [(st, NONE)]

    def obj_truth(self, eng, st, v):
        if v.kind == 'conclset':
            return z3.Select(st.fields['concl'], v.data['of']) != EMPTY
        return super().obj_truth(eng, st, v) if hasattr(super(), 'obj_truth') else None

    def havoc_for_loop(self, eng, st, body, **kw):
        h = super().havoc_for_loop(eng, st, body, **kw)
        callee = kw.get('callee')
        if callee is not None:
            fresh = z3.FreshConst(ArrNodeSet, 'hconcl')
            h.fields['concl'] = z3.Map(z3.If(z3.Bool('_c'), z3.Const('_p', Z.ArrIB), z3.Const('_q', Z.ArrIB)).decl(),
                                       Z.Sub(callee), fresh, h.fields['concl'])
        return h

    def assume_row(self, st, c, sig, f, R, filt_c=None):
        m = super().assume_row(st, c, sig, f, R, filt_c)
        cc = z3.Select(st.fields['concl'], c)
        st.qf.append(lambda rho, m=m, c=c, cc=cc: z3.Implies(z3.And(Z.ext(rho, m), WD(c, rho)), cc == Sel(c, rho)))
        for e in st.ghost.get('envs', []):
            st.assume(st.qf[-1](e))
        return m

    def sel(self, n, rho):
        raise NotImplementedError

    def extra_yield_obligations(self, eng, st, v, ordinal, node):
        n = st.ghost['self']
        rho = z3.FreshConst(Z.Env, 'rho')
        m = st.dicts[v.ref].merge(st.ghost['sigma_now'])
        lbl = z3.Select(st.fields['is_false'], n)
        eng.oblige(st, f"C12/select@yield#{ordinal}/conclusions-are-those-the-rule-tree-prescribes",
                   z3.Select(st.fields['concl'], n) == z3.If(lbl, EMPTY, self.sel(n, rho)),
                   hyp=[Z.ext(rho, m), WD(n, rho)], envs=[rho], line=node.lineno)

    def on_iteration_end(self, eng, st, ordinal):
        # loop invariant: the selector's own conclusion set is empty again when an iteration ends (cleared after the yield)
        n = st.ghost['self']
        eng.oblige(st, f"C12/select/loop{ordinal}/own-conclusions-cleared-after-each-row", z3.Select(st.fields['concl'], n) == EMPTY)
        super().on_iteration_end(eng, st, ordinal)


class RefinementCacheMixin:
    """result cache switched on: the refinement cache of the node (`right_cache`) is cold when the evaluation starts and only
    this function's own insertions can make a lookup hit (ghost field rc_cov: "some insertion into right_cache happened")"""
    caching_cases = (False, True)

    def setup(self, eng):
        sts = super().setup(eng)
        for st in sts:
            st.fields['rc_cov'] = z3.K(Z.Node, z3.BoolVal(False))
        return sts

    def getattr(self, eng, st, recv, name):
        if isinstance(recv, Obj) and recv.kind == 'cache' and name == 'keys':
            return [(st, Obj('keylist', {'ids': z3.Const('rc_keys', Z.ArrIB)}))]
        return super().getattr(eng, st, recv, name)

    def obj_cache_check(self, eng, st, recv, args, kwargs, node):
        if recv.data['which'] != 'right_cache' or not recv.data['of'].eq(st.ghost['self']):
            raise OutOfSubset("lookup in another cache", node)
        return [(st, ZV(z3.Select(st.fields['rc_cov'], st.ghost['self']), 'bool'))]

    def obj_cache_insert(self, eng, st, recv, args, kwargs, node):
        if recv.data['which'] != 'right_cache' or not recv.data['of'].eq(st.ghost['self']):
            raise OutOfSubset("insertion into another cache", node)
        st = st.clone()
        st.fields['rc_cov'] = z3.Store(st.fields['rc_cov'], st.ghost['self'], z3.BoolVal(True))
        self.note_write(eng, st, 'rc_cov', st.ghost['self'])
        return [(st, NONE)]


class ExceptIfEval(RefinementCacheMixin, ConclusionMixin, EvalContract):
    qual = 'conclusion_selector:ExceptIf._evaluate__'
    cls = 'ExceptIf'
    props = ('C12',)
    inline = ('update_cache',)
    source_cases = ('empty', 'nonempty')
    trusted = ("`sources or HashedIterable()`: an empty HashedIterable behaves like an empty dict for the callee and for "
               "dict.update (no entries); the contract covers dict sources",)

    def modenv(self):
        from eqlvc.libmodel import base_modenv as b
        env = b()
        return env

    def new_HashedIterable(self, eng, st, args, kwargs, node):
        st = st.clone()
        return [(st, eng.new_dict(st, Z.ZMap.empty(), own=True))]

    def children(self, n):
        return [Z.f_left(n), Z.f_right(n)]

    def shape_facts(self, n):
        l, r = Z.f_left(n), Z.f_right(n)
        return (child_shape(n, l) + child_shape(n, r) + tree_shape(l, r) +
                [Z.cond_pos(l), Z.cond_pos(r), Z.truth_node(n), z3.Not(Z.is_value(n)), Z.truth_node(l), Z.truth_node(r)])

    def den(self, n, rho):
        # a match of the refined rule is a match of the base conditions; the refinement only selects the conclusion
        return Z.Den(Z.f_left(n), rho)

    modes = ('sound',)     # completeness is per binding of the base rule (does some extension satisfy the refinement?), not
    #                         per total environment; it is exercised by the bounded rule-tree stand-in

    def sel(self, n, rho):
        l, r = Z.f_left(n), Z.f_right(n)
        return z3.If(Z.Den(r, rho), Sel(r, rho), Sel(l, rho))


CONTRACTS = [ExceptIfEval]
