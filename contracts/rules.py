"""C12: rule trees.  Conclusion selection in ExceptIf / Alternative / Next, and the construction functions
rule.refinement / rule.alternative_or_next (slot replacement in the parent operator).

Spec (ripple-down rules), Sel(n, rho) = the set of conclusions node n contributes under rho:
    leaf condition            its statically attached conclusions
    ExceptIf(l, r)            Sel(r) if Den(r) else Sel(l)            (a refinement overrides what it refines)
    Alternative(l, r)         Sel(l) if Den(l) else (Sel(r) if Den(r) else {})
Snapshot clause S1 (added to the interface for these contracts): at every yield, n._conclusion_ == Sel(n, rho) for every
well-formed rho extending the row; the descriptor applies exactly the conclusions it finds at that moment."""
from __future__ import annotations

import ast

import z3

from eqlvc import z as Z
from eqlvc.interp import (SV, ZV, C, D, Tup, Lst, Obj, Meth, Closure, Ref, NONE, TRUE, FALSE, State, Outcome,
                          OutOfSubset, NEXT, CONTINUE, BREAK, RETURN, RAISE, GENEXIT)
from eqlvc.libmodel import LibModel, base_modenv, init_fields, isa, str_const
from .interface import (EvalContract, child_shape, tree_shape, subtree_is, LeafIds, total, WD, lab, filt, Binds, TRUE_IDS, pre_I)

ArrNodeSet = z3.ArraySort(Z.Node, Z.ArrIB)
Sel = z3.Function('Sel', Z.Node, Z.Env, Z.ArrIB)
EMPTY = z3.K(Z.I, z3.BoolVal(False))


class ConclusionMixin:
    """adds the conclusion sets (field `concl`) and clause S1 to the interface"""

    def setup(self, eng):
        sts = super().setup(eng)
        for st in sts:
            st.fields['concl'] = z3.Const('concl0', ArrNodeSet)
            n = st.ghost['self']
            # quiescent state: a selector's own (dynamic) conclusion set is empty between rows
            st.assume(z3.Select(st.fields['concl'], n) == EMPTY)
        return sts

    def getattr(self, eng, st, recv, name):
        if isinstance(recv, ZV) and recv.ty in ('node', 'optnode') and name == '_conclusion_':
            return [(st, Obj('conclset', {'of': recv.t}))]
        return super().getattr(eng, st, recv, name)

    def obj_conclset_update(self, eng, st, recv, args, kwargs, node):
        (o,) = args
        st = st.clone()
        src = z3.Select(st.fields['concl'], o.data['of']) if isinstance(o, Obj) and o.kind == 'conclset' else None
        if src is None:
            raise OutOfSubset("update of a conclusion set with something else", node)
        cur = z3.Select(st.fields['concl'], recv.data['of'])
        st.fields['concl'] = z3.Store(st.fields['concl'], recv.data['of'], z3.Map(Z.OR_D, cur, src))
        if recv.data['of'].eq(st.ghost['self']):
            st.ghost['own_from'] = o.data['of']       # which operand's selection the node passes on for the current output
        return [(st, NONE)]

    def obj_conclset_clear(self, eng, st, recv, args, kwargs, node):
        st = st.clone()
        st.fields['concl'] = z3.Store(st.fields['concl'], recv.data['of'], EMPTY)
        if recv.data['of'].eq(st.ghost['self']):
            st.ghost['own_from'] = None
            st.ghost['retracted'] = []
        return [(st, NONE)]

    def node__clear_conclusion_(self, eng, st, recv, args, kwargs, node):
        # ConclusionSelector._clear_conclusion_: the real body is executed (the own set is emptied, the retraction record reset)
        q = self.src.resolve_method(self.cls, '_clear_conclusion_')
        if q is None or not recv.t.eq(st.ghost['self']):
            raise OutOfSubset("_clear_conclusion_ of something else than the node itself", node)
        return self.inline_method(eng, st, q, recv, args, kwargs, node)

    def setattr(self, eng, st, recv, name, v):
        if isinstance(recv, ZV) and recv.ty == 'node' and recv.t.eq(st.ghost['self']) and name == '_concluded_now_':
            st = st.clone()
            st.ghost['concluded_now'] = v
            return [st]
        return super().setattr(eng, st, recv, name, v)

    def node__retract_conclusion_(self, eng, st, recv, args, kwargs, node):
        """operand._retract_conclusion_() - the operand (a conclusion selector) forgets that it concluded what it selected for
        the current output (contract RetractConclusion).  The conclusion sets themselves are not touched."""
        st = st.clone()
        st.ghost['retracted'] = st.ghost.get('retracted', []) + [recv.t]
        return [(st, NONE)]

    def obj_truth(self, eng, st, v):
        if v.kind == 'conclset':
            return z3.Select(st.fields['concl'], v.data['of']) != EMPTY
        return super().obj_truth(eng, st, v) if hasattr(super(), 'obj_truth') else None

    def havoc_for_loop(self, eng, st, body, **kw):
        h = super().havoc_for_loop(eng, st, body, **kw)
        callee = kw.get('callee')
        if callee is not None:
            ite = z3.If(z3.Bool('_c'), z3.Const('_p', Z.ArrIB), z3.Const('_q', Z.ArrIB)).decl()
            n = st.ghost['self']
            # a helper generator of the node itself (super()._evaluate__) leaves the node's own set alone: only the
            # operands' subtrees are touched
            subs = [Z.Sub(ch) for ch in self.children(n)] if callee.eq(n) else [Z.Sub(callee)]
            for sub in subs:
                fresh = z3.FreshConst(ArrNodeSet, 'hconcl')
                h.fields['concl'] = z3.Map(ite, sub, fresh, h.fields['concl'])
        return h

    def assume_row(self, st, c, sig, f, R, filt_c=None):
        m = super().assume_row(st, c, sig, f, R, filt_c)
        cc = z3.Select(st.fields['concl'], c)
        lc = z3.Select(st.fields['is_false'], c)
        # S1 of the callee: for a TRUE row its conclusion set is the one its rule (sub)tree prescribes
        st.qf.append(lambda rho, m=m, c=c, cc=cc, lc=lc: z3.Implies(z3.And(Z.ext(rho, m), WD(c, rho), z3.Not(lc)), cc == Sel(c, rho)))
        for e in st.ghost.get('envs', []):
            st.assume(st.qf[-1](e))
        return m

    def sel(self, n, rho):
        raise NotImplementedError

    def extra_yield_obligations(self, eng, st, v, ordinal, node):
        n = st.ghost['self']
        rho = z3.FreshConst(Z.Env, 'rho')
        m = st.dicts[v.ref].merge(st.ghost['sigma_now'])
        lbl = z3.Select(st.fields['is_false'], n)
        eng.oblige(st, f"C12/select@yield#{ordinal}/conclusions-are-those-the-rule-tree-prescribes",
                   z3.Select(st.fields['concl'], n) == z3.If(lbl, EMPTY, self.sel(n, rho)),
                   hyp=[Z.ext(rho, m), WD(n, rho)], envs=[rho], line=node.lineno)

    def on_iteration_end(self, eng, st, ordinal):
        # loop invariant: the selector's own conclusion set is empty again when an iteration ends (cleared after the yield)
        n = st.ghost['self']
        eng.oblige(st, f"C12/select/loop{ordinal}/own-conclusions-cleared-after-each-row", z3.Select(st.fields['concl'], n) == EMPTY)
        super().on_iteration_end(eng, st, ordinal)


class RefinementCacheMixin:
    """result cache switched on: the refinement cache of the node (`right_cache`) is cold when the evaluation starts and only
    this function's own insertions can make a lookup hit (ghost field rc_cov: "some insertion into right_cache happened")"""
    caching_cases = (False, True)

    def setup(self, eng):
        sts = super().setup(eng)
        for st in sts:
            st.fields['rc_cov'] = z3.K(Z.Node, z3.BoolVal(False))
        return sts

    def getattr(self, eng, st, recv, name):
        if isinstance(recv, Obj) and recv.kind == 'cache' and name == 'keys':
            return [(st, Obj('keylist', {'ids': z3.Const('rc_keys', Z.ArrIB)}))]
        return super().getattr(eng, st, recv, name)

    def obj_cache_check(self, eng, st, recv, args, kwargs, node):
        if recv.data['which'] != 'right_cache' or not recv.data['of'].eq(st.ghost['self']):
            raise OutOfSubset("lookup in another cache", node)
        return [(st, ZV(z3.Select(st.fields['rc_cov'], st.ghost['self']), 'bool'))]

    def obj_cache_insert(self, eng, st, recv, args, kwargs, node):
        if recv.data['which'] != 'right_cache' or not recv.data['of'].eq(st.ghost['self']):
            raise OutOfSubset("insertion into another cache", node)
        st = st.clone()
        st.fields['rc_cov'] = z3.Store(st.fields['rc_cov'], st.ghost['self'], z3.BoolVal(True))
        self.note_write(eng, st, 'rc_cov', st.ghost['self'])
        return [(st, NONE)]


class ExceptIfEval(RefinementCacheMixin, ConclusionMixin, EvalContract):
    qual = 'conclusion_selector:ExceptIf._evaluate__'
    cls = 'ExceptIf'
    props = ('C12',)
    inline = ('update_cache',)
    source_cases = ('empty', 'nonempty')
    trusted = ("`sources or HashedIterable()`: an empty HashedIterable behaves like an empty dict for the callee and for "
               "dict.update (no entries); the contract covers dict sources",)

    def modenv(self):
        from eqlvc.libmodel import base_modenv as b
        env = b()
        return env

    def new_HashedIterable(self, eng, st, args, kwargs, node):
        st = st.clone()
        return [(st, eng.new_dict(st, Z.ZMap.empty(), own=True))]

    def children(self, n):
        return [Z.f_left(n), Z.f_right(n)]

    def shape_facts(self, n):
        l, r = Z.f_left(n), Z.f_right(n)
        return (child_shape(n, l) + child_shape(n, r) + tree_shape(l, r) +
                [Z.cond_pos(l), Z.cond_pos(r), Z.truth_node(n), z3.Not(Z.is_value(n)), Z.truth_node(l), Z.truth_node(r)])

    def den(self, n, rho):
        # a match of the refined rule is a match of the base conditions; the refinement only selects the conclusion
        return Z.Den(Z.f_left(n), rho)

    modes = ('sound',)     # completeness is per binding of the base rule (does some extension satisfy the refinement?), not
    #                         per total environment; it is exercised by the bounded rule-tree stand-in

    def sel(self, n, rho):
        l, r = Z.f_left(n), Z.f_right(n)
        return z3.If(Z.Den(r, rho), Sel(r, rho), Sel(l, rho))

    def extra_yield_obligations(self, eng, st, v, ordinal, node):
        super().extra_yield_obligations(eng, st, v, ordinal, node)
        n = st.ghost['self']
        l, r = Z.f_left(n), Z.f_right(n)
        src = st.ghost.get('own_from')
        retracted = st.ghost.get('retracted', [])
        # a refinement that fires REPLACES what the refined rule selected for this output: the refined rule (if it is a
        # conclusion selector) is told, so that it does not remember having concluded it; a selection that is passed on is
        # never retracted, and nothing but the refined rule is ever asked to retract
        eng.oblige(st, f"C12/retract@yield#{ordinal}/only-the-refined-rule-is-asked-to-retract",
                   z3.And(*[x == l for x in retracted]) if retracted else z3.BoolVal(True), line=node.lineno)
        if src is not None and src.eq(r):
            eng.oblige(st, f"C12/retract@yield#{ordinal}/a-replaced-selection-is-retracted",
                       z3.Implies(Z.selects_conclusions(l), z3.BoolVal(bool(retracted))), line=node.lineno)
        else:
            eng.oblige(st, f"C12/retract@yield#{ordinal}/a-selection-that-is-passed-on-is-not-retracted",
                       z3.BoolVal(not retracted), line=node.lineno)


from .symbolic_nodes import ElseIfEval  # noqa: E402


def s2_clauses(st, n, rho):
    """S2, the extra postcondition of ElseIf._evaluate__ that Alternative relies on: at a yield, for every well-defined
    rho extending the row, the left operand's flag is its truth; if it is false the right operand's flag is its truth; and
    the conclusion set of the operand that fired is the one its rule subtree prescribes"""
    l, r = Z.f_left(n), Z.f_right(n)
    fl, fr = z3.Select(st.fields['is_false'], l), z3.Select(st.fields['is_false'], r)
    cl, cr = z3.Select(st.fields['concl'], l), z3.Select(st.fields['concl'], r)
    return [('left-flag-is-the-truth-of-the-left-branch', fl == z3.Not(Z.Den(l, rho))),
            ('right-flag-is-the-truth-of-the-right-branch-when-the-left-is-false', z3.Implies(fl, fr == z3.Not(Z.Den(r, rho)))),
            ('left-conclusions-when-the-left-fired', z3.Implies(z3.Not(fl), cl == Sel(l, rho))),
            ('right-conclusions-when-the-right-fired', z3.Implies(z3.And(fl, z3.Not(fr)), cr == Sel(r, rho)))]


class ElseIfRuleEval(ConclusionMixin, ElseIfEval):
    """ElseIf._evaluate__ once more, as the helper of Alternative: the interface clauses plus S2"""
    props = ('C12',)
    modes = ('sound',)

    def extra_yield_obligations(self, eng, st, v, ordinal, node):
        n = st.ghost['self']
        rho = z3.FreshConst(Z.Env, 'rho')
        m = st.dicts[v.ref].merge(st.ghost['sigma_now'])
        for nm, f in s2_clauses(st, n, rho):
            eng.oblige(st, f"C12/S2@yield#{ordinal}/{nm}", f, hyp=[Z.ext(rho, m), WD(n, rho)], envs=[rho], line=node.lineno)

    def on_iteration_end(self, eng, st, ordinal):
        EvalContract.on_iteration_end(self, eng, st, ordinal)      # a plain else-if has no conclusion set of its own to clear


class AlternativeEval(ConclusionMixin, EvalContract):
    """Alternative._evaluate__: the rows of the else-if (super()._evaluate__, same node) with the conclusion selected:
        Sel(Alternative(l, r), rho) = Sel(l) if Den(l) else (Sel(r) if Den(r) else {})
    update_conclusion (its own contract: UpdateConclusion) adds the chosen set unless the same conclusion binding was
    concluded before (ghost `dup`): S1 is stated modulo that de-duplication."""
    qual = 'conclusion_selector:Alternative._evaluate__'
    cls = 'Alternative'
    props = ('C12',)
    modes = ('sound',)
    trusted = ("update_conclusion(output, conclusions): adds `conclusions` to the node's own set unless it is empty or the "
               "projection of the output on the conclusions' variables was concluded before (contract UpdateConclusion)",
               "super()._evaluate__ is ElseIf._evaluate__ on the same node: interface contract I plus clause S2 (contract "
               "ElseIfRuleEval); result cache off (cache on: bounded rule-tree stand-ins)")

    def modenv(self):
        env = base_modenv()
        env['super'] = C(Ref('func', 'super'))
        return env

    def children(self, n):
        return [Z.f_left(n), Z.f_right(n)]

    def shape_facts(self, n):
        l, r = Z.f_left(n), Z.f_right(n)
        return (child_shape(n, l) + child_shape(n, r) + tree_shape(l, r) +
                [Z.cond_pos(l), Z.cond_pos(r), Z.truth_node(n), z3.Not(Z.is_value(n))])

    def den(self, n, rho):
        return z3.Or(Z.Den(Z.f_left(n), rho), Z.Den(Z.f_right(n), rho))

    def sel(self, n, rho):
        l, r = Z.f_left(n), Z.f_right(n)
        return z3.If(Z.Den(l, rho), Sel(l, rho), z3.If(Z.Den(r, rho), Sel(r, rho), EMPTY))

    def call(self, eng, st, f, args, kwargs, node):
        if isinstance(f, C) and f.v == Ref('func', 'super'):
            return [(st, Obj('super_proxy', {}))]
        if isinstance(f, Meth) and isinstance(f.recv, Obj) and f.recv.kind == 'super_proxy' and f.name == '_evaluate__':
            srcs = args[0] if args else kwargs.get('sources', NONE)
            fl = args[1] if len(args) > 1 else kwargs.get('yield_when_false', FALSE)
            return [(st, Obj('stream', {'node': st.ghost['self'], 'sigma': srcs, 'ywf': eng.to_z3_bool(eng.truth(st, fl)),
                                        'line': node.lineno, 'own_method': True}))]
        return super().call(eng, st, f, args, kwargs, node)

    def assume_row(self, st, c, sig, f, R, filt_c=None):
        m = super().assume_row(st, c, sig, f, R, filt_c)
        if c.eq(st.ghost['self']):
            fields = dict(st.fields)

            class _S:        # the state as it is when the row is delivered
                pass
            snap = _S()
            snap.fields = fields
            st.qf.append(lambda rho, m=m, c=c, snap=snap: z3.Implies(z3.And(Z.ext(rho, m), WD(c, rho)),
                                                                      z3.And(*[g for _, g in s2_clauses(snap, c, rho)])))
            for e in st.ghost.get('envs', []):
                st.assume(st.qf[-1](e))
        return m

    def node_update_conclusion(self, eng, st, recv, args, kwargs, node):
        out, concs = args
        if not (isinstance(concs, Obj) and concs.kind == 'conclset' and recv.t.eq(st.ghost['self'])):
            raise OutOfSubset("update_conclusion arguments", node)
        st = st.clone()
        n = st.ghost['self']
        src = z3.Select(st.fields['concl'], concs.data['of'])
        cur = z3.Select(st.fields['concl'], n)
        dup = z3.FreshConst(Z.B, 'concluded_before')
        st.ghost['dup'] = z3.Or(st.ghost.get('dup', z3.BoolVal(False)), dup)
        st.fields['concl'] = z3.Store(st.fields['concl'], n, z3.If(z3.Or(src == EMPTY, dup), cur, z3.Map(Z.OR_D, cur, src)))
        return [(st, NONE)]

    def extra_yield_obligations(self, eng, st, v, ordinal, node):
        n = st.ghost['self']
        rho = z3.FreshConst(Z.Env, 'rho')
        m = st.dicts[v.ref].merge(st.ghost['sigma_now'])
        lbl = z3.Select(st.fields['is_false'], n)
        dup = st.ghost.get('dup', z3.BoolVal(False))
        got = z3.Select(st.fields['concl'], n)
        eng.oblige(st, f"C12/select@yield#{ordinal}/conclusions-are-those-the-rule-tree-prescribes",
                   z3.And(z3.Implies(z3.Not(dup), got == z3.If(lbl, EMPTY, self.sel(n, rho))), z3.Implies(dup, got == EMPTY)),
                   hyp=[Z.ext(rho, m), WD(n, rho)], envs=[rho], line=node.lineno)

    def on_yield(self, eng, st, v, ordinal, node):
        res = super().on_yield(eng, st, v, ordinal, node)
        for s in res:
            s.ghost.pop('dup', None)
        return res


class UpdateConclusion(LibModel):
    """ConclusionSelector.update_conclusion(output, conclusions) - the callee contract AlternativeEval relies on:
    nothing happens for an empty set; otherwise the projection K of `output` onto the variables of the conclusions is looked
    up ONCE in the concluded-before set the node keeps for (the output's truth value, exactly these conclusions) - a binding of
    the variables of one conclusion says nothing about another conclusion having been drawn; if it was not seen,
    `conclusions` is added to the node's own set and K (the same dict) is recorded in the same set; if it was seen nothing
    changes."""
    qual = 'conclusion_selector:ConclusionSelector.update_conclusion'
    cls = 'ConclusionSelector'
    props = ('C12',)
    modes = ('sound',)
    trusted = ("which variables key the de-duplication (the conclusions' non-literal variables) is not interpreted: the loop "
               "that collects them is summarised as 'some id set'; SeenSet.check / add have their own contracts (cache.py)",)

    def modenv(self):
        env = base_modenv()
        env['Literal'] = C(Ref('class', 'Literal'))
        env['frozenset'] = C(Ref('class', 'frozenset'))
        return env

    def new_frozenset(self, eng, st, args, kwargs, node):
        (o,) = args
        if not (isinstance(o, Obj) and o.kind == 'givenset'):
            raise OutOfSubset("frozenset of something else than the given conclusions", node)
        return [(st, Obj('frozen_given', {}))]

    def new_SeenSet(self, eng, st, args, kwargs, node):
        return [(st, Obj('fresh_seenset', {}))]

    def obj_seenpair_setdefault(self, eng, st, recv, args, kwargs, node):
        k, default = args
        per = (isinstance(k, Tup) and len(k.items) == 2 and isinstance(k.items[1], Obj) and k.items[1].kind == 'frozen_given'
               and isinstance(default, Obj) and default.kind == 'fresh_seenset')
        truth = eng.to_z3_bool(eng.truth(st, k.items[0])) if isinstance(k, Tup) and k.items else z3.FreshConst(Z.B, 'key')
        return [(st, Obj('seenset', {'key': truth, 'per_conclusions': per}))]

    def setup(self, eng):
        st = State()
        n = z3.Const('self', Z.Node)
        st.ghost['self'] = n
        st.locals['self'] = ZV(n, 'node')
        st.fields = {'concl': z3.Const('concl0', ArrNodeSet), 'is_false': z3.Const('is_false0', Z.ArrNB)}
        st.locals['output'] = eng.new_dict(st, Z.ZMap.fresh('output'))
        st.ghost['src'] = z3.Const('given_conclusions', Z.ArrIB)
        st.locals['conclusions'] = Obj('givenset', {})
        st.ghost['seen_calls'] = []
        st.ghost['idsets'] = {}
        return [st]

    def obj_truth(self, eng, st, v):
        if v.kind == 'givenset':
            return st.ghost['src'] != EMPTY
        return None

    def new_HashedIterable(self, eng, st, args, kwargs, node):
        st = st.clone()
        r = eng.new_ref()
        ids = dict(st.ghost['idsets'])
        ids[r] = z3.K(Z.I, z3.BoolVal(False))
        st.ghost['idsets'] = ids
        return [(st, Obj('idset', {'ref': r}))]

    def abstract_loop(self, eng, st, s, it, ordinal):
        if isinstance(it, Obj) and it.kind == 'givenset':
            # the loop only fills local id sets: afterwards they hold some ids (not interpreted)
            e = st.clone()
            e.ghost['idsets'] = {r: z3.FreshConst(Z.ArrIB, 'collected') for r in st.ghost['idsets']}
            return [Outcome(e)]
        return super().abstract_loop(eng, st, s, it, ordinal)

    def key_ids(self, eng, st, y):
        if isinstance(y, Obj) and y.kind == 'idset':
            return st.ghost['idsets'][y.data['ref']]
        return super().key_ids(eng, st, y)

    def getattr(self, eng, st, recv, name):
        if isinstance(recv, ZV) and recv.ty == 'node' and recv.t.eq(st.ghost['self']):
            if name == 'concluded_before':
                return [(st, Obj('seenpair', {}))]
            if name == '_conclusion_':
                return [(st, Obj('ownset', {}))]
            if name == '_is_false_':
                return [(st, ZV(z3.Select(st.fields['is_false'], recv.t), 'bool'))]
        return super().getattr(eng, st, recv, name)

    def subscript(self, eng, st, recv, k):
        if isinstance(recv, Obj) and recv.kind == 'seenpair':
            # one set per truth value only: not kept per set of conclusions
            return [(st, Obj('seenset', {'key': eng.to_z3_bool(eng.truth(st, k)), 'per_conclusions': False}))]
        return super().subscript(eng, st, recv, k) if hasattr(super(), 'subscript') else None

    def obj_seenset_check(self, eng, st, recv, args, kwargs, node):
        (d,) = args
        st = st.clone()
        seen = z3.FreshConst(Z.B, 'seen')
        st.ghost['seen_calls'] = st.ghost['seen_calls'] + [('check', recv.data['key'], d, seen)]
        st.ghost['per_conclusions'] = bool(recv.data.get('per_conclusions'))
        return [(st, ZV(seen, 'bool'))]

    def obj_seenset_add(self, eng, st, recv, args, kwargs, node):
        (d,) = args
        st = st.clone()
        st.ghost['seen_calls'] = st.ghost['seen_calls'] + [('add', recv.data['key'], d, None)]
        return [(st, NONE)]

    def setattr(self, eng, st, recv, name, v):
        if isinstance(recv, ZV) and recv.ty == 'node' and recv.t.eq(st.ghost['self']) and name == '_concluded_now_':
            st = st.clone()
            st.ghost['concluded_now'] = v
            return [st]
        return super().setattr(eng, st, recv, name, v)

    def obj_ownset_update(self, eng, st, recv, args, kwargs, node):
        (o,) = args
        if not (isinstance(o, Obj) and o.kind == 'givenset'):
            raise OutOfSubset("own conclusions updated with something else", node)
        st = st.clone()
        n = st.ghost['self']
        cur = z3.Select(st.fields['concl'], n)
        st.fields['concl'] = z3.Store(st.fields['concl'], n, z3.Map(Z.OR_D, cur, st.ghost['src']))
        st.ghost['added'] = st.ghost.get('added', 0) + 1
        return [(st, NONE)]

    def on_exit(self, eng, o):
        st = o.st
        n = st.ghost['self']
        if o.sig not in (NEXT, RETURN):
            eng.oblige(st, "C12/update/finishes-normally", z3.BoolVal(False))
            return
        calls = st.ghost['seen_calls']
        src = st.ghost['src']
        pre = z3.Select(z3.Const('concl0', ArrNodeSet), n)
        post = z3.Select(st.fields['concl'], n)
        truth = z3.Not(z3.Select(z3.Const('is_false0', Z.ArrNB), n))
        checks = [c for c in calls if c[0] == 'check']
        adds = [c for c in calls if c[0] == 'add']
        eng.oblige(st, "C12/update/empty-set-changes-nothing", z3.Implies(src == EMPTY, z3.And(post == pre, z3.BoolVal(not calls))))
        shape_ok = len(checks) <= 1 and len(adds) <= len(checks)
        eng.oblige(st, "C12/update/at-most-one-lookup", z3.BoolVal(shape_ok))
        if checks and shape_ok:
            _, key, d, seen = checks[0]
            eng.oblige(st, "C12/update/looked-up-in-the-set-of-the-outputs-truth-value", key == truth)
            eng.oblige(st, "C12/update/looked-up-in-the-set-kept-for-exactly-these-conclusions",
                       z3.BoolVal(bool(st.ghost.get('per_conclusions'))))
            # (the output itself would also do: which variables key the de-duplication is an optimisation the property does
            # not fix; what matters is that the key is made of the output's own bindings)
            eng.oblige(st, "C12/update/key-is-the-output-or-a-projection-of-it",
                       z3.BoolVal(isinstance(d, D) and (d.ref == st.locals['output'].ref or
                                                        st.ghost.get('derived', {}).get(d.ref, (None,))[0] == st.locals['output'].ref)))
            eng.oblige(st, "C12/update/seen-before-changes-nothing", z3.Implies(seen, z3.And(post == pre, z3.BoolVal(not adds))))
            ok_add = bool(adds) and isinstance(adds[0][2], D) and isinstance(d, D) and adds[0][2].ref == d.ref
            eng.oblige(st, "C12/update/not-seen-adds-the-conclusions-and-records-the-same-key",
                       z3.Implies(z3.Not(seen), z3.And(post == z3.Map(Z.OR_D, pre, src), z3.BoolVal(ok_add),
                                                       adds[0][1] == key if adds else z3.BoolVal(False))))
            # ... and remembers WHERE it recorded it, for the case that a refinement further up replaces the conclusion
            # (contract RetractConclusion): the pair (that concluded-before set, that recorded key), set exactly when something
            # was recorded
            now = st.ghost.get('concluded_now')
            now_ok = (isinstance(now, Tup) and len(now.items) == 2 and isinstance(now.items[0], Obj) and now.items[0].kind == 'seenset'
                      and isinstance(now.items[1], D) and bool(adds) and isinstance(adds[0][2], D) and now.items[1].ref == adds[0][2].ref)
            eng.oblige(st, "C12/update/remembers-what-it-recorded-exactly-when-it-recorded",
                       z3.And(z3.Implies(z3.Not(seen), z3.BoolVal(bool(now_ok))), z3.Implies(seen, z3.BoolVal(now is None))))
        elif not checks:
            eng.oblige(st, "C12/update/a-non-empty-set-is-looked-up", src == EMPTY)

    def signature(self, ob, model):
        return {}


class SelectorReset(LibModel):
    """ConclusionSelector._reset_only_my_cache_ - what a conclusion selector concluded belongs to ONE evaluation (C04, C12:
    the same answer on every evaluation): the reset that An / The run when an evaluation ends performs the base reset of
    the node (contract ResetOnlyMine) and leaves the node with no concluded-before record at all (an empty mapping, or
    fresh sets only)."""
    qual = 'conclusion_selector:ConclusionSelector._reset_only_my_cache_'
    cls = 'ConclusionSelector'
    props = ('C04', 'C12', 'C05')
    modes = ('sound',)
    trusted = ("super()._reset_only_my_cache_() is SymbolicExpression._reset_only_my_cache_ on the same node (contract "
               "ResetOnlyMine)",)

    def modenv(self):
        env = base_modenv()
        env['super'] = C(Ref('func', 'super'))
        return env

    def setup(self, eng):
        st = State()
        st.fields = init_fields()
        self.n = z3.Const('self', Z.Node)
        st.locals['self'] = ZV(self.n, 'node')
        st.ghost['self'] = self.n
        st.ghost['base_reset'] = 0
        st.ghost['record'] = None
        return [st]

    def new_SeenSet(self, eng, st, args, kwargs, node):
        if args or kwargs:
            raise OutOfSubset("SeenSet(...) with arguments", node)
        return [(st, Obj('seenset', {'fresh': True}))]

    def call(self, eng, st, f, args, kwargs, node):
        if isinstance(f, C) and f.v == Ref('func', 'super'):
            return [(st, Obj('super_proxy', {}))]
        if isinstance(f, Meth) and isinstance(f.recv, Obj) and f.recv.kind == 'super_proxy' and f.name == '_reset_only_my_cache_':
            st = st.clone()
            st.ghost['base_reset'] += 1
            return [(st, NONE)]
        return super().call(eng, st, f, args, kwargs, node)

    def setattr(self, eng, st, recv, name, v):
        if isinstance(recv, ZV) and recv.ty == 'node' and recv.t.eq(self.n) and name == 'concluded_before':
            st = st.clone()
            st.ghost['record'] = v
            return [st]
        if isinstance(recv, ZV) and recv.ty == 'node' and recv.t.eq(self.n) and name == '_concluded_now_':
            st = st.clone()
            st.ghost['now'] = v
            return [st]
        return super().setattr(eng, st, recv, name, v)

    def getattr(self, eng, st, recv, name):
        if isinstance(recv, ZV) and recv.ty == 'node' and recv.t.eq(self.n) and name == '_conclusion_':
            return [(st, Obj('ownselection', {}))]
        if isinstance(recv, Obj) and recv.kind == 'ownselection':
            return [(st, Meth(recv, name))]
        return super().getattr(eng, st, recv, name)

    def obj_ownselection_clear(self, eng, st, recv, args, kwargs, node):
        st = st.clone()
        st.ghost['selection_cleared'] = True
        return [(st, NONE)]

    def node__clear_conclusion_(self, eng, st, recv, args, kwargs, node):
        q = self.src.resolve_method(self.cls, '_clear_conclusion_')
        if q is None or not recv.t.eq(self.n):
            raise OutOfSubset("_clear_conclusion_ of something else than the node itself", node)
        return self.inline_method(eng, st, q, recv, args, kwargs, node)

    def on_exit(self, eng, o):
        st = o.st
        if o.sig not in (NEXT, RETURN):
            eng.oblige(st, "C04/selector-reset/no-exception", z3.BoolVal(False))
            return
        # the class constant the else-if reads before it replays its right operand from the result cache (contract
        # ElseIfCacheWrite): every conclusion selector class says that it selects conclusions
        sel = [c for c in self.src.subclasses('ConclusionSelector')]
        eng.oblige(st, "C12/selector-classes-declare-that-they-select-conclusions",
                   z3.BoolVal(bool(sel) and all(self.src.class_constant(c, '_selects_conclusions_') == (True, True) for c in sel)))
        eng.oblige(st, "C04/selector-reset/the-base-reset-runs", z3.BoolVal(st.ghost['base_reset'] >= 1))
        # ... and what was selected for the output at which an evaluation was abandoned is gone: the own (dynamic) set is
        # emptied and no retraction record stays behind
        now = st.ghost.get('now', 'unset')
        eng.oblige(st, "C04/selector-reset/no-selected-conclusion-is-left-behind",
                   z3.BoolVal(bool(st.ghost.get('selection_cleared')) and isinstance(now, C) and now.v is None))
        r = st.ghost['record']
        if isinstance(r, D):
            eng.oblige(st, "C04/selector-reset/nothing-concluded-before-is-remembered", st.dicts[r.ref].is_empty())
        else:
            fresh = (isinstance(r, Obj) and r.kind == 'pydict' and
                     all(isinstance(v, Obj) and v.kind == 'seenset' and v.data.get('fresh') for _, v in r.data['items']) and
                     len({id(v) for _, v in r.data['items']}) == len(r.data['items']))
            eng.oblige(st, "C04/selector-reset/nothing-concluded-before-is-remembered", z3.BoolVal(bool(fresh)))

    def signature(self, ob, model):
        return {}


class RetractConclusion(LibModel):
    """ConclusionSelector._retract_conclusion_() - called by an ExceptIf whose refinement replaces what this node selected
    for the current output (contract ExceptIfEval): if the node recorded a binding as concluded for this output
    (_concluded_now_, set by update_conclusion), exactly that record is taken out of exactly that concluded-before set
    (SeenSet.discard) and forgotten; otherwise nothing is discarded; either way every operand that is itself a conclusion
    selector is asked to retract too (its selection was passed on through this node), and no other operand is."""
    qual = 'conclusion_selector:ConclusionSelector._retract_conclusion_'
    cls = 'ConclusionSelector'
    props = ('C12',)
    modes = ('sound',)
    trusted = ("SeenSet.discard(a) removes the constraint object a (and only it) from the set: bounded check "
               "'C12_retract' on the real code",)

    def modenv(self):
        return base_modenv()

    def setup(self, eng):
        sts = []
        self.n = z3.Const('self', Z.Node)
        for recorded in (False, True):
            st = State()
            st.fields = init_fields()
            st.locals['self'] = ZV(self.n, 'node')
            st.ghost['self'] = self.n
            st.path.append(f"recorded-for-this-output={recorded}")
            if recorded:
                d = eng.new_dict(st, Z.ZMap.fresh('recorded_key'))
                st.ghost['now'] = Tup([Obj('seenset', {'id': 'the-set'}), d])
                st.ghost['now_ref'] = d.ref
            else:
                st.ghost['now'] = NONE
                st.ghost['now_ref'] = None
            st.ghost['discards'] = []
            st.ghost['asked'] = []
            sts.append(st)
        return sts

    def getattr(self, eng, st, recv, name):
        if isinstance(recv, ZV) and recv.ty == 'node' and recv.t.eq(self.n) and name == '_concluded_now_':
            return [(st, st.ghost['now'])]
        if isinstance(recv, ZV) and recv.ty in ('node', 'optnode') and name == '_retract_conclusion_':
            return [(st, Meth(recv, name))]
        if isinstance(recv, Obj) and recv.kind == 'seenset':
            return [(st, Meth(recv, name))]
        return super().getattr(eng, st, recv, name)

    def setattr(self, eng, st, recv, name, v):
        if isinstance(recv, ZV) and recv.ty == 'node' and recv.t.eq(self.n) and name == '_concluded_now_':
            st = st.clone()
            st.ghost['now'] = v
            return [st]
        return super().setattr(eng, st, recv, name, v)

    def obj_seenset_discard(self, eng, st, recv, args, kwargs, node):
        (d,) = args
        st = st.clone()
        st.ghost['discards'] = st.ghost['discards'] + [(recv.data.get('id'), d.ref if isinstance(d, D) else None)]
        return [(st, NONE)]

    def call(self, eng, st, f, args, kwargs, node):
        if isinstance(f, Meth) and isinstance(f.recv, ZV) and f.recv.ty in ('node', 'optnode') and f.name == '_retract_conclusion_':
            st = st.clone()
            st.ghost['asked'] = st.ghost['asked'] + [f.recv.t]
            return [(st, NONE)]
        return super().call(eng, st, f, args, kwargs, node)

    def on_exit(self, eng, o):
        st = o.st
        if o.sig not in (NEXT, RETURN):
            eng.oblige(st, "C12/retract/finishes-normally", z3.BoolVal(False))
            return
        ref = st.ghost['now_ref']
        want = [('the-set', ref)] if ref is not None else []
        eng.oblige(st, "C12/retract/exactly-the-record-of-this-output-is-taken-back", z3.BoolVal(st.ghost['discards'] == want))
        now = st.ghost['now']
        eng.oblige(st, "C12/retract/nothing-stays-recorded-for-this-output", z3.BoolVal(isinstance(now, C) and now.v is None))
        l, r = Z.f_left(self.n), Z.f_right(self.n)
        asked = st.ghost['asked']
        for nm, c in (('left', l), ('right', r)):
            times = sum(z3.If(a == c, 1, 0) for a in asked) if asked else z3.IntVal(0)
            eng.oblige(st, f"C12/retract/the-{nm}-operand-is-asked-exactly-when-it-selects-conclusions",
                       times == z3.If(Z.selects_conclusions(c), 1, 0), hyp=[l != r])
        eng.oblige(st, "C12/retract/nothing-else-is-asked", z3.And(*[z3.Or(a == l, a == r) for a in asked]) if asked else z3.BoolVal(True))

    def signature(self, ob, model):
        return {}


CONTRACTS = [ExceptIfEval, ElseIfRuleEval, AlternativeEval, UpdateConclusion, SelectorReset, RetractConclusion]
