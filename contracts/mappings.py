"""Contracts of the `_apply_mapping_` overrides (Attribute, Index, Call, Flatten): each must yield exactly the values
MapRel relates to its input (soundness at every yield, completeness by the witness pass).  MapRel is what
DomainMapping._evaluate__ is proved against; here it gets its class-specific meaning (C01, C16, C19)."""
from __future__ import annotations

import ast

import z3

from eqlvc import z as Z
from eqlvc.interp import (SV, ZV, C, D, Tup, Lst, Obj, Meth, Closure, Ref, NONE, TRUE, FALSE, State, Outcome,
                          OutOfSubset, NEXT, CONTINUE, BREAK, RETURN, RAISE, GENEXIT)
from eqlvc.libmodel import LibModel, base_modenv, init_fields

EMPTY_ARGS = z3.Const('EMPTY_ARGS', Z.Val)
n_args = z3.Function('n_args', Z.Node, Z.I)
n_kwargs = z3.Function('n_kwargs', Z.Node, Z.I)


class MapContract(LibModel):
    props = ('C01', 'C16', 'C19', 'C07')
    modes = ('sound', 'witness')

    def modenv(self):
        return base_modenv()

    def rel(self, n, hin, out, st=None, as_goal=True):
        raise NotImplementedError

    def setup(self, eng):
        st = State()
        self.n = z3.Const('self', Z.Node)
        self.hin = z3.Const('in_hv', Z.HV)
        st.locals['self'] = ZV(self.n, 'node')
        st.locals['value'] = ZV(self.hin, 'hv')
        st.assume(n_args(self.n) >= 0, n_kwargs(self.n) >= 0,
                  z3.Implies(z3.And(n_args(self.n) == 0, n_kwargs(self.n) == 0), Z.call_args(self.n) == EMPTY_ARGS))
        if eng.mode == 'witness':
            self.target = z3.Const('target_out', Z.HV)
            st.assume(self.rel(self.n, self.hin, self.target, st, as_goal=False))
            st.ghost['covered'] = z3.BoolVal(False)
        return [st]

    def getattr(self, eng, st, recv, name):
        if isinstance(recv, ZV) and recv.ty == 'node' and recv.t.eq(self.n):
            if name == '_attr_name_':
                return [(st, ZV(Z.attr_name(recv.t), 'str'))]
            if name == '_key_':
                return [(st, ZV(Z.index_key(recv.t), 'val'))]
            if name == '_args_':
                return [(st, Obj('argpack', {'of': recv.t, 'kind': 'args'}))]
            if name == '_kwargs_':
                return [(st, Obj('argpack', {'of': recv.t, 'kind': 'kwargs'}))]
        return super().getattr(eng, st, recv, name)

    def f_getattr(self, eng, st, args, kwargs, node):
        o, nm = args[0], args[1]
        if isinstance(o, ZV) and o.ty == 'val' and isinstance(nm, ZV) and nm.ty == 'str':
            return [(st, ZV(Z.attr(nm.t, o.t), 'val'))]
        raise OutOfSubset("getattr", node)

    def f_len(self, eng, st, args, kwargs, node):
        (o,) = args
        if isinstance(o, Obj) and o.kind == 'argpack':
            f = n_args if o.data['kind'] == 'args' else n_kwargs
            return [(st, ZV(f(o.data['of']), 'int'))]
        return super().f_len(eng, st, args, kwargs, node)

    def subscript(self, eng, st, recv, k):
        if isinstance(recv, ZV) and recv.ty == 'val' and isinstance(k, ZV) and k.ty == 'val':
            return [(st, ZV(Z.item(recv.t, k.t), 'val'))]
        return None

    def call(self, eng, st, f, args, kwargs, node):
        if isinstance(f, ZV) and f.ty == 'val':
            # calling a user value: value.value(*self._args_, **self._kwargs_)  or  value.value()
            star = [a for a in args if isinstance(a, Obj) and a.kind == 'star']
            plain = [a for a in args if not (isinstance(a, Obj) and a.kind == 'star')]
            if plain or any(k != '**' for k in kwargs):
                raise OutOfSubset("call of a user value with explicit arguments", node)
            if not star and not kwargs:
                return [(st, ZV(Z.callv(f.t, EMPTY_ARGS), 'val'))]
            ok = (len(star) == 1 and star[0].data['of'].kind == 'argpack' and star[0].data['of'].data['kind'] == 'args'
                  and '**' in kwargs and kwargs['**'].kind == 'argpack' and kwargs['**'].data['kind'] == 'kwargs')
            if not ok:
                raise OutOfSubset("call of a user value with other than (*self._args_, **self._kwargs_)", node)
            return [(st, ZV(Z.callv(f.t, Z.call_args(self.n)), 'val'))]
        return super().call(eng, st, f, args, kwargs, node)

    def obj_truth(self, eng, st, v):
        if v.kind == 'argpack':
            f = n_args if v.data['kind'] == 'args' else n_kwargs
            return f(v.data['of']) > 0
        return None

    def accepts_star(self, f):
        return isinstance(f, ZV) and f.ty == 'val'

    def on_yield(self, eng, st, v, ordinal, node):
        if not (isinstance(v, ZV) and v.ty == 'hv'):
            raise OutOfSubset(f"yield of {v}", node)
        st = st.clone()
        if eng.mode == 'sound':
            eng.oblige(st, f"elem@yield#{ordinal}/MapRel", self.rel(self.n, self.hin, v.t, st, as_goal=True), line=node.lineno)
            eng.oblige(st, f"cover@yield#{ordinal}", z3.BoolVal(True), kind='cover', line=node.lineno)
        else:
            st.ghost['covered'] = z3.Or(st.ghost['covered'], v.t == self.target)
        return [st]

    def on_exit(self, eng, o):
        if eng.mode == 'witness':
            if o.sig in (NEXT, RETURN, 'covered'):
                eng.oblige(o.st, "complete/every-related-value-is-yielded",
                           z3.BoolVal(True) if o.sig == 'covered' else o.st.ghost['covered'])
        elif o.sig == RAISE:
            pass    # user code may raise (A10): the exception propagates to the caller of evaluate()

    def signature(self, ob, model):
        return {}


class AttributeMap(MapContract):
    qual = 'symbolic:Attribute._apply_mapping_'
    cls = 'Attribute'

    def rel(self, n, hin, out, st=None, as_goal=True):
        return out == Z.mkhv(Z.attr(Z.attr_name(n), Z.hv_value(hin)), Z.hv_id(hin))


class IndexMap(MapContract):
    qual = 'symbolic:Index._apply_mapping_'
    cls = 'Index'

    def rel(self, n, hin, out, st=None, as_goal=True):
        return out == Z.mkhv(Z.item(Z.hv_value(hin), Z.index_key(n)), Z.hv_id(hin))


class CallMap(MapContract):
    qual = 'symbolic:Call._apply_mapping_'
    cls = 'Call'

    def rel(self, n, hin, out, st=None, as_goal=True):
        return out == Z.mkhv(Z.callv(Z.hv_value(hin), Z.call_args(n)), Z.hv_id(hin))


class FlattenMap(MapContract):
    """UNNEST (C16): one HashedValue per element of the input value, in order; a non-iterable is a singleton."""
    qual = 'symbolic:Flatten._apply_mapping_'
    cls = 'Flatten'

    def rel(self, n, hin, out, st=None, as_goal=True):
        v = Z.hv_value(hin)
        if as_goal:
            j = z3.Int('j_ex')
            some = z3.Exists([j], z3.And(j >= 0, j < Z.seq_len(v), out == Z.mkhv(Z.seq_at(v, j), Z.objid(Z.seq_at(v, j)))))
        else:
            j = z3.Int('j_target')      # Skolem witness of the existential
            some = z3.And(j >= 0, j < Z.seq_len(v), out == Z.mkhv(Z.seq_at(v, j), Z.objid(Z.seq_at(v, j))))
        return z3.If(Z.is_iter(v), some, out == Z.mkhv(v, Z.objid(v)))

    def abstract_loop(self, eng, st, s, it, ordinal):
        if isinstance(it, ZV) and it.ty == 'val':
            # iteration over a user iterable: element j for an arbitrary 0 <= j < len (A6: iteration protocol)
            outs = []
            if eng.mode == 'sound':
                h = st.clone()
                for nm in eng.written_names(s.body):
                    h.locals.pop(nm, None)
                b = h.clone()
                j = z3.FreshConst(Z.I, 'j')
                b.assume(j >= 0, j < Z.seq_len(it.t))
                b.ghost['j'] = j
                for b2 in eng.assign(s.target, ZV(Z.seq_at(it.t, j), 'val'), b):
                    for o in eng.exec_block(s.body, b2):
                        if o.sig not in (NEXT, CONTINUE):
                            outs.append(o if o.sig != BREAK else Outcome(o.st))
                outs.append(Outcome(h))
                return outs
            j = z3.Int('j_target')
            for b, holds in eng.branch(st, z3.And(j >= 0, j < Z.seq_len(it.t)), f"WV{ordinal}"):
                if not holds:
                    outs.append(Outcome(b))
                    continue
                for b2 in eng.assign(s.target, ZV(Z.seq_at(it.t, j), 'val'), b):
                    for o in eng.exec_block(s.body, b2):
                        outs.append(Outcome(o.st) if o.sig in (NEXT, CONTINUE, BREAK) else o)
            return outs
        return super().abstract_loop(eng, st, s, it, ordinal)


class FlattenVariables(LibModel):
    """Flatten._all_variable_instances_ (C16, C05): one binding of the variables a flatten is taken from has several
    elements, so whatever keys results by the variables they depend on - the operators' result caches (cache keys =
    _unique_variables_ of the operands) and their duplicate suppression - has to see the ELEMENT too: the flatten node lists
    itself, besides every variable instance of its child."""
    qual = 'symbolic:Flatten._all_variable_instances_'
    cls = 'Flatten'
    props = ('C16', 'C05')
    modes = ('sound',)
    trusted = ("_unique_variables_ is the de-duplicated _all_variable_instances_ (symbolic.py, executed for the cache keys in "
               "BinaryOperator / LogicalOperator.__post_init__); @lru_cache is transparent",)

    def modenv(self):
        return base_modenv()

    def setup(self, eng):
        st = State()
        st.fields = init_fields()
        self.n = z3.Const('self', Z.Node)
        st.locals['self'] = ZV(self.n, 'node')
        st.ghost['self'] = self.n
        return [st]

    def getattr(self, eng, st, recv, name):
        if isinstance(recv, ZV) and recv.ty in ('node', 'optnode') and name == '_all_variable_instances_':
            return [(st, Obj('varlist', {'parts': [('all-of', recv.t)]}))]
        return super().getattr(eng, st, recv, name)

    def binop(self, eng, st, op, a, b):
        def parts(x):
            if isinstance(x, Obj) and x.kind == 'varlist':
                return x.data['parts']
            if isinstance(x, Lst) and all(isinstance(i, ZV) and i.ty == 'node' for i in x.items):
                return [('node', i.t) for i in x.items]
            return None
        if isinstance(op, ast.Add) and parts(a) is not None and parts(b) is not None:
            return Obj('varlist', {'parts': parts(a) + parts(b)})
        return None

    def on_exit(self, eng, o):
        st = o.st
        v = o.val
        if o.sig != RETURN or not (isinstance(v, Obj) and v.kind == 'varlist'):
            eng.oblige(st, "C16/flatten-variables/returns-a-list-of-variable-instances", z3.BoolVal(False))
            return
        ps = v.data['parts']
        c = Z.f_child(self.n)
        eng.oblige(st, "C16/flatten-variables/every-variable-of-the-child", z3.Or(*[z3.BoolVal(k == 'all-of') & (t == c) for k, t in ps])
                   if ps else z3.BoolVal(False))
        eng.oblige(st, "C16/flatten-variables/and-the-element-itself", z3.Or(*[z3.BoolVal(k == 'node') & (t == self.n) for k, t in ps])
                   if ps else z3.BoolVal(False))

    def signature(self, ob, model):
        return {}


CONTRACTS = [AttributeMap, IndexMap, CallMap, FlattenMap, FlattenVariables]
