"""C18 (and the operator-rejection part of C08): the constructors that rewrites go through.

Each returns a node whose Den is the intended connective of its arguments' Den:
  * the six comparison dunders of CanBehaveLikeAVariable build Comparator(self, other, <the operator Python evaluates>),
    so `3 < x` (Python calls x.__gt__(3)) means gt(x, 3); outside symbolic mode they raise AttributeError;
  * entity.in_(item, container) / contains(container, item) build Comparator(container, item, operator.contains);
  * chained_logic / and_ / or_ left-fold their arguments; entity._extract_variables_and_expression conjoins all
    conditions (and the conditions of quantifiers passed as selected variables)."""
from __future__ import annotations

import ast

import z3

from eqlvc import z as Z
from eqlvc.interp import (SV, ZV, C, D, Tup, Lst, Obj, Meth, Closure, Ref, NONE, TRUE, FALSE, State, Outcome,
                          OutOfSubset, NEXT, CONTINUE, BREAK, RETURN, RAISE, GENEXIT)
from eqlvc.libmodel import LibModel, base_modenv
from .toplevel import ModeMixin, Mode, NoneMode, QueryMode, RuleMode, MODE_DISTINCT

DUNDERS = {'__eq__': 'eq', '__ne__': 'ne', '__lt__': 'lt', '__le__': 'le', '__gt__': 'gt', '__ge__': 'ge'}


class DunderContract(ModeMixin, LibModel):
    cls = 'CanBehaveLikeAVariable'
    props = ('C18', 'C08')
    modes = ('sound',)
    dunder = '__eq__'

    @property
    def qual(self):
        return f'symbolic:CanBehaveLikeAVariable.{self.dunder}'

    def setup(self, eng):
        st = State()
        self.n = z3.Const('self', Z.Node)
        st.locals['self'] = ZV(self.n, 'node')
        st.ghost['self'] = self.n
        st.locals['other'] = Obj('operand', {'tag': 'other'})
        st.ghost['mode'] = z3.Const('mode_now', Mode)
        st.assume(MODE_DISTINCT)
        return [st]

    def call(self, eng, st, f, args, kwargs, node):
        if isinstance(f, C) and f.v == Ref('class', 'Comparator'):
            return [(st, Obj('comparator', {'left': args[0], 'right': args[1], 'op': args[2]}))]
        return super().call(eng, st, f, args, kwargs, node)

    def getattr(self, eng, st, recv, name):
        if isinstance(recv, C) and isinstance(recv.v, Ref) and recv.v.kind == 'class' and name == '__name__':
            return [(st, C('<cls>'))]
        if isinstance(recv, ZV) and recv.ty == 'node' and name == '__class__':
            return [(st, C(Ref('class', 'X')))]
        return super().getattr(eng, st, recv, name)

    def compare(self, eng, st, op, a, b):
        # any test relating self and the other operand (identity, equality of the raw objects) may go either way
        objs = [x for x in (a, b) if (isinstance(x, Obj) and x.kind == 'operand') or (isinstance(x, ZV) and x.ty == 'node')]
        if len(objs) == 2 and isinstance(op, (ast.Is, ast.IsNot, ast.Eq, ast.NotEq)):
            return ZV(z3.FreshConst(Z.B, 'operands_related'), 'bool')
        return super().compare(eng, st, op, a, b) if hasattr(super(), 'compare') else None

    def on_exit(self, eng, o):
        st = o.st
        mode = st.ghost['mode']
        if o.sig == RAISE:
            nm = o.val.v.name if isinstance(o.val, C) and isinstance(o.val.v, Ref) else '?'
            eng.oblige(st, "C08/operator-rejected-only-outside-symbolic-mode", z3.And(mode == NoneMode, z3.BoolVal(nm == 'AttributeError')))
            return
        eng.oblige(st, "C08/operator-builds-an-expression-only-inside-symbolic-mode", mode != NoneMode)
        v = o.val
        ok = (isinstance(v, Obj) and v.kind == 'comparator' and isinstance(v.data['left'], ZV) and v.data['left'].t.eq(self.n)
              and isinstance(v.data['right'], Obj) and v.data['right'].data.get('tag') == 'other'
              and isinstance(v.data['op'], C) and v.data['op'].v == Ref('op', DUNDERS[self.dunder]))
        eng.oblige(st, f"C18/{self.dunder}/builds-Comparator(self, other, operator.{DUNDERS[self.dunder]})", z3.BoolVal(bool(ok)))

    def signature(self, ob, model):
        return {}


def _mk_dunder(name):
    return type('Dunder' + name.strip('_').capitalize(), (DunderContract,), {'dunder': name})


DUNDER_CONTRACTS = [_mk_dunder(n) for n in DUNDERS]


class GuardedBuilder(ModeMixin, LibModel):
    """CanBehaveLikeAVariable.__call__ / __getitem__ / __contains__ (C08): like the comparison operators, calling, indexing
    and testing membership on a variable is rejected (AttributeError) outside every symbolic block and builds an expression
    node over `self` inside one"""
    cls = 'CanBehaveLikeAVariable'
    props = ('C08',)
    modes = ('sound',)
    dunder = '__call__'
    BUILDS = {'__call__': 'Call', '__getitem__': 'Index', '__contains__': 'Comparator'}

    @property
    def qual(self):
        return f'symbolic:CanBehaveLikeAVariable.{self.dunder}'

    def modenv(self):
        env = super().modenv()
        for c in ('Call', 'Index', 'Comparator'):
            env[c] = C(Ref('class', c))
        return env

    def setup(self, eng):
        st = State()
        self.n = z3.Const('self', Z.Node)
        st.locals['self'] = ZV(self.n, 'node')
        st.ghost['self'] = self.n
        for nm in ('other', 'key', 'item'):
            st.locals[nm] = Obj('operand', {'tag': nm})
        st.locals['args'] = Obj('argpack', {})
        st.locals['kwargs'] = Obj('kwpack', {})
        st.ghost['mode'] = z3.Const('mode_now', Mode)
        st.assume(MODE_DISTINCT)
        return [st]

    def call(self, eng, st, f, args, kwargs, node):
        if isinstance(f, C) and isinstance(f.v, Ref) and f.v.kind == 'class' and f.v.name in ('Call', 'Index', 'Comparator'):
            return [(st, Obj('built_node', {'cls': f.v.name, 'args': list(args)}))]
        return super().call(eng, st, f, args, kwargs, node)

    def getattr(self, eng, st, recv, name):
        if isinstance(recv, C) and isinstance(recv.v, Ref) and recv.v.kind == 'class' and name == '__name__':
            return [(st, C('<cls>'))]
        if isinstance(recv, ZV) and recv.ty == 'node' and name == '__class__':
            return [(st, C(Ref('class', 'X')))]
        return super().getattr(eng, st, recv, name)

    def on_exit(self, eng, o):
        st = o.st
        mode = st.ghost['mode']
        if o.sig == RAISE:
            nm = o.val.v.name if isinstance(o.val, C) and isinstance(o.val.v, Ref) else '?'
            eng.oblige(st, "C08/rejected-only-outside-symbolic-mode", z3.And(mode == NoneMode, z3.BoolVal(nm == 'AttributeError')))
            return
        eng.oblige(st, "C08/builds-an-expression-only-inside-symbolic-mode", mode != NoneMode)
        v = o.val
        ok = (isinstance(v, Obj) and v.kind == 'built_node' and v.data['cls'] == self.BUILDS[self.dunder]
              and any(isinstance(a, ZV) and a.ty == 'node' and a.t.eq(self.n) for a in v.data['args']))
        eng.oblige(st, f"C08/{self.dunder}/builds-a-{self.BUILDS[self.dunder]}-node-over-self", z3.BoolVal(bool(ok)))

    def signature(self, ob, model):
        return {}


GUARDED = [type('Guarded' + n.strip('_').capitalize(), (GuardedBuilder,), {'dunder': n}) for n in ('__call__', '__getitem__', '__contains__')]


class PredicateWrapper(ModeMixin, LibModel):
    """predicate.predicate.<locals>.wrapper - what a @predicate function is after decoration (C08, C09): outside every block
    the decorated function is called, once, with the arguments as given and its result is returned (ordinary Python); inside a
    block - a query block AND a rule block - nothing is executed: a Variable for the deferred call is built"""
    qual = 'predicate:predicate.<locals>.wrapper'
    cls = None
    props = ('C08', 'C09')
    modes = ('sound',)
    trusted = ("how the positional arguments are matched to parameter names (inspect.signature) is summarised",)

    def modenv(self):
        env = super().modenv()
        env['function'] = C(Ref('func', 'user_function'))
        env['inspect'] = C(Ref('module', 'inspect'))
        env['PredicateType'] = C(Ref('module', 'PredicateType'))
        env['Variable'] = C(Ref('class', 'Variable'))
        return env

    def setup(self, eng):
        st = State()
        st.locals['args'] = Obj('argpack', {})
        st.locals['kwargs'] = Obj('kwpack', {})
        st.ghost['mode'] = z3.Const('mode_now', Mode)
        st.assume(MODE_DISTINCT)
        st.ghost['calls'] = []
        return [st]

    def accepts_star(self, f):
        return True

    def listcomp(self, eng, st, e):
        return [(st, Obj('param_names', {}))]

    def getattr(self, eng, st, recv, name):
        if isinstance(recv, C) and recv.v == Ref('func', 'user_function') and name == '__name__':
            return [(st, C('<function name>'))]
        if isinstance(recv, Obj) and recv.kind == 'kwpack':
            return [(st, Meth(recv, name))]
        return super().getattr(eng, st, recv, name)

    def call(self, eng, st, f, args, kwargs, node):
        if isinstance(f, C) and isinstance(f.v, Ref) and f.v.name in ('zip', 'dict'):
            return [(st, Obj('pairs', {}))]
        if isinstance(f, Meth) and isinstance(f.recv, Obj) and f.recv.kind == 'kwpack' and f.name == 'update':
            return [(st, NONE)]
        if isinstance(f, C) and isinstance(f.v, Ref) and f.v.name in ('user_function', 'Variable'):
            st = st.clone()
            tag = lambda a: (a.kind if a.kind != 'star' else '*' + tag(a.data['of'])) if isinstance(a, Obj) else repr(a)  # noqa
            st.ghost['calls'] = st.ghost['calls'] + [(f.v.name, [tag(a) for a in args], sorted(kwargs))]
            return [(st, Obj('result', {'of': f.v.name}))]
        return super().call(eng, st, f, args, kwargs, node)

    def on_exit(self, eng, o):
        st = o.st
        mode = st.ghost['mode']
        if o.sig != RETURN:
            eng.oblige(st, "C08/predicate/returns", z3.BoolVal(False))
            return
        calls = st.ghost['calls']
        names = [c[0] for c in calls]
        v = o.val
        concrete = (names == ['user_function'] and isinstance(v, Obj) and v.kind == 'result' and v.data['of'] == 'user_function'
                    and calls[0][1] == ['*argpack'] and calls[0][2] == ['**'])
        symbolic = names == ['Variable'] and isinstance(v, Obj) and v.kind == 'result' and v.data['of'] == 'Variable'
        eng.oblige(st, "C08/predicate/outside-every-block-the-function-is-called-once-with-the-given-arguments",
                   z3.Implies(mode == NoneMode, z3.BoolVal(bool(concrete))))
        eng.oblige(st, "C08/predicate/inside-a-query-or-rule-block-nothing-is-executed-and-a-deferred-call-is-built",
                   z3.Implies(mode != NoneMode, z3.BoolVal(bool(symbolic))))

    def signature(self, ob, model):
        m = z3.Const('mode_now', Mode)
        return {'mode': 'None' if str(model.eval(m == NoneMode, model_completion=True)) == 'True' else
                ('Rule' if str(model.eval(m == RuleMode, model_completion=True)) == 'True' else 'Query')}


class InContract(LibModel):
    """entity.in_(item, container): item in container  ==  operator.contains(container, item)"""
    qual = 'entity:in_'
    cls = None
    props = ('C18', 'C17')
    modes = ('sound',)

    def modenv(self):
        env = base_modenv()
        env['in_'] = C(Ref('func', 'in_'))
        return env

    def setup(self, eng):
        st = State()
        st.locals['item'] = Obj('operand', {'tag': 'item'})
        st.locals['container'] = Obj('operand', {'tag': 'container'})
        return [st]

    def call(self, eng, st, f, args, kwargs, node):
        if isinstance(f, C) and f.v == Ref('class', 'Comparator'):
            return [(st, Obj('comparator', {'left': args[0], 'right': args[1], 'op': args[2]}))]
        if isinstance(f, C) and f.v == Ref('func', 'in_'):
            # contains(container, item) delegates to in_(item, container): its contract
            return [(st, Obj('comparator', {'left': args[1], 'right': args[0], 'op': C(Ref('op', 'contains'))}))]
        return super().call(eng, st, f, args, kwargs, node)

    def on_exit(self, eng, o):
        v = o.val
        ok = (o.sig == RETURN and isinstance(v, Obj) and v.kind == 'comparator' and v.data['left'].data.get('tag') == 'container'
              and v.data['right'].data.get('tag') == 'item' and isinstance(v.data['op'], C) and v.data['op'].v == Ref('op', 'contains'))
        eng.oblige(o.st, "C18/membership/builds-Comparator(container, item, operator.contains)", z3.BoolVal(bool(ok)))

    def signature(self, ob, model):
        return {}


class ContainsContract(InContract):
    qual = 'entity:contains'


class ChainedLogic(LibModel):
    """symbolic.chained_logic(op, c1..ck): the left fold op(..op(op(c1, c2), c3).., ck); k = 1..4 (concrete spine)"""
    qual = 'symbolic:chained_logic'
    cls = None
    props = ('C18', 'C01', 'C02')
    modes = ('sound',)

    def modenv(self):
        return base_modenv()

    def setup(self, eng):
        sts = []
        for k in (0, 1, 2, 3, 4):
            st = State()
            st.path.append(f"k={k}")
            st.locals['operator'] = C(Ref('func', 'OP'))
            st.locals['conditions'] = Tup([Obj('cond', {'tag': f"c{i + 1}"}) for i in range(k)])
            st.ghost['k'] = k
            sts.append(st)
        return sts

    def call(self, eng, st, f, args, kwargs, node):
        if isinstance(f, C) and f.v == Ref('func', 'OP'):
            return [(st, Obj('cond', {'tag': ('OP', self.tag(args[0]), self.tag(args[1]))}))]
        return super().call(eng, st, f, args, kwargs, node)

    @staticmethod
    def tag(v):
        return v.data['tag'] if isinstance(v, Obj) else repr(v)

    def on_exit(self, eng, o):
        k = o.st.ghost['k']
        if o.sig != RETURN:
            eng.oblige(o.st, "C18/chain/returns", z3.BoolVal(False))
            return
        got = o.val.data['tag'] if isinstance(o.val, Obj) else (None if isinstance(o.val, C) and o.val.v is None else repr(o.val))

        def leaves(t):
            if isinstance(t, tuple) and t and t[0] == 'OP':
                return leaves(t[1]) + leaves(t[2])
            return [t] if t is not None else []
        # the connective is associative and commutative in its meaning (Den): what matters is that the result combines
        # every condition exactly once with the given operator, in whatever nesting
        eng.oblige(o.st, "C18/chain/combines-every-condition-exactly-once", z3.BoolVal(sorted(leaves(got)) == [f"c{i + 1}" for i in range(k)]), k=k)

    def signature(self, ob, model):
        return {'k': ob.meta.get('k')}


class ExtractVarsAndExpr(LibModel):
    """entity._extract_variables_and_expression: quantifiers passed as selected variables are replaced by their selected
    variable and contribute themselves as conditions; all conditions are conjoined, none is dropped (C15, C18)"""
    qual = 'entity:_extract_variables_and_expression'
    cls = None
    props = ('C18', 'C15')
    modes = ('sound',)

    def modenv(self):
        env = base_modenv()
        env['and_'] = C(Ref('func', 'and_'))
        return env

    def setup(self, eng):
        sts = []
        for nsel, quant in ((1, ()), (1, (0,)), (2, (1,)), (2, ())):
            for nprop in (0, 1, 2):
                st = State()
                sel = []
                for i in range(nsel):
                    sel.append(Obj('quantifier', {'tag': f"q{i}", 'var': Obj('var', {'tag': f"v{i}"})}) if i in quant
                               else Obj('var', {'tag': f"v{i}"}))
                st.locals['selected_variables'] = Lst(sel, eng.new_ref())
                st.locals['properties'] = Tup([Obj('cond', {'tag': f"p{j}"}) for j in range(nprop)])
                st.ghost['case'] = (nsel, quant, nprop)
                st.path.append(f"selected={nsel},quantifiers={list(quant)},properties={nprop}")
                sts.append(st)
        return sts

    def f_isinstance(self, eng, st, args, kwargs, node):
        o, cls = args
        if isinstance(o, Obj) and o.kind in ('quantifier', 'var') and isinstance(cls, C) and cls.v == Ref('class', 'ResultQuantifier'):
            return [(st, C(o.kind == 'quantifier'))]
        return super().f_isinstance(eng, st, args, kwargs, node)

    def f_enumerate(self, eng, st, args, kwargs, node):
        (o,) = args
        return [(st, Lst([Tup([C(i), x]) for i, x in enumerate(o.items)]))]

    def getattr(self, eng, st, recv, name):
        if isinstance(recv, Obj) and recv.kind == 'quantifier' and name == '_var_':
            return [(st, recv.data['var'])]
        if isinstance(recv, Lst):
            return [(st, Meth(recv, name))]
        return super().getattr(eng, st, recv, name)

    def list_append(self, eng, st, recv, args, kwargs, node):
        recv.items.append(args[0])
        return [(st, NONE)]

    def setitem(self, eng, st, recv, k, v):
        if isinstance(recv, Lst) and isinstance(k, C):
            recv.items[k.v] = v
            return [st]
        return None

    def s_augassign_list(self, a, b):
        return Lst(a.items + b.items)

    def augassign(self, eng, st, s):
        if isinstance(s.op, ast.Add) and isinstance(s.target, ast.Name):
            outs = []
            for s2, v in eng.eval(s.value, st):
                cur = s2.locals[s.target.id]
                if isinstance(cur, Lst) and isinstance(v, (Lst, Tup)):
                    s3 = s2.clone()
                    s3.locals[s.target.id] = Lst(cur.items + list(v.items), eng.new_ref())
                    outs.append(Outcome(s3))
                else:
                    return None
            return outs
        return None

    def call(self, eng, st, f, args, kwargs, node):
        if isinstance(f, C) and f.v == Ref('func', 'and_'):
            flat = [a.data['of'].items if isinstance(a, Obj) and a.kind == 'star' else [a] for a in args]
            items = [x for grp in flat for x in grp]
            return [(st, Obj('cond', {'tag': ('AND',) + tuple(self.tag(x) for x in items)}))]
        return super().call(eng, st, f, args, kwargs, node)

    def accepts_star(self, f):
        return isinstance(f, C) and f.v == Ref('func', 'and_')

    @staticmethod
    def tag(v):
        return v.data['tag'] if isinstance(v, Obj) else repr(v)

    def on_exit(self, eng, o):
        st = o.st
        nsel, quant, nprop = st.ghost['case']
        if o.sig != RETURN or not isinstance(o.val, Tup):
            eng.oblige(st, "C18/extract/returns-variables-and-expression", z3.BoolVal(False))
            return
        sel, expr = o.val.items
        want_sel = [f"v{i}" for i in range(nsel)]
        got_sel = [self.tag(x) for x in sel.items] if isinstance(sel, Lst) else None
        eng.oblige(st, "C15/extract/quantifiers-are-replaced-by-their-selected-variable", z3.BoolVal(got_sel == want_sel))
        conds = [f"q{i}" for i in quant] + [f"p{j}" for j in range(nprop)]
        if not conds:
            want = None
        elif len(conds) == 1:
            want = conds[0]
        else:
            want = ('AND',) + tuple(conds)
        got = None if isinstance(expr, C) and expr.v is None else self.tag(expr)
        eng.oblige(st, "C18/extract/every-condition-is-conjoined-none-dropped", z3.BoolVal(got == want), got=repr(got), want=repr(want))

    def signature(self, ob, model):
        return {'got': ob.meta.get('got'), 'want': ob.meta.get('want')}


CONTRACTS = DUNDER_CONTRACTS + GUARDED + [PredicateWrapper, InContract, ContainsContract, ChainedLogic, ExtractVarsAndExpr]
