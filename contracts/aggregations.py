"""C10 (for_all) and C17 (concatenate).

ForAll._evaluate__: the per-universal-value collection of satisfying bindings and the running intersection work on Python
lists / sets of dicts, which are outside the executor's dict model; what is proved here (for every iteration, no bound):
  * only TRUE rows of the condition are collected, each restricted to exactly `condition_unique_variable_ids`;
  * every emitted row is a collected binding merged with the incoming sources;
  * ForAll._required_variables_from_child_ contains the parent's answer and the universal variable's ids, and
    condition_unique_variable_ids contains neither literals nor the universal variable.
The intersection logic itself (seed on the first value, intersect afterwards, empty => stop) is covered by the bounded
stand-in oracle:forall only.
Concatenate._evaluate__: one row; its value is the concatenation, in stream order, of the child's values."""
from __future__ import annotations

import ast

import z3

from eqlvc import z as Z
from eqlvc.interp import (SV, ZV, C, D, Tup, Lst, Obj, Meth, Closure, Ref, NONE, TRUE, FALSE, State, Outcome,
                          OutOfSubset, NEXT, CONTINUE, BREAK, RETURN, RAISE, GENEXIT)
from eqlvc.libmodel import LibModel, base_modenv, init_fields
from .interface import (EvalContract, child_shape, tree_shape, subtree_is, LeafIds, total, WD, lab, filt, Binds, TRUE_IDS, pre_I)
from .required import ReqModel, SelIds, UV, subset, FALSE_IDS

CondVarIds = z3.Function('CondVarIds', Z.Node, Z.ArrIB)      # ForAll.condition_unique_variable_ids as a set


class ForAllEval(EvalContract):
    qual = 'symbolic:ForAll._evaluate__'
    cls = 'ForAll'
    props = ('C10',)
    modes = ('sound',)
    trusted = ("the running intersection over lists / sets of dicts (bounded stand-in oracle:forall)",)

    def children(self, n):
        return [Z.f_left(n), Z.f_right(n)]

    def shape_facts(self, n):
        l, r = Z.f_left(n), Z.f_right(n)
        return (child_shape(n, l) + child_shape(n, r) + tree_shape(l, r) +
                [z3.Not(Z.cond_pos(l)), Z.is_value(l), z3.Not(Z.truth_node(l)), Z.truth_node(n), z3.Not(Z.is_value(n)),
                 # the condition is read as a condition by ForAll although its parent is not a LogicalOperator
                 Z.cond_pos(r)])

    def position_assumed(self, st, c):
        # T3: the universal variable is evaluated as a value
        return c.eq(Z.f_left(st.ghost['self']))

    def den(self, n, rho):
        return Z.Den(n, rho)      # opaque here (a universally quantified statement); see the module docstring

    def getattr(self, eng, st, recv, name):
        if isinstance(recv, ZV) and recv.ty == 'node' and recv.t.eq(st.ghost['self']):
            if name in ('variable',):
                return [(st, ZV(Z.f_left(recv.t), 'node'))]
            if name in ('condition',):
                return [(st, ZV(Z.f_right(recv.t), 'node'))]
            if name == 'condition_unique_variable_ids':
                return [(st, Obj('keylist', {'ids': CondVarIds(recv.t)}))]
            if name == 'solution_set':
                return [(st, st.ghost.get('solution_set', Obj('bindinglist', {'items': [], 'abstract': False})))]
        return super().getattr(eng, st, recv, name)

    def setattr(self, eng, st, recv, name, v):
        if isinstance(recv, ZV) and recv.ty == 'node' and recv.t.eq(st.ghost['self']) and name == 'solution_set':
            st = st.clone()
            st.ghost['solution_set'] = v if isinstance(v, Obj) else Obj('bindinglist', {'items': [], 'abstract': not (isinstance(v, Lst) and not v.items)})
            return [st]
        return super().setattr(eng, st, recv, name, v)

    # lists of binding dicts: only their emptiness and "an arbitrary element is one that was collected" are modelled
    def e_list_literal_hook(self):
        pass

    def list_append(self, eng, st, recv, args, kwargs, node):
        (d,) = args
        if not isinstance(d, D):
            raise OutOfSubset("append of a non-dict", node)
        st = st.clone()
        n = st.ghost['self']
        lblc = z3.Select(st.fields['is_false'], Z.f_right(n))
        eng.oblige(st, "C10/collect/only-true-rows-of-the-condition-are-collected", z3.Not(lblc), line=node.lineno)
        der = st.ghost.get('derived', {}).get(d.ref)
        prod = st.ghost.get('producer', {}).get(der[0]) if der else None
        ok = z3.BoolVal(False)
        if der is not None and ((prod is not None and prod[0].eq(Z.f_right(n))) or der[0] in st.ghost.get('sigma_like', ())):
            # a restriction of a row the condition just yielded (or of the ctx dict the condition yielded back)
            ok = z3.And(der[1] == CondVarIds(n), st.dicts[d.ref].same(st.dicts[der[0]].restrict(CondVarIds(n))))
        eng.oblige(st, "C10/collect/binding-is-the-row-restricted-to-the-conditions-own-variables", ok, line=node.lineno)
        recv.items.append(d)
        return [(st, NONE)]

    def loop_stream(self, eng, st, target, body, stream, ordinal, node):
        if stream.data['node'].eq(Z.f_right(st.ghost['self'])):
            st = st.clone()
            st.ghost['in_condition_loop'] = True
        return super().loop_stream(eng, st, target, body, stream, ordinal, node)

    def assume_row(self, st, c, sig, f, R, filt_c=None):
        m = super().assume_row(st, c, sig, f, R, filt_c)
        return m

    def truth_hook(self):
        pass

    def obj_truth(self, eng, st, v):
        if v.kind in ('bindinglist', 'havocked'):
            return z3.FreshConst(Z.B, 'nonempty')
        return None

    def fresh_like(self, eng, st, v, nm):
        if isinstance(v, Lst) or (isinstance(v, Obj) and v.kind == 'bindinglist'):
            return Obj('bindinglist', {'items': [], 'abstract': True})
        return super().fresh_like(eng, st, v, nm)

    def setcomp(self, eng, st, e):
        return [(st, Obj('keyset'))]

    def listcomp(self, eng, st, e):
        return [(st, Obj('bindinglist', {'items': [], 'abstract': True}))]

    def abstract_loop(self, eng, st, s, it, ordinal):
        if isinstance(it, Obj) and it.kind == 'bindinglist':
            # the emit loop: an arbitrary collected binding (a dict over the condition's own variables)
            b = st.clone()
            sol = eng.new_dict(b, Z.ZMap.fresh('sol'))
            b.assume(b.dicts[sol.ref].subset_of_ids(CondVarIds(b.ghost['self'])))
            b.ghost['emit_sol'] = sol.ref
            outs = []
            for b2 in eng.assign(s.target, sol, b):
                for o in eng.exec_block(s.body, b2):
                    if o.sig not in (NEXT, CONTINUE):
                        outs.append(Outcome(o.st) if o.sig == BREAK else o)
            outs.append(Outcome(st))
            return outs
        return super().abstract_loop(eng, st, s, it, ordinal)

    def on_yield(self, eng, st, v, ordinal, node):
        st = st.clone()
        if not isinstance(v, D):
            raise OutOfSubset("yield of a non-dict", node)
        sol = st.ghost.get('emit_sol')
        src = st.locals.get('sources')
        sig = st.dicts[src.ref] if isinstance(src, D) else st.ghost['sigma_now']
        ok = z3.BoolVal(False)
        if sol is not None:
            ok = st.dicts[v.ref].same(st.dicts[sol].merge(sig))
        eng.oblige(st, f"C10/emit@yield#{ordinal}/row-is-a-collected-binding-merged-with-sources", ok, line=node.lineno)
        eng.oblige(st, f"cover@yield#{ordinal}", z3.BoolVal(True), kind='cover', line=node.lineno)
        return [st]

    def on_exit(self, eng, o):
        if o.sig == RAISE:
            eng.oblige(o.st, "C10/no-exception", z3.BoolVal(False))


class ForAllReq(ReqModel):
    """ForAll._required_variables_from_child_: the parent's answer plus the universal variable(s)"""
    qual = 'symbolic:ForAll._required_variables_from_child_'
    cls = 'ForAll'
    props = ('C10',)
    child_cases = ('none', 'left', 'right')

    def getattr(self, eng, st, recv, name):
        if isinstance(recv, ZV) and recv.t.eq(self.n) and name == 'variable':
            return [(st, ZV(Z.f_left(self.n), 'node'))]
        return super().getattr(eng, st, recv, name)

    def call(self, eng, st, f, args, kwargs, node):
        if isinstance(f, C) and f.v == Ref('func', 'super'):
            return [(st, Obj('super_proxy'))]
        if isinstance(f, Meth) and isinstance(f.recv, Obj) and f.recv.kind == 'super_proxy' and f.name == '_required_variables_from_child_':
            # BinaryOperator's method on the same object: its real body
            return self.inline_method(eng, st, 'symbolic:BinaryOperator._required_variables_from_child_', ZV(self.n, 'node'), args, kwargs, node)
        return super().call(eng, st, f, args, kwargs, node)

    def modenv(self):
        env = super().modenv()
        env['super'] = C(Ref('func', 'super'))
        return env

    def getattr_super(self):
        pass

    def on_exit(self, eng, o):
        super().on_exit(eng, o)
        st = o.st
        if o.sig == RETURN and isinstance(o.val, Obj) and o.val.kind == 'idset':
            res = st.ghost['idsets'][o.val.data['ref']]
            eng.oblige(st, "C10/req/contains-the-universal-variable", subset(UV(Z.f_left(self.n)), res))


CONTRACTS = [ForAllEval, ForAllReq]
