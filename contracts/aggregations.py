"""C10 (for_all) and C17 (concatenate).

ForAll._evaluate__: the per-universal-value collection of satisfying bindings and the running intersection work on Python
lists / sets of dicts, which are outside the executor's dict model; what is proved here (for every iteration, no bound):
  * only TRUE rows of the condition are collected, each restricted to exactly `condition_unique_variable_ids`;
  * every emitted row is a collected binding merged with the incoming sources;
  * ForAll._required_variables_from_child_ contains the parent's answer and the universal variable's ids, and
    condition_unique_variable_ids contains neither literals nor the universal variable.
The intersection logic itself (seed on the first value, intersect afterwards, empty => stop) is covered by the bounded
stand-in oracle:forall only.
Concatenate._evaluate__: one row; its value is the concatenation, in stream order, of the child's values."""
from __future__ import annotations

import ast

import z3

from eqlvc import z as Z
from eqlvc.interp import (SV, ZV, C, D, Tup, Lst, Obj, Meth, Closure, Ref, NONE, TRUE, FALSE, State, Outcome,
                          OutOfSubset, NEXT, CONTINUE, BREAK, RETURN, RAISE, GENEXIT)
from eqlvc.libmodel import LibModel, base_modenv, init_fields
from .interface import (EvalContract, child_shape, tree_shape, subtree_is, LeafIds, total, WD, lab, filt, Binds, TRUE_IDS, pre_I)
from .required import ReqModel, SelIds, UV, subset, FALSE_IDS

CondVarIds = z3.Function('CondVarIds', Z.Node, Z.ArrIB)      # ForAll.condition_unique_variable_ids as a set


class ForAllEval(EvalContract):
    qual = 'symbolic:ForAll._evaluate__'
    cls = 'ForAll'
    props = ('C10',)
    modes = ('sound',)
    trusted = ("the running intersection over lists / sets of dicts (bounded stand-in oracle:forall)",
               "condition_unique_variable_ids lists the ids of condition_free_variables (one-line property)")

    def children(self, n):
        return [Z.f_left(n), Z.f_right(n)]

    def shape_facts(self, n):
        l, r = Z.f_left(n), Z.f_right(n)
        return (child_shape(n, l) + child_shape(n, r) + tree_shape(l, r) +
                [z3.Not(Z.cond_pos(l)), Z.is_value(l), z3.Not(Z.truth_node(l)), Z.truth_node(n), z3.Not(Z.is_value(n)),
                 # the condition is read as a condition by ForAll although its parent is not a LogicalOperator
                 Z.cond_pos(r)])

    def position_assumed(self, st, c):
        # T3: the universal variable is evaluated as a value
        return c.eq(Z.f_left(st.ghost['self']))

    def den(self, n, rho):
        return Z.Den(n, rho)      # opaque here (a universally quantified statement); see the module docstring

    def getattr(self, eng, st, recv, name):
        if isinstance(recv, ZV) and recv.ty == 'node' and recv.t.eq(st.ghost['self']):
            if name in ('variable',):
                return [(st, ZV(Z.f_left(recv.t), 'node'))]
            if name in ('condition',):
                return [(st, ZV(Z.f_right(recv.t), 'node'))]
            if name == 'condition_unique_variable_ids':
                return [(st, Obj('keylist', {'ids': CondVarIds(recv.t)}))]
            if name == 'condition_free_variables':
                # the variables whose ids condition_unique_variable_ids lists (a one-line property over this list)
                return [(st, Obj('varlist', {'ids': CondVarIds(recv.t)}))]
            if name == 'solution_set':
                return [(st, st.ghost.get('solution_set', Obj('bindinglist', {'items': [], 'abstract': False})))]
        return super().getattr(eng, st, recv, name)

    def setattr(self, eng, st, recv, name, v):
        if isinstance(recv, ZV) and recv.ty == 'node' and recv.t.eq(st.ghost['self']) and name == 'solution_set':
            st = st.clone()
            st.ghost['solution_set'] = v if isinstance(v, Obj) else Obj('bindinglist', {'items': [], 'abstract': not (isinstance(v, Lst) and not v.items)})
            return [st]
        return super().setattr(eng, st, recv, name, v)

    def node__bind_unbound_variables_(self, eng, st, recv, args, kwargs, node):
        """ForAll._bind_unbound_variables_(result, variables) at its call site: only its contract (ForAllBind) is known -
        every row it yields extends `result` and binds every one of `variables`"""
        if not (recv.t.eq(st.ghost['self']) and len(args) == 2 and not kwargs and isinstance(args[0], D)
                and isinstance(args[1], Obj) and args[1].kind == 'varlist'):
            raise OutOfSubset("_bind_unbound_variables_ called with something else than (a row, the condition's variables)", node)
        return [(st, Obj('completion', {'of': args[0].ref, 'ids': args[1].data['ids'], 'line': node.lineno}))]

    # lists of binding dicts: only their emptiness and "an arbitrary element is one that was collected" are modelled
    def e_list_literal_hook(self):
        pass

    def list_append(self, eng, st, recv, args, kwargs, node):
        (d,) = args
        if not isinstance(d, D):
            raise OutOfSubset("append of a non-dict", node)
        st = st.clone()
        n = st.ghost['self']
        lblc = z3.Select(st.fields['is_false'], Z.f_right(n))
        eng.oblige(st, "C10/collect/only-true-rows-of-the-condition-are-collected", z3.Not(lblc), line=node.lineno)
        der = st.ghost.get('derived', {}).get(d.ref)
        # the dict the binding was cut from: a row of the condition, or such a row completed by _bind_unbound_variables_
        base = st.ghost.get('completion_of', {}).get(der[0], der[0]) if der else None
        prod = st.ghost.get('producer', {}).get(base) if der else None
        ok = z3.BoolVal(False)
        if der is not None and ((prod is not None and prod[0].eq(Z.f_right(n))) or base in st.ghost.get('sigma_like', ())):
            # a restriction of a row the condition just yielded (or of the ctx dict the condition yielded back)
            ok = z3.And(der[1] == CondVarIds(n), st.dicts[d.ref].same(st.dicts[der[0]].restrict(CondVarIds(n))))
        eng.oblige(st, "C10/collect/binding-is-the-row-restricted-to-the-conditions-own-variables", ok, line=node.lineno)
        # the bindings collected for the different universal values are compared as whole dicts: each of them has to say
        # something about EVERY variable of the condition (a row of an `or` binds only the variables of one operand; a
        # variable it leaves unbound stands for every value of it)
        eng.oblige(st, "C10/collect/binding-binds-every-variable-of-the-condition", st.dicts[d.ref].has == CondVarIds(n), line=node.lineno)
        recv.items.append(d)
        return [(st, NONE)]

    def loop_stream(self, eng, st, target, body, stream, ordinal, node):
        if stream.data['node'].eq(Z.f_right(st.ghost['self'])):
            st = st.clone()
            st.ghost['in_condition_loop'] = True
        return super().loop_stream(eng, st, target, body, stream, ordinal, node)

    def assume_row(self, st, c, sig, f, R, filt_c=None):
        m = super().assume_row(st, c, sig, f, R, filt_c)
        return m

    def truth_hook(self):
        pass

    def obj_truth(self, eng, st, v):
        if v.kind in ('bindinglist', 'havocked'):
            return z3.FreshConst(Z.B, 'nonempty')
        return None

    def fresh_like(self, eng, st, v, nm):
        if isinstance(v, Lst) or (isinstance(v, Obj) and v.kind == 'bindinglist'):
            return Obj('bindinglist', {'items': [], 'abstract': True})
        return super().fresh_like(eng, st, v, nm)

    def setcomp(self, eng, st, e):
        return [(st, Obj('keyset'))]

    def listcomp(self, eng, st, e):
        return [(st, Obj('bindinglist', {'items': [], 'abstract': True}))]

    def abstract_loop(self, eng, st, s, it, ordinal):
        if isinstance(it, Obj) and it.kind == 'completion':
            # an arbitrary row of _bind_unbound_variables_(row, variables), by its contract (ForAllBind)
            outs = [Outcome(st)]
            b = st.clone()
            comp = eng.new_dict(b, Z.ZMap.fresh('completed'))
            b.assume(b.dicts[comp.ref].extends(b.dicts[it.data['of']]))
            b.assume(subset(it.data['ids'], b.dicts[comp.ref].has))
            b.ghost['completion_of'] = {**b.ghost.get('completion_of', {}), comp.ref: it.data['of']}
            for b2 in eng.assign(s.target, comp, b):
                for o in eng.exec_block(s.body, b2):
                    outs.append(Outcome(o.st) if o.sig in (NEXT, CONTINUE, BREAK) else o)
            return outs
        if isinstance(it, Obj) and it.kind == 'bindinglist':
            # the emit loop: an arbitrary collected binding (a dict over the condition's own variables)
            b = st.clone()
            sol = eng.new_dict(b, Z.ZMap.fresh('sol'))
            b.assume(b.dicts[sol.ref].subset_of_ids(CondVarIds(b.ghost['self'])))
            b.ghost['emit_sol'] = sol.ref
            outs = []
            for b2 in eng.assign(s.target, sol, b):
                for o in eng.exec_block(s.body, b2):
                    if o.sig not in (NEXT, CONTINUE):
                        outs.append(Outcome(o.st) if o.sig == BREAK else o)
            outs.append(Outcome(st))
            return outs
        return super().abstract_loop(eng, st, s, it, ordinal)

    def on_yield(self, eng, st, v, ordinal, node):
        st = st.clone()
        if not isinstance(v, D):
            raise OutOfSubset("yield of a non-dict", node)
        sol = st.ghost.get('emit_sol')
        src = st.locals.get('sources')
        sig = st.dicts[src.ref] if isinstance(src, D) else st.ghost['sigma_now']
        ok = z3.BoolVal(False)
        if sol is not None:
            ok = st.dicts[v.ref].same(st.dicts[sol].merge(sig))
        eng.oblige(st, f"C10/emit@yield#{ordinal}/row-is-a-collected-binding-merged-with-sources", ok, line=node.lineno)
        eng.oblige(st, f"cover@yield#{ordinal}", z3.BoolVal(True), kind='cover', line=node.lineno)
        return [st]

    def on_exit(self, eng, o):
        if o.sig == RAISE:
            eng.oblige(o.st, "C10/no-exception", z3.BoolVal(False))


class ForAllBind(LibModel):
    """ForAll._bind_unbound_variables_(result, variables): every row it yields (i) extends `result` - nothing the condition
    bound is changed - and (ii) binds every one of `variables`.  The recursive call is taken by this same contract; the
    recursion is well-founded because it is made on a dict that binds strictly more of `variables`.  Assumed from the
    interface contract I (proved per node class by the evaluation contracts): a row of `variable._evaluate__(s)` extends s
    and binds the variable's own id."""
    qual = 'symbolic:ForAll._bind_unbound_variables_'
    cls = 'ForAll'
    props = ('C10',)
    modes = ('sound',)
    trusted = ("interface contract I for the variables' own _evaluate__: a row extends the sources it was given and binds "
               "the variable's id",)

    def modenv(self):
        return base_modenv()

    def setup(self, eng):
        st = State()
        st.fields = init_fields()
        self.n = z3.Const('self', Z.Node)
        self.var_ids = z3.Const('VarIds', Z.ArrIB)
        st.locals['self'] = ZV(self.n, 'node')
        st.ghost['self'] = self.n
        res = eng.new_dict(st, Z.ZMap.fresh('result'))
        self.res0 = st.dicts[res.ref]
        self.res_ref = res.ref
        st.locals['result'] = res
        st.locals['variables'] = Obj('varlist', {'ids': self.var_ids})
        st.ghost['yields'] = 0
        return [st]

    def node__evaluate__(self, eng, st, recv, args, kwargs, node):
        if len(args) != 1 or kwargs or not isinstance(args[0], D):
            raise OutOfSubset("a variable evaluated with something else than one dict", node)
        return [(st, Obj('varstream', {'node': recv.t, 'sigma': args[0].ref}))]

    def node__bind_unbound_variables_(self, eng, st, recv, args, kwargs, node):
        ok = (recv.t.eq(self.n) and len(args) == 2 and not kwargs and isinstance(args[0], D)
              and isinstance(args[1], Obj) and args[1].kind == 'varlist' and args[1].data['ids'].eq(self.var_ids))
        eng.oblige(st, "C10/bind/recursion-is-on-the-same-variables", z3.BoolVal(bool(ok)), line=node.lineno)
        if not ok:
            raise OutOfSubset("recursive call of another shape", node)
        new, cur = st.dicts[args[0].ref], st.dicts[self.res_ref]
        v = st.ghost.get('unbound_var')
        # well-founded: the dict handed down binds everything `result` binds and one of `variables` that it does not
        dec = z3.BoolVal(False) if v is None else z3.And(subset(cur.has, new.has), z3.Select(self.var_ids, Z.nid(v)),
                                                         z3.Not(cur.contains(Z.nid(v))), new.contains(Z.nid(v)))
        eng.oblige(st, "C10/bind/recursion-binds-one-more-of-the-variables", dec, line=node.lineno)
        return [(st, Obj('completion', {'of': args[0].ref, 'ids': self.var_ids}))]

    def abstract_loop(self, eng, st, s, it, ordinal):
        if isinstance(it, Obj) and it.kind == 'varlist':
            # invariant: every variable visited so far is bound by `result`, and `result` is what it was
            outs = []
            b = st.clone()
            v = z3.FreshConst(Z.Node, 'variable')
            b.assume(z3.Select(it.data['ids'], Z.nid(v)))
            b.ghost['loop_var'] = v
            for b2 in eng.assign(s.target, ZV(v, 'node'), b):
                for o in eng.exec_block(s.body, b2):
                    if o.sig in (NEXT, CONTINUE):
                        eng.oblige(o.st, "C10/bind/inv/a-variable-passed-over-is-bound-by-the-result",
                                   z3.And(o.st.dicts[self.res_ref].contains(Z.nid(v)), o.st.dicts[self.res_ref].same(self.res0)))
                    elif o.sig == BREAK:
                        outs.append(Outcome(o.st))
                    else:
                        outs.append(o)
            done = st.clone()
            done.assume(subset(it.data['ids'], done.dicts[self.res_ref].has))
            done.path.append('every-variable-passed-over')
            outs.append(Outcome(done))
            return outs
        if isinstance(it, Obj) and it.kind == 'varstream':
            outs = [Outcome(st)]
            b = st.clone()
            row = eng.new_dict(b, Z.ZMap.fresh('value'))
            b.assume(b.dicts[row.ref].extends(b.dicts[it.data['sigma']]))
            b.assume(b.dicts[row.ref].contains(Z.nid(it.data['node'])))
            b.ghost['unbound_var'] = it.data['node']
            for b2 in eng.assign(s.target, row, b):
                for o in eng.exec_block(s.body, b2):
                    outs.append(Outcome(o.st) if o.sig in (NEXT, CONTINUE, BREAK) else o)
            return outs
        return super().abstract_loop(eng, st, s, it, ordinal)

    def _post(self, eng, st, m, tag, line):
        eng.oblige(st, f"C10/bind@{tag}/row-extends-the-given-result", m.extends(self.res0), line=line)
        eng.oblige(st, f"C10/bind@{tag}/row-binds-every-given-variable", subset(self.var_ids, m.has), line=line)
        eng.oblige(st, f"cover@{tag}", z3.BoolVal(True), kind='cover', line=line)

    def yield_from(self, eng, st, src, ordinal, node):
        if not (isinstance(src, Obj) and src.kind == 'completion'):
            raise OutOfSubset("yield from something else than the recursive call", node)
        b = st.clone()
        row = Z.ZMap.fresh('deeper')
        b.assume(row.extends(b.dicts[src.data['of']]))
        b.assume(subset(self.var_ids, row.has))
        self._post(eng, b, row, f"yield#{ordinal}", node.lineno)
        return [Outcome(st), Outcome(b)]

    def on_yield(self, eng, st, v, ordinal, node):
        if not isinstance(v, D):
            raise OutOfSubset("yield of a non-dict", node)
        self._post(eng, st, st.dicts[v.ref], f"yield#{ordinal}", node.lineno)
        return [st]

    def on_exit(self, eng, o):
        if o.sig == RAISE:
            eng.oblige(o.st, "C10/bind/no-exception", z3.BoolVal(False))

    def signature(self, ob, model):
        return {}


class ForAllReq(ReqModel):
    """ForAll._required_variables_from_child_: the parent's answer plus the universal variable(s) plus every variable of the
    condition (the per-value results are compared by all of them)"""
    qual = 'symbolic:ForAll._required_variables_from_child_'
    cls = 'ForAll'
    props = ('C10',)
    child_cases = ('none', 'left', 'right')

    def getattr(self, eng, st, recv, name):
        if isinstance(recv, ZV) and recv.t.eq(self.n) and name == 'variable':
            return [(st, ZV(Z.f_left(self.n), 'node'))]
        if isinstance(recv, ZV) and recv.t.eq(self.n) and name == 'condition':
            return [(st, ZV(Z.f_right(self.n), 'node'))]
        return super().getattr(eng, st, recv, name)

    def call(self, eng, st, f, args, kwargs, node):
        if isinstance(f, C) and f.v == Ref('func', 'super'):
            return [(st, Obj('super_proxy'))]
        if isinstance(f, Meth) and isinstance(f.recv, Obj) and f.recv.kind == 'super_proxy' and f.name == '_required_variables_from_child_':
            # BinaryOperator's method on the same object: its real body
            return self.inline_method(eng, st, 'symbolic:BinaryOperator._required_variables_from_child_', ZV(self.n, 'node'), args, kwargs, node)
        return super().call(eng, st, f, args, kwargs, node)

    def modenv(self):
        env = super().modenv()
        env['super'] = C(Ref('func', 'super'))
        return env

    def getattr_super(self):
        pass

    def on_exit(self, eng, o):
        super().on_exit(eng, o)
        st = o.st
        if o.sig == RETURN and isinstance(o.val, Obj) and o.val.kind == 'idset':
            res = st.ghost['idsets'][o.val.data['ref']]
            eng.oblige(st, "C10/req/contains-the-universal-variable", subset(UV(Z.f_left(self.n)), res))
            # the results are intersected across the universal values by the bindings of every other variable of the condition
            # (selected or not): none of them may be dropped from what is kept distinct below
            eng.oblige(st, "C10/req/contains-every-variable-of-the-condition", subset(UV(Z.f_right(self.n)), res))


CONTRACTS = [ForAllEval, ForAllBind, ForAllReq]


ValSeq = z3.SeqSort(Z.Val)
seq_of = z3.Function('seq_of', Z.Val, ValSeq)            # the elements an iterable user value delivers, in order
CAT = z3.Function('CAT', Z.I, ValSeq)                    # spec: concatenation of the unwrapped values of the first i child rows
row_val = z3.Function('row_val', Z.I, Z.Val)             # value of the child in its i-th row
listval = z3.Function('listval', ValSeq, Z.Val)          # the Python list with these elements, as a user value


def unwrap(v):
    return z3.If(Z.is_iter(v), seq_of(v), z3.Unit(v))


class ConcatenateEval(LibModel):
    """symbolic.Concatenate._evaluate__ (C17): when not already bound, exactly one row; it is the incoming binding, unchanged,
    plus one entry under the node's own id whose value is the list of all elements of the child's values over all child
    rows, in stream order and inner order, with multiplicity (a non-iterable value counts as one element; the empty list
    when the child delivers no row).  Nothing else is bound: the variables the child ranged over have no single value.
    Spec function: CAT(0) = [], CAT(i+1) = CAT(i) ++ unwrap(row_val(i)); loop invariant acc == CAT(i)."""
    qual = 'symbolic:Concatenate._evaluate__'
    cls = 'Concatenate'
    props = ('C17', 'C19')      # C19: a falsy value is an element like any other
    modes = ('sound',)
    trusted = ("list.extend appends the elements of an iterable in iteration order (A6)",)

    def modenv(self):
        env = base_modenv()
        return env

    def setup(self, eng):
        sts = []
        self.n = z3.Const('self', Z.Node)
        c = Z.f_child(self.n)
        for case in ('none', 'dict'):
            st = State()
            st.fields = init_fields()
            st.ghost['self'] = self.n
            st.locals['self'] = ZV(self.n, 'node')
            st.path.append('sources=' + case)
            st.assume(Z.nid(c) != Z.nid(self.n), c != Z.NoneNode)
            if case == 'none':
                st.locals['sources'] = NONE
                st.ghost['sigma0'] = Z.ZMap.empty()
                st.ghost['sigma_ref'] = None
            else:
                sig = Z.ZMap.fresh('sigma')
                d = eng.new_dict(st, sig)
                st.locals['sources'] = d
                st.ghost['sigma0'] = sig
                st.ghost['sigma_ref'] = d.ref
            st.ghost['acc'] = None
            st.ghost['acc_ref'] = None
            st.ghost['yields'] = 0
            sts.append(st)
        return sts

    # ---- the result list: a Python list that starts empty and is only ever extended
    def acc_of(self, st, recv):
        if not isinstance(recv, Lst):
            return False
        if st.ghost['acc_ref'] is None and not recv.items:
            st.ghost['acc_ref'] = recv.ref
            st.ghost['acc'] = z3.Empty(ValSeq)
        return st.ghost['acc_ref'] == recv.ref

    def list_extend(self, eng, st, recv, args, kwargs, node):
        (o,) = args
        st = st.clone()
        if not self.acc_of(st, recv):
            raise OutOfSubset("extend of another list", node)
        if isinstance(o, ZV) and o.ty == 'val':
            add = seq_of(o.t)
        elif isinstance(o, Lst) and all(isinstance(x, ZV) and x.ty == 'val' for x in o.items):
            add = z3.Concat(*[z3.Unit(x.t) for x in o.items]) if len(o.items) > 1 else (z3.Unit(o.items[0].t) if o.items else z3.Empty(ValSeq))
        else:
            raise OutOfSubset("extend argument", node)
        st.ghost['acc'] = z3.Concat(st.ghost['acc'], add)
        return [(st, NONE)]

    def list_append(self, eng, st, recv, args, kwargs, node):
        st = st.clone()
        if self.acc_of(st, recv):
            # an append would put ONE (possibly wrapped, possibly iterable) object into the result list
            eng.oblige(st, "C17/acc/only-extend-writes-the-result-list", z3.BoolVal(False), line=node.lineno)
            return [(st, NONE)]
        raise OutOfSubset("append to another list", node)

    def new_HashedValue(self, eng, st, args, kwargs, node):
        val = kwargs.get('value', args[0] if args else None)
        if isinstance(val, Lst):
            st = st.clone()
            if not self.acc_of(st, val):
                raise OutOfSubset("HashedValue of another list", node)
            v = listval(st.ghost['acc'])
            return [(st, ZV(Z.mkhv(v, Z.objid(v)), 'hv'))]
        return super().new_HashedValue(eng, st, args, kwargs, node)

    def node__evaluate__(self, eng, st, recv, args, kwargs, node):
        srcs = args[0] if args else kwargs.get('sources', NONE)
        return [(st, Obj('childstream', {'node': recv.t, 'sigma': srcs}))]

    def f_is_iterable(self, eng, st, args, kwargs, node):
        (o,) = args
        if isinstance(o, ZV) and o.ty == 'val':
            return [(st, ZV(Z.is_iter(o.t), 'bool'))]
        return super().f_is_iterable(eng, st, args, kwargs, node)

    def abstract_loop(self, eng, st, s, it, ordinal):
        c = Z.f_child(self.n)
        if isinstance(it, Obj) and it.kind == 'childstream':
            st = st.clone()
            if st.ghost['acc'] is None:
                # the result list has to exist before the loop (it is the empty list when the child delivers no row): the
                # one empty Python list among the locals
                empties = [v for v in st.locals.values() if isinstance(v, Lst) and not v.items]
                if len(empties) != 1:
                    raise OutOfSubset("no (single) empty result list before the loop over the child's rows", s)
                self.acc_of(st, empties[0])
            # arbitrary iteration i: invariant acc == CAT(i); the row binds the child's id (R5) to a value row_val(i)
            i = z3.FreshConst(Z.I, 'i')
            h = st.clone()
            h.assume(i >= 0)
            h.ghost['acc'] = CAT(i)
            eng.oblige(st, "C17/acc/invariant-holds-initially", st.ghost['acc'] == CAT(z3.IntVal(0)), hyp=[CAT(z3.IntVal(0)) == z3.Empty(ValSeq)])
            b = h.clone()
            row = eng.new_dict(b, Z.ZMap.fresh('crow'))
            m = b.dicts[row.ref]
            b.assume(m.contains(Z.nid(c)), Z.hv_value(m.get(Z.nid(c))) == row_val(i), z3.Not(m.contains(Z.nid(self.n))))
            outs = []
            for b2 in eng.assign(s.target, row, b):
                for o in eng.exec_block(s.body, b2):
                    if o.sig in (NEXT, CONTINUE):
                        eng.oblige(o.st, "C17/acc/invariant-preserved", o.st.ghost['acc'] == CAT(i + 1),
                                   hyp=[CAT(i + 1) == z3.Concat(CAT(i), unwrap(row_val(i)))], line=s.lineno)
                        # the incoming binding is not written to while the child's rows are consumed
                        if st.ghost['sigma_ref'] is not None:
                            eng.oblige(o.st, "C17/frame/the-incoming-binding-is-not-modified",
                                       o.st.dicts[st.ghost['sigma_ref']].equals(st.dicts[st.ghost['sigma_ref']])
                                       if hasattr(o.st.dicts[st.ghost['sigma_ref']], 'equals') else
                                       z3.And(o.st.dicts[st.ghost['sigma_ref']].extends(st.dicts[st.ghost['sigma_ref']]),
                                              st.dicts[st.ghost['sigma_ref']].extends(o.st.dicts[st.ghost['sigma_ref']])), line=s.lineno)
                    elif o.sig == BREAK:
                        eng.oblige(o.st, "C17/acc/no-early-exit", z3.BoolVal(False))
                    else:
                        outs.append(o)
            e = st.clone()
            n_rows = z3.Const('n_rows', Z.I)
            e.assume(n_rows >= 0)
            e.ghost['acc'] = CAT(n_rows)
            e.ghost['after_loop'] = True
            outs.append(Outcome(e))
            return outs
        return super().abstract_loop(eng, st, s, it, ordinal)

    def on_yield(self, eng, st, v, ordinal, node):
        st = st.clone()
        st.ghost['yields'] = st.ghost.get('yields', 0) + 1
        if not isinstance(v, D):
            raise OutOfSubset("yield value", node)
        n = self.n
        m = st.dicts[v.ref]
        sig0 = st.ghost['sigma0']
        if not st.ghost.get('after_loop'):
            # already bound: the incoming binding is passed on as it is
            eng.oblige(st, f"C17/bound@yield#{ordinal}/passes-the-binding-on",
                       z3.And(sig0.contains(Z.nid(n)), m.extends(sig0), sig0.extends(m)), line=node.lineno)
            return [st]
        eng.oblige(st, f"C17/row@yield#{ordinal}/exactly-one-row", z3.BoolVal(st.ghost['yields'] == 1), line=node.lineno)
        # the row binds the node, also when the child delivered no row at all (the value is then the empty list) ...
        eng.oblige(st, f"C17/row@yield#{ordinal}/row-binds-the-node-also-for-an-empty-child-stream", m.contains(Z.nid(n)), line=node.lineno)
        eng.oblige(st, f"C17/row@yield#{ordinal}/value-is-the-concatenation-of-all-child-values-in-order",
                   Z.hv_value(m.get(Z.nid(n))) == listval(CAT(z3.Const('n_rows', Z.I))), line=node.lineno)
        # ... agrees with the incoming binding (R1) and binds nothing but it and the node (R0)
        eng.oblige(st, f"C17/row@yield#{ordinal}/keeps-the-incoming-binding-as-it-was", m.extends(sig0), line=node.lineno)
        k = z3.FreshConst(Z.I, 'anykey')
        eng.oblige(st, f"C17/row@yield#{ordinal}/binds-nothing-but-the-incoming-binding-and-the-node",
                   z3.Implies(m.contains(k), z3.Or(k == Z.nid(n), sig0.contains(k))), line=node.lineno)
        if st.ghost['sigma_ref'] is not None:
            eng.oblige(st, f"C17/row@yield#{ordinal}/is-a-new-row-object-not-the-incoming-one", z3.BoolVal(v.ref != st.ghost['sigma_ref']),
                       line=node.lineno)
            cur = st.dicts[st.ghost['sigma_ref']]
            eng.oblige(st, f"C17/row@yield#{ordinal}/the-incoming-binding-is-not-modified", z3.And(cur.extends(sig0), sig0.extends(cur)),
                       line=node.lineno)
        eng.oblige(st, f"cover@yield#{ordinal}", z3.BoolVal(True), kind='cover', line=node.lineno)
        return [st]

    def on_exit(self, eng, o):
        st = o.st
        if o.sig in (NEXT, RETURN):
            eng.oblige(st, "C17/exactly-one-row", z3.BoolVal(st.ghost.get('yields', 0) == 1))
        elif o.sig == RAISE:
            eng.oblige(st, "C17/no-exception", z3.BoolVal(False))

    def signature(self, ob, model):
        return {}


CONTRACTS += [ConcatenateEval]
