"""C11: rule inference builds one instance per satisfying binding, from that binding.

Functions under contract (the inferred branch of Variable):
  Variable._instantiate_new_values_and_yield_results_(kwargs, sources)   with every constructor argument bound
        kwargs maps each field name f to the row in which the argument expression e_f was evaluated.  Post: exactly ONE
        call of the class, with exactly the fields of kwargs, field f receiving `row_f[id(e_f)].value` - the very object the
        binding holds (no copy, no mixing of rows) - and the instance is handed with the same kwargs rows to
        _process_output_and_update_values_.
  Variable._process_output_and_update_values_(output, **kwargs)   for a non-predicate (inferred) variable
        exactly one row, whatever the truthiness of the instance; it binds the variable's own id to HashedValue(output)
        (HashedValue keeps the object by identity) and contains every binding of every kwargs row.
  QueryObjectDescriptor._inform_selected_variables_that_they_should_be_inferred_ / Infer: see InformInferred.
The composition (arguments are evaluated under the current binding by the interface contract I of the argument
expressions; the conditions filter the bindings; one call per binding) is A9 + the bounded inference stand-in."""
from __future__ import annotations

import ast

import z3

from eqlvc import z as Z
from eqlvc.interp import (SV, ZV, C, D, Tup, Lst, Obj, Meth, Closure, Ref, NONE, TRUE, FALSE, State, Outcome,
                          OutOfSubset, NEXT, CONTINUE, BREAK, RETURN, RAISE, GENEXIT)
from eqlvc.libmodel import LibModel, base_modenv

Child = z3.Function('ChildVar', Z.Node, Z.I, Z.Node)        # the argument expression of field number i


class InferBase(LibModel):
    cls = 'Variable'
    props = ('C11',)
    modes = ('sound',)
    nfields = (1, 2)

    def modenv(self):
        env = base_modenv()
        env['HashedValue'] = C(Ref('class', 'HashedValue'))
        env['PredicateType'] = C(Ref('module', 'PredicateType'))
        return env

    def fields(self, st):
        return [f"f{i + 1}" for i in range(st.ghost['k'])]

    def child(self, st, i):
        return Child(st.ghost['self'], z3.IntVal(i))

    def base_state(self, eng, k):
        st = State()
        n = z3.Const('self', Z.Node)
        st.ghost['self'] = n
        st.ghost['k'] = k
        st.locals['self'] = ZV(n, 'node')
        rows = []
        for i in range(k):
            m = Z.ZMap.fresh(f"argrow{i + 1}")
            d = eng.new_dict(st, m)
            # the row of argument i binds that argument expression (interface clause R5)
            st.assume(m.contains(Z.nid(self.child(st, i))))
            # ... and not the variable under construction (R0: a row of an argument binds ids of the argument's subtree and
            # of sigma only; the variable itself is unbound on this branch)
            st.assume(z3.Not(m.contains(Z.nid(n))))
            rows.append(d)
        st.ghost['rows'] = rows
        st.assume(*[Z.nid(self.child(st, i)) != Z.nid(self.child(st, j)) for i in range(k) for j in range(i)])
        st.assume(*[Z.nid(self.child(st, i)) != Z.nid(n) for i in range(k)])
        st.path.append(f"fields={k}")
        return st

    def kwargs_map(self, st):
        return Obj('pymap', {'items': [(C(f), st.ghost['rows'][i]) for i, f in enumerate(self.fields(st))]})

    def getattr(self, eng, st, recv, name):
        if isinstance(recv, ZV) and recv.ty == 'node' and recv.t.eq(st.ghost['self']):
            if name == '_child_vars_':
                return [(st, Obj('pymap', {'items': [(C(f), ZV(self.child(st, i), 'node')) for i, f in enumerate(self.fields(st))]}))]
            if name == '_type_':
                return [(st, C(Ref('func', 'TYPE')))]
            if name == '_predicate_type_':
                return [(st, NONE)]            # an inferred variable of a plain @symbol class (predicates: C09 / C13)
            if name == '_invert_':
                return [(st, FALSE)]
        if isinstance(recv, ZV) and recv.ty == 'hv' and name == 'value':
            return [(st, ZV(Z.hv_value(recv.t), 'val'))]
        if isinstance(recv, C) and recv.v == Ref('module', 'PredicateType'):
            return [(st, C(Ref('enum', 'PredicateType.' + name)))]
        return super().getattr(eng, st, recv, name)

    def subscript(self, eng, st, recv, k):
        if isinstance(recv, Obj) and recv.kind == 'pymap':
            return [(st, self.pymap_lookup(eng, st, recv, k))]
        return super().subscript(eng, st, recv, k) if hasattr(super(), 'subscript') else None

    def compare(self, eng, st, op, a, b):
        if isinstance(op, (ast.In, ast.NotIn)) and isinstance(b, Obj) and b.kind == 'pymap' and isinstance(a, C):
            r = any(isinstance(k, C) and k.v == a.v for k, _ in b.data['items'])
            return C(r if isinstance(op, ast.In) else not r)
        return super().compare(eng, st, op, a, b) if hasattr(super(), 'compare') else None

    def obj_truth(self, eng, st, v):
        if v.kind == 'pymap':
            return len(v.data['items']) > 0
        return None

    def accepts_star(self, f):
        return True

    def signature(self, ob, model):
        return {}


class InstantiateNew(InferBase):
    qual = 'symbolic:Variable._instantiate_new_values_and_yield_results_'
    trusted = ("the case where some constructor argument is still unbound (_bind_unbound_kwargs_and_yield_results_, "
               "itertools.product over the remaining arguments) is not under contract: Variable._evaluate__ always supplies "
               "every argument; bounded inference stand-in only",)

    def setup(self, eng):
        sts = []
        for k in self.nfields:
            st = self.base_state(eng, k)
            st.locals['kwargs'] = self.kwargs_map(st)
            st.locals['sources'] = NONE
            st.ghost['constructed'] = []
            st.ghost['processed'] = []
            sts.append(st)
        return sts

    def call(self, eng, st, f, args, kwargs, node):
        if isinstance(f, C) and f.v == Ref('func', 'TYPE'):
            st = st.clone()
            pm = kwargs.get('**')
            ok = not args and set(kwargs) == {'**'} and isinstance(pm, Obj) and pm.kind == 'pymap'
            st.ghost['constructed'] = st.ghost['constructed'] + [pm if ok else None]
            return [(st, Obj('instance', {'k': len(st.ghost['constructed'])}))]
        if isinstance(f, Meth) and f.name == '_process_output_and_update_values_':
            st = st.clone()
            st.ghost['processed'] = st.ghost['processed'] + [(args, kwargs)]
            return [(st, Obj('gen', {'of': 'process'}))]
        return super().call(eng, st, f, args, kwargs, node)

    def node__process_output_and_update_values_(self, *a, **k):      # marks the method as callable on self
        raise OutOfSubset("handled in call()")

    def yield_from(self, eng, st, src, ordinal, node):
        if isinstance(src, Obj) and src.kind == 'gen':
            st = st.clone()
            st.ghost['yielded_from'] = st.ghost.get('yielded_from', 0) + 1
            return [Outcome(st)]
        return super().yield_from(eng, st, src, ordinal, node)

    def on_exit(self, eng, o):
        st = o.st
        if o.sig not in (NEXT, RETURN):
            eng.oblige(st, "C11/instantiate/finishes-normally", z3.BoolVal(False))
            return
        cons = st.ghost['constructed']
        eng.oblige(st, "C11/instantiate/exactly-one-instance-per-binding", z3.BoolVal(len(cons) == 1 and cons[0] is not None))
        if len(cons) != 1 or cons[0] is None:
            return
        items = cons[0].data['items']
        names = [k.v for k, _ in items if isinstance(k, C)]
        eng.oblige(st, "C11/instantiate/every-field-of-the-head-and-no-other", z3.BoolVal(sorted(names) == sorted(self.fields(st))))
        for i, f in enumerate(self.fields(st)):
            got = [v for k, v in items if isinstance(k, C) and k.v == f]
            row = st.dicts[st.ghost['rows'][i].ref]
            want = Z.hv_value(row.get(Z.nid(self.child(st, i))))
            ok = z3.BoolVal(False)
            if len(got) == 1 and isinstance(got[0], ZV) and got[0].ty == 'val':
                ok = got[0].t == want
            eng.oblige(st, f"C11/instantiate/field-{i + 1}-is-the-value-of-its-expression-under-this-binding", ok)
        pr = st.ghost['processed']
        ok = (len(pr) == 1 and len(pr[0][0]) == 1 and isinstance(pr[0][0][0], Obj) and pr[0][0][0].kind == 'instance'
              and set(pr[0][1]) == {'**'} and isinstance(pr[0][1]['**'], Obj) and pr[0][1]['**'].kind == 'pymap'
              and [(k.v, v.ref) for k, v in pr[0][1]['**'].data['items']] == [(f, st.ghost['rows'][i].ref) for i, f in enumerate(self.fields(st))]
              and st.ghost.get('yielded_from') == 1)
        eng.oblige(st, "C11/instantiate/the-instance-is-handed-on-once-with-the-rows-of-this-binding", z3.BoolVal(bool(ok)))


class ProcessOutput(InferBase):
    qual = 'symbolic:Variable._process_output_and_update_values_'
    nfields = (0, 1, 2)
    trusted = ("HashedValue(x) wraps x by identity (id_ = id(x) unless x carries _id_): hashed_data.HashedValue.__post_init__",
               "bool() of a user instance may be anything (A10): `truthy` is unconstrained")

    def setup(self, eng):
        sts = []
        for k in self.nfields:
            for ywf in (False, True):
                st = self.base_state(eng, k)
                st.locals['function_output'] = ZV(z3.Const('instance', Z.Val), 'val')
                st.locals['kwargs'] = self.kwargs_map(st)
                st.fields = {'is_false': z3.Const('is_false0', Z.ArrNB), 'ywf': z3.Const('ywf0', Z.ArrNB)}
                st.assume(z3.Select(st.fields['ywf'], st.ghost['self']) == z3.BoolVal(ywf))
                st.path.append(f"yield_when_false={ywf}")
                st.ghost['rows_out'] = []
                sts.append(st)
        return sts

    def getattr(self, eng, st, recv, name):
        if isinstance(recv, ZV) and recv.ty == 'node' and recv.t.eq(st.ghost['self']):
            if name == '_yield_when_false_':
                return [(st, ZV(z3.Select(st.fields['ywf'], recv.t), 'bool'))]
            if name == '_is_false_':
                return [(st, ZV(z3.Select(st.fields['is_false'], recv.t), 'bool'))]
            if name == '_id_':
                return [(st, ZV(Z.nid(recv.t), 'int'))]
        return super().getattr(eng, st, recv, name)

    def setattr(self, eng, st, recv, name, v):
        if isinstance(recv, ZV) and recv.ty == 'node' and name == '_is_false_':
            st = st.clone()
            st.fields['is_false'] = z3.Store(st.fields['is_false'], recv.t, eng.to_z3_bool(eng.truth(st, v)))
            return [st]
        return super().setattr(eng, st, recv, name, v)

    def f_bool(self, eng, st, args, kwargs, node):
        (o,) = args
        if isinstance(o, ZV) and o.ty == 'val':
            return [(st, ZV(Z.truthy(o.t), 'bool'))]
        return super().f_bool(eng, st, args, kwargs, node)

    def f_isinstance(self, eng, st, args, kwargs, node):
        o, c = args
        if isinstance(o, ZV) and o.ty == 'val' and isinstance(c, C) and c.v == Ref('class', 'HashedValue'):
            return [(st, FALSE)]      # the constructed instance is a user object, not a HashedValue
        return super().f_isinstance(eng, st, args, kwargs, node)

    def call(self, eng, st, f, args, kwargs, node):
        if isinstance(f, C) and f.v == Ref('class', 'HashedValue'):
            (o,) = args
            if isinstance(o, ZV) and o.ty == 'val':
                hv = z3.FreshConst(Z.HV, 'hv')
                st = st.clone()
                st.assume(Z.hv_value(hv) == o.t)
                return [(st, ZV(hv, 'hv'))]
        return super().call(eng, st, f, args, kwargs, node)

    def on_yield(self, eng, st, v, ordinal, node):
        if not isinstance(v, D):
            raise OutOfSubset(f"yield of {v}", node)
        st = st.clone()
        st.ghost['rows_out'] = st.ghost['rows_out'] + [st.dicts[v.ref]]
        return [st]

    def on_exit(self, eng, o):
        st = o.st
        if o.sig not in (NEXT, RETURN):
            eng.oblige(st, "C11/process/finishes-normally", z3.BoolVal(False))
            return
        rows = st.ghost['rows_out']
        eng.oblige(st, "C11/process/exactly-one-row-for-the-instance-whatever-its-truthiness", z3.BoolVal(len(rows) == 1))
        if len(rows) != 1:
            return
        row = rows[0]
        n = st.ghost['self']
        inst = z3.Const('instance', Z.Val)
        eng.oblige(st, "C11/process/row-binds-the-variable-to-that-very-instance",
                   z3.And(row.contains(Z.nid(n)), Z.hv_value(row.get(Z.nid(n))) == inst))
        for i in range(st.ghost['k']):
            arg = st.dicts[st.ghost['rows'][i].ref]
            # later rows win on a clash (dict.update); the argument expression's own binding is what the field was built from
            cid = Z.nid(self.child(st, i))
            later = [st.dicts[st.ghost['rows'][j].ref] for j in range(i + 1, st.ghost['k'])]
            eng.oblige(st, f"C11/process/row-keeps-the-binding-of-argument-{i + 1}",
                       z3.Implies(z3.And(*[z3.Not(m.contains(cid)) for m in later]),
                                  z3.And(row.contains(cid), row.get(cid) == arg.get(cid))))


class ProcessOutputPredicate(ProcessOutput):
    """the same function for a predicate (decorated function or Predicate subclass), possibly negated (C03): the label is
    the truth of the predicate's result, inverted exactly when the node is inverted; a row is emitted exactly when the label
    is true or false rows were asked for; it binds the node to the result"""
    props = ('C03', 'C09')
    nfields = (0, 1)
    ptypes = ('DecoratedMethod', 'SubClassOfPredicate')

    def setup(self, eng):
        sts = []
        for st in super().setup(eng):
            for pt in self.ptypes:
                s2 = st.clone()
                s2.ghost['ptype'] = pt
                s2.ghost['invert'] = z3.Const('inverted', Z.B)
                s2.path.append('predicate=' + pt)
                sts.append(s2)
        return sts

    def getattr(self, eng, st, recv, name):
        if isinstance(recv, ZV) and recv.ty == 'node' and recv.t.eq(st.ghost['self']):
            if name == '_predicate_type_':
                return [(st, C(Ref('enum', 'PredicateType.' + st.ghost['ptype'])))]
            if name == '_invert_':
                return [(st, ZV(st.ghost['invert'], 'bool'))]
        return super().getattr(eng, st, recv, name)

    def call(self, eng, st, f, args, kwargs, node):
        if isinstance(f, ZV) and f.ty == 'val' and not args and not kwargs:
            # a Predicate instance is called to obtain its result
            st = st.clone()
            st.ghost['called'] = st.ghost.get('called', 0) + 1
            return [(st, ZV(z3.Const('predicate_result', Z.Val), 'val'))]
        return super().call(eng, st, f, args, kwargs, node)

    def on_exit(self, eng, o):
        st = o.st
        if o.sig not in (NEXT, RETURN):
            eng.oblige(st, "C03/predicate/finishes-normally", z3.BoolVal(False))
            return
        n = st.ghost['self']
        cls_form = st.ghost['ptype'] == 'SubClassOfPredicate'
        res = z3.Const('predicate_result', Z.Val) if cls_form else z3.Const('instance', Z.Val)
        if cls_form:
            eng.oblige(st, "C03/predicate/a-predicate-instance-is-called-exactly-once", z3.BoolVal(st.ghost.get('called', 0) == 1))
        lbl = z3.Select(st.fields['is_false'], n)
        truth = z3.Xor(Z.truthy(res), st.ghost['invert'])
        eng.oblige(st, "C03/predicate/label-is-the-result-inverted-exactly-when-the-node-is", lbl == z3.Not(truth))
        ywf = z3.Select(st.fields['ywf'], n)
        rows = st.ghost['rows_out']
        eng.oblige(st, "C03/predicate/row-exactly-when-true-or-false-rows-were-asked-for",
                   z3.And(z3.BoolVal(len(rows) <= 1), z3.BoolVal(len(rows) == 1) == z3.Or(ywf, truth)))
        if len(rows) == 1:
            eng.oblige(st, "C03/predicate/row-binds-the-node-to-the-result",
                       z3.And(rows[0].contains(Z.nid(n)), Z.hv_value(rows[0].get(Z.nid(n))) == res))


class InferPostInit(LibModel):
    """Infer.__post_init__: every selected variable of the descriptor under an Infer quantifier is marked as to-be-inferred
    (so Variable._evaluate__ takes the constructing branch for it)"""
    qual = 'symbolic:Infer.__post_init__'
    cls = 'Infer'
    props = ('C11',)
    modes = ('sound',)
    trusted = ("An.__post_init__ / ResultQuantifier.__post_init__ (super call) link the descriptor as _child_ and do not "
               "touch _is_inferred_",)

    def modenv(self):
        env = base_modenv()
        env['super'] = C(Ref('func', 'super'))
        return env

    def setup(self, eng):
        sts = []
        for k in (0, 1, 2):
            st = State()
            n = z3.Const('self', Z.Node)
            st.ghost['self'] = n
            st.locals['self'] = ZV(n, 'node')
            st.ghost['sel'] = [z3.Const(f"sel{i}", Z.Node) for i in range(k)]
            st.ghost['marked'] = []
            st.path.append(f"selected={k}")
            sts.append(st)
        return sts

    def getattr(self, eng, st, recv, name):
        if isinstance(recv, ZV) and recv.ty in ('node', 'optnode') and recv.t.eq(st.ghost['self']):
            if name == '_child_':
                return [(st, Obj('descriptor', {}))]
            if name == '_node_':
                return [(st, Obj('rxnode', {'of': recv.t}))]
        if isinstance(recv, Obj) and recv.kind == 'descriptor' and name == 'selected_variables':
            return [(st, Lst([ZV(v, 'node') for v in st.ghost['sel']], eng.new_ref()))]
        return super().getattr(eng, st, recv, name)

    def call(self, eng, st, f, args, kwargs, node):
        if isinstance(f, C) and f.v == Ref('func', 'super'):
            return [(st, Obj('super_proxy', {}))]
        if isinstance(f, Meth) and isinstance(f.recv, Obj) and f.recv.kind == 'super_proxy' and f.name == '__post_init__':
            return [(st, NONE)]
        return super().call(eng, st, f, args, kwargs, node)

    def setattr(self, eng, st, recv, name, v):
        if isinstance(recv, ZV) and recv.ty == 'node' and name == '_is_inferred_':
            st = st.clone()
            st.ghost['marked'] = st.ghost['marked'] + [(recv.t, v)]
            return [st]
        if isinstance(recv, Obj) and recv.kind == 'rxnode':
            return [st]
        return None

    def on_exit(self, eng, o):
        st = o.st
        sel = st.ghost['sel']
        marked = st.ghost['marked']
        ok = (o.sig in (NEXT, RETURN) and len(marked) == len(sel)
              and all(any(m.eq(s) and isinstance(v, C) and v.v is True for m, v in marked) for s in sel))
        eng.oblige(st, "C11/infer/every-selected-variable-is-marked-inferred", z3.BoolVal(bool(ok)))

    def signature(self, ob, model):
        return {}


class ChildVarsFromKwargs(LibModel):
    """Variable._update_child_vars_from_kwargs_: every constructor argument becomes a child expression: a symbolic
    expression is kept as it is, a constant (whatever it is: None, falsy, iterable) is wrapped in ONE Literal holding that very
    object (a Literal is a single-value variable; an iterable constant is not a domain)"""
    qual = 'symbolic:Variable._update_child_vars_from_kwargs_'
    cls = 'Variable'
    props = ('C11', 'C13')
    modes = ('sound',)
    trusted = ("Literal(v): a variable whose only value is v itself (symbolic.Literal.__init__ wraps the value in a one-element "
               "list)",)

    def modenv(self):
        env = base_modenv()
        env['Literal'] = C(Ref('class', 'Literal'))
        env['SymbolicExpression'] = C(Ref('class', 'SymbolicExpression'))
        return env

    def setup(self, eng):
        sts = []
        for shape in ((), ('expr',), ('const',), ('expr', 'const'), ('const', 'expr'), ('const', 'const')):
            st = State()
            n = z3.Const('self', Z.Node)
            st.ghost['self'] = n
            st.locals['self'] = ZV(n, 'node')
            st.ghost['kwargs'] = [(C(f"f{i + 1}"), Obj(kind, {'tag': f"v{i + 1}"})) for i, kind in enumerate(shape)]
            st.ghost['child_vars'] = {}
            st.ghost['updated_children'] = None
            st.path.append('arguments=' + ','.join(shape))
            sts.append(st)
        return sts

    def getattr(self, eng, st, recv, name):
        if isinstance(recv, ZV) and recv.ty == 'node' and recv.t.eq(st.ghost['self']):
            if name == '_kwargs_':
                return [(st, Obj('pymap', {'items': list(st.ghost['kwargs'])}))]
            if name == '_child_vars_':
                return [(st, Obj('childvars', {}))]
            if name == '_update_children_':
                return [(st, Meth(recv, name))]
        return super().getattr(eng, st, recv, name)

    def obj_truth(self, eng, st, v):
        if v.kind == 'pymap':
            return len(v.data['items']) > 0
        return None

    def f_isinstance(self, eng, st, args, kwargs, node):
        o, c = args
        if isinstance(o, Obj) and o.kind in ('expr', 'const') and isinstance(c, C) and c.v == Ref('class', 'SymbolicExpression'):
            return [(st, C(o.kind == 'expr'))]
        if isinstance(o, Obj) and o.kind in ('expr', 'const') and isinstance(c, C) and isinstance(c.v, Ref) and c.v.kind == 'class' \
                and self.src.is_subclass(c.v.name, 'SymbolicExpression'):
            # a narrower expression class: a constant is no instance of it; an arbitrary symbolic argument may or may not be
            if o.kind == 'const':
                return [(st, C(False))]
            yes, no = st.clone(), st.clone()
            yes.path.append(f"{o.data['tag']}-is-a-{c.v.name}")
            no.path.append(f"{o.data['tag']}-is-no-{c.v.name}")
            return [(yes, C(True)), (no, C(False))]
        return super().f_isinstance(eng, st, args, kwargs, node)

    def setitem(self, eng, st, recv, k, v):
        if isinstance(recv, Obj) and recv.kind == 'childvars' and isinstance(k, C):
            st = st.clone()
            cv = dict(st.ghost['child_vars'])
            cv[k.v] = v
            st.ghost['child_vars'] = cv
            return [st]
        return None

    def obj_childvars_values(self, eng, st, recv, args, kwargs, node):
        return [(st, Obj('childvars_values', {'snapshot': dict(st.ghost['child_vars'])}))]

    def accepts_star(self, f):
        return isinstance(f, Meth) and f.name == '_update_children_'

    def call(self, eng, st, f, args, kwargs, node):
        if isinstance(f, C) and f.v == Ref('class', 'Literal'):
            return [(st, Obj('literal', {'of': args[0] if args else None, 'kwargs': kwargs}))]
        if isinstance(f, Meth) and f.name == '_update_children_':
            st = st.clone()
            st.ghost['updated_children'] = args
            return [(st, NONE)]
        return super().call(eng, st, f, args, kwargs, node)

    def node__update_children_(self, *a, **k):
        raise OutOfSubset("handled in call()")

    def on_exit(self, eng, o):
        st = o.st
        cv = st.ghost['child_vars']
        want = st.ghost['kwargs']
        eng.oblige(st, "C11/args/one-child-expression-per-constructor-argument", z3.BoolVal(sorted(cv) == sorted(k.v for k, _ in want)))
        for k, v in want:
            got = cv.get(k.v)
            if v.kind == 'expr':
                ok = got is v
                nm = f"C11/args/{k.v}-a-symbolic-argument-is-kept-as-it-is"
            else:
                ok = isinstance(got, Obj) and got.kind == 'literal' and got.data['of'] is v
                nm = f"C11/args/{k.v}-a-constant-is-wrapped-in-one-Literal-holding-that-object"
            eng.oblige(st, nm, z3.BoolVal(bool(ok)))
        if want:
            uc = st.ghost['updated_children']
            ok = (uc is not None and len(uc) == 1 and isinstance(uc[0], Obj) and uc[0].kind == 'star'
                  and isinstance(uc[0].data['of'], Obj) and uc[0].data['of'].kind == 'childvars_values'
                  and sorted(uc[0].data['of'].data['snapshot']) == sorted(k.v for k, _ in want))
            eng.oblige(st, "C11/args/all-child-expressions-are-linked-as-children", z3.BoolVal(bool(ok)))

    def signature(self, ob, model):
        return {}


CONTRACTS = [InstantiateNew, ProcessOutput, ProcessOutputPredicate, InferPostInit, ChildVarsFromKwargs]
