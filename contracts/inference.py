"""C11: rule inference builds one instance per satisfying binding, from that binding.

Functions under contract (the inferred branch of Variable):
  Variable._instantiate_new_values_and_yield_results_(kwargs, sources)   with every constructor argument bound
        kwargs maps each field name f to the row in which the argument expression e_f was evaluated.  Post: exactly ONE
        call of the class, with exactly the fields of kwargs, field f receiving `row_f[id(e_f)].value` - the very object the
        binding holds (no copy, no mixing of rows) - and the instance is handed with the same kwargs rows to
        _process_output_and_update_values_.
  Variable._process_output_and_update_values_(output, **kwargs)   for a non-predicate (inferred) variable
        exactly one row, whatever the truthiness of the instance; it binds the variable's own id to HashedValue(output)
        (HashedValue keeps the object by identity) and contains every binding of every kwargs row.
  QueryObjectDescriptor._inform_selected_variables_that_they_should_be_inferred_ / Infer: see InformInferred.
The composition (arguments are evaluated under the current binding by the interface contract I of the argument
expressions; the conditions filter the bindings; one call per binding) is A9 + the bounded inference stand-in."""
from __future__ import annotations

import ast

import z3

from eqlvc import z as Z
from eqlvc.interp import (SV, ZV, C, D, Tup, Lst, Obj, Meth, Closure, Ref, NONE, TRUE, FALSE, State, Outcome,
                          OutOfSubset, NEXT, CONTINUE, BREAK, RETURN, RAISE, GENEXIT)
from eqlvc.libmodel import LibModel, base_modenv, init_fields

Child = z3.Function('ChildVar', Z.Node, Z.I, Z.Node)        # the argument expression of field number i


class InferBase(LibModel):
    cls = 'Variable'
    props = ('C11',)
    modes = ('sound',)
    nfields = (1, 2)

    def modenv(self):
        env = base_modenv()
        env['HashedValue'] = C(Ref('class', 'HashedValue'))
        env['PredicateType'] = C(Ref('module', 'PredicateType'))
        return env

    def fields(self, st):
        return [f"f{i + 1}" for i in range(st.ghost['k'])]

    def child(self, st, i):
        return Child(st.ghost['self'], z3.IntVal(i))

    def base_state(self, eng, k):
        st = State()
        n = z3.Const('self', Z.Node)
        st.ghost['self'] = n
        st.ghost['k'] = k
        st.locals['self'] = ZV(n, 'node')
        rows = []
        for i in range(k):
            m = Z.ZMap.fresh(f"argrow{i + 1}")
            d = eng.new_dict(st, m)
            # the row of argument i binds that argument expression (interface clause R5)
            st.assume(m.contains(Z.nid(self.child(st, i))))
            # ... and not the variable under construction (R0: a row of an argument binds ids of the argument's subtree and
            # of sigma only; the variable itself is unbound on this branch)
            st.assume(z3.Not(m.contains(Z.nid(n))))
            rows.append(d)
        st.ghost['rows'] = rows
        st.assume(*[Z.nid(self.child(st, i)) != Z.nid(self.child(st, j)) for i in range(k) for j in range(i)])
        st.assume(*[Z.nid(self.child(st, i)) != Z.nid(n) for i in range(k)])
        st.path.append(f"fields={k}")
        return st

    def kwargs_map(self, st):
        return Obj('pymap', {'items': [(C(f), st.ghost['rows'][i]) for i, f in enumerate(self.fields(st))]})

    def getattr(self, eng, st, recv, name):
        if isinstance(recv, ZV) and recv.ty == 'node' and recv.t.eq(st.ghost['self']):
            if name == '_child_vars_':
                return [(st, Obj('pymap', {'items': [(C(f), ZV(self.child(st, i), 'node')) for i, f in enumerate(self.fields(st))]}))]
            if name == '_type_':
                return [(st, C(Ref('func', 'TYPE')))]
            if name == '_predicate_type_':
                return [(st, NONE)]            # an inferred variable of a plain @symbol class (predicates: C09 / C13)
            if name == '_invert_':
                return [(st, FALSE)]
        if isinstance(recv, ZV) and recv.ty == 'hv' and name == 'value':
            return [(st, ZV(Z.hv_value(recv.t), 'val'))]
        if isinstance(recv, C) and recv.v == Ref('module', 'PredicateType'):
            return [(st, C(Ref('enum', 'PredicateType.' + name)))]
        return super().getattr(eng, st, recv, name)

    def subscript(self, eng, st, recv, k):
        if isinstance(recv, Obj) and recv.kind == 'pymap':
            return [(st, self.pymap_lookup(eng, st, recv, k))]
        return super().subscript(eng, st, recv, k) if hasattr(super(), 'subscript') else None

    def compare(self, eng, st, op, a, b):
        if isinstance(op, (ast.In, ast.NotIn)) and isinstance(b, Obj) and b.kind == 'pymap' and isinstance(a, C):
            r = any(isinstance(k, C) and k.v == a.v for k, _ in b.data['items'])
            return C(r if isinstance(op, ast.In) else not r)
        return super().compare(eng, st, op, a, b) if hasattr(super(), 'compare') else None

    def obj_truth(self, eng, st, v):
        if v.kind == 'pymap':
            return len(v.data['items']) > 0
        return None

    def accepts_star(self, f):
        return True

    def signature(self, ob, model):
        return {}


class InstantiateNew(InferBase):
    qual = 'symbolic:Variable._instantiate_new_values_and_yield_results_'
    trusted = ("the case where some constructor argument is still unbound (_bind_unbound_kwargs_and_yield_results_, "
               "itertools.product over the remaining arguments) is not under contract: Variable._evaluate__ always supplies "
               "every argument; bounded inference stand-in only",)

    def setup(self, eng):
        sts = []
        for k in self.nfields:
            st = self.base_state(eng, k)
            st.locals['kwargs'] = self.kwargs_map(st)
            st.locals['sources'] = NONE
            st.ghost['constructed'] = []
            st.ghost['processed'] = []
            sts.append(st)
        return sts

    def call(self, eng, st, f, args, kwargs, node):
        if isinstance(f, C) and f.v == Ref('func', 'TYPE'):
            st = st.clone()
            pm = kwargs.get('**')
            ok = not args and set(kwargs) == {'**'} and isinstance(pm, Obj) and pm.kind == 'pymap'
            st.ghost['constructed'] = st.ghost['constructed'] + [pm if ok else None]
            return [(st, Obj('instance', {'k': len(st.ghost['constructed'])}))]
        if isinstance(f, Meth) and f.name == '_process_output_and_update_values_':
            st = st.clone()
            st.ghost['processed'] = st.ghost['processed'] + [(args, kwargs)]
            return [(st, Obj('gen', {'of': 'process'}))]
        return super().call(eng, st, f, args, kwargs, node)

    def node__process_output_and_update_values_(self, *a, **k):      # marks the method as callable on self
        raise OutOfSubset("handled in call()")

    def yield_from(self, eng, st, src, ordinal, node):
        if isinstance(src, Obj) and src.kind == 'gen':
            st = st.clone()
            st.ghost['yielded_from'] = st.ghost.get('yielded_from', 0) + 1
            return [Outcome(st)]
        return super().yield_from(eng, st, src, ordinal, node)

    def on_exit(self, eng, o):
        st = o.st
        if o.sig not in (NEXT, RETURN):
            eng.oblige(st, "C11/instantiate/finishes-normally", z3.BoolVal(False))
            return
        cons = st.ghost['constructed']
        eng.oblige(st, "C11/instantiate/exactly-one-instance-per-binding", z3.BoolVal(len(cons) == 1 and cons[0] is not None))
        if len(cons) != 1 or cons[0] is None:
            return
        items = cons[0].data['items']
        names = [k.v for k, _ in items if isinstance(k, C)]
        eng.oblige(st, "C11/instantiate/every-field-of-the-head-and-no-other", z3.BoolVal(sorted(names) == sorted(self.fields(st))))
        for i, f in enumerate(self.fields(st)):
            got = [v for k, v in items if isinstance(k, C) and k.v == f]
            row = st.dicts[st.ghost['rows'][i].ref]
            want = Z.hv_value(row.get(Z.nid(self.child(st, i))))
            ok = z3.BoolVal(False)
            if len(got) == 1 and isinstance(got[0], ZV) and got[0].ty == 'val':
                ok = got[0].t == want
            eng.oblige(st, f"C11/instantiate/field-{i + 1}-is-the-value-of-its-expression-under-this-binding", ok)
        pr = st.ghost['processed']
        ok = (len(pr) == 1 and len(pr[0][0]) == 1 and isinstance(pr[0][0][0], Obj) and pr[0][0][0].kind == 'instance'
              and set(pr[0][1]) == {'**'} and isinstance(pr[0][1]['**'], Obj) and pr[0][1]['**'].kind == 'pymap'
              and [(k.v, v.ref) for k, v in pr[0][1]['**'].data['items']] == [(f, st.ghost['rows'][i].ref) for i, f in enumerate(self.fields(st))]
              and st.ghost.get('yielded_from') == 1)
        eng.oblige(st, "C11/instantiate/the-instance-is-handed-on-once-with-the-rows-of-this-binding", z3.BoolVal(bool(ok)))


class ProcessOutput(InferBase):
    qual = 'symbolic:Variable._process_output_and_update_values_'
    nfields = (0, 1, 2)
    trusted = ("HashedValue(x) wraps x by identity (id_ = id(x) unless x carries _id_): hashed_data.HashedValue.__post_init__",
               "bool() of a user instance may be anything (A10): `truthy` is unconstrained")

    def setup(self, eng):
        sts = []
        for k in self.nfields:
            for ywf in (False, True):
                st = self.base_state(eng, k)
                st.locals['function_output'] = ZV(z3.Const('instance', Z.Val), 'val')
                st.locals['kwargs'] = self.kwargs_map(st)
                st.fields = {'is_false': z3.Const('is_false0', Z.ArrNB), 'ywf': z3.Const('ywf0', Z.ArrNB)}
                st.assume(z3.Select(st.fields['ywf'], st.ghost['self']) == z3.BoolVal(ywf))
                st.path.append(f"yield_when_false={ywf}")
                st.ghost['rows_out'] = []
                sts.append(st)
        return sts

    def getattr(self, eng, st, recv, name):
        if isinstance(recv, ZV) and recv.ty == 'node' and recv.t.eq(st.ghost['self']):
            if name == '_yield_when_false_':
                return [(st, ZV(z3.Select(st.fields['ywf'], recv.t), 'bool'))]
            if name == '_is_false_':
                return [(st, ZV(z3.Select(st.fields['is_false'], recv.t), 'bool'))]
            if name == '_id_':
                return [(st, ZV(Z.nid(recv.t), 'int'))]
        return super().getattr(eng, st, recv, name)

    def setattr(self, eng, st, recv, name, v):
        if isinstance(recv, ZV) and recv.ty == 'node' and name == '_is_false_':
            st = st.clone()
            st.fields['is_false'] = z3.Store(st.fields['is_false'], recv.t, eng.to_z3_bool(eng.truth(st, v)))
            return [st]
        return super().setattr(eng, st, recv, name, v)

    def f_bool(self, eng, st, args, kwargs, node):
        (o,) = args
        if isinstance(o, ZV) and o.ty == 'val':
            return [(st, ZV(Z.truthy(o.t), 'bool'))]
        return super().f_bool(eng, st, args, kwargs, node)

    def f_isinstance(self, eng, st, args, kwargs, node):
        o, c = args
        if isinstance(o, ZV) and o.ty == 'val' and isinstance(c, C) and c.v == Ref('class', 'HashedValue'):
            return [(st, FALSE)]      # the constructed instance is a user object, not a HashedValue
        return super().f_isinstance(eng, st, args, kwargs, node)

    def call(self, eng, st, f, args, kwargs, node):
        if isinstance(f, C) and f.v == Ref('class', 'HashedValue'):
            (o,) = args
            if isinstance(o, ZV) and o.ty == 'val':
                hv = z3.FreshConst(Z.HV, 'hv')
                st = st.clone()
                st.assume(Z.hv_value(hv) == o.t)
                return [(st, ZV(hv, 'hv'))]
        return super().call(eng, st, f, args, kwargs, node)

    def on_yield(self, eng, st, v, ordinal, node):
        if not isinstance(v, D):
            raise OutOfSubset(f"yield of {v}", node)
        st = st.clone()
        st.ghost['rows_out'] = st.ghost['rows_out'] + [st.dicts[v.ref]]
        return [st]

    def on_exit(self, eng, o):
        st = o.st
        if o.sig not in (NEXT, RETURN):
            eng.oblige(st, "C11/process/finishes-normally", z3.BoolVal(False))
            return
        rows = st.ghost['rows_out']
        eng.oblige(st, "C11/process/exactly-one-row-for-the-instance-whatever-its-truthiness", z3.BoolVal(len(rows) == 1))
        if len(rows) != 1:
            return
        row = rows[0]
        n = st.ghost['self']
        inst = z3.Const('instance', Z.Val)
        eng.oblige(st, "C11/process/row-binds-the-variable-to-that-very-instance",
                   z3.And(row.contains(Z.nid(n)), Z.hv_value(row.get(Z.nid(n))) == inst))
        for i in range(st.ghost['k']):
            arg = st.dicts[st.ghost['rows'][i].ref]
            # later rows win on a clash (dict.update); the argument expression's own binding is what the field was built from
            cid = Z.nid(self.child(st, i))
            later = [st.dicts[st.ghost['rows'][j].ref] for j in range(i + 1, st.ghost['k'])]
            eng.oblige(st, f"C11/process/row-keeps-the-binding-of-argument-{i + 1}",
                       z3.Implies(z3.And(*[z3.Not(m.contains(cid)) for m in later]),
                                  z3.And(row.contains(cid), row.get(cid) == arg.get(cid))))


class ProcessOutputPredicate(ProcessOutput):
    """the same function for a predicate (decorated function or Predicate subclass), possibly negated (C03): the label is
    the truth of the predicate's result, inverted exactly when the node is inverted; a row is emitted exactly when the label
    is true or false rows were asked for; it binds the node to the result"""
    props = ('C03', 'C09')
    nfields = (0, 1)
    ptypes = ('DecoratedMethod', 'SubClassOfPredicate')

    def setup(self, eng):
        sts = []
        for st in super().setup(eng):
            for pt in self.ptypes:
                s2 = st.clone()
                s2.ghost['ptype'] = pt
                s2.ghost['invert'] = z3.Const('inverted', Z.B)
                s2.path.append('predicate=' + pt)
                sts.append(s2)
        return sts

    def getattr(self, eng, st, recv, name):
        if isinstance(recv, ZV) and recv.ty == 'node' and recv.t.eq(st.ghost['self']):
            if name == '_predicate_type_':
                return [(st, C(Ref('enum', 'PredicateType.' + st.ghost['ptype'])))]
            if name == '_invert_':
                return [(st, ZV(st.ghost['invert'], 'bool'))]
        return super().getattr(eng, st, recv, name)

    def call(self, eng, st, f, args, kwargs, node):
        if isinstance(f, ZV) and f.ty == 'val' and not args and not kwargs:
            # a Predicate instance is called to obtain its result
            st = st.clone()
            st.ghost['called'] = st.ghost.get('called', 0) + 1
            return [(st, ZV(z3.Const('predicate_result', Z.Val), 'val'))]
        return super().call(eng, st, f, args, kwargs, node)

    def on_exit(self, eng, o):
        st = o.st
        if o.sig not in (NEXT, RETURN):
            eng.oblige(st, "C03/predicate/finishes-normally", z3.BoolVal(False))
            return
        n = st.ghost['self']
        cls_form = st.ghost['ptype'] == 'SubClassOfPredicate'
        res = z3.Const('predicate_result', Z.Val) if cls_form else z3.Const('instance', Z.Val)
        if cls_form:
            eng.oblige(st, "C03/predicate/a-predicate-instance-is-called-exactly-once", z3.BoolVal(st.ghost.get('called', 0) == 1))
        lbl = z3.Select(st.fields['is_false'], n)
        truth = z3.Xor(Z.truthy(res), st.ghost['invert'])
        eng.oblige(st, "C03/predicate/label-is-the-result-inverted-exactly-when-the-node-is", lbl == z3.Not(truth))
        ywf = z3.Select(st.fields['ywf'], n)
        rows = st.ghost['rows_out']
        eng.oblige(st, "C03/predicate/row-exactly-when-true-or-false-rows-were-asked-for",
                   z3.And(z3.BoolVal(len(rows) <= 1), z3.BoolVal(len(rows) == 1) == z3.Or(ywf, truth)))
        if len(rows) == 1:
            eng.oblige(st, "C03/predicate/row-binds-the-node-to-the-result",
                       z3.And(rows[0].contains(Z.nid(n)), Z.hv_value(rows[0].get(Z.nid(n))) == res))


class InferPostInit(LibModel):
    """Infer.__post_init__: every selected variable of the descriptor under an Infer quantifier is marked as to-be-inferred
    (so Variable._evaluate__ takes the constructing branch for it)"""
    qual = 'symbolic:Infer.__post_init__'
    cls = 'Infer'
    props = ('C11',)
    modes = ('sound',)
    trusted = ("An.__post_init__ / ResultQuantifier.__post_init__ (super call) link the descriptor as _child_ and do not "
               "touch _is_inferred_",)

    def modenv(self):
        env = base_modenv()
        env['super'] = C(Ref('func', 'super'))
        return env

    def setup(self, eng):
        sts = []
        for k in (0, 1, 2):
            st = State()
            n = z3.Const('self', Z.Node)
            st.ghost['self'] = n
            st.locals['self'] = ZV(n, 'node')
            st.ghost['sel'] = [z3.Const(f"sel{i}", Z.Node) for i in range(k)]
            st.ghost['marked'] = []
            st.path.append(f"selected={k}")
            sts.append(st)
        return sts

    def getattr(self, eng, st, recv, name):
        if isinstance(recv, ZV) and recv.ty in ('node', 'optnode') and recv.t.eq(st.ghost['self']):
            if name == '_child_':
                return [(st, Obj('descriptor', {}))]
            if name == '_node_':
                return [(st, Obj('rxnode', {'of': recv.t}))]
        if isinstance(recv, Obj) and recv.kind == 'descriptor' and name == 'selected_variables':
            return [(st, Lst([ZV(v, 'node') for v in st.ghost['sel']], eng.new_ref()))]
        return super().getattr(eng, st, recv, name)

    def call(self, eng, st, f, args, kwargs, node):
        if isinstance(f, C) and f.v == Ref('func', 'super'):
            return [(st, Obj('super_proxy', {}))]
        if isinstance(f, Meth) and isinstance(f.recv, Obj) and f.recv.kind == 'super_proxy' and f.name == '__post_init__':
            return [(st, NONE)]
        return super().call(eng, st, f, args, kwargs, node)

    def setattr(self, eng, st, recv, name, v):
        if isinstance(recv, ZV) and recv.ty == 'node' and name == '_is_inferred_':
            st = st.clone()
            st.ghost['marked'] = st.ghost['marked'] + [(recv.t, v)]
            return [st]
        if isinstance(recv, Obj) and recv.kind == 'rxnode':
            return [st]
        return None

    def on_exit(self, eng, o):
        st = o.st
        sel = st.ghost['sel']
        marked = st.ghost['marked']
        ok = (o.sig in (NEXT, RETURN) and len(marked) == len(sel)
              and all(any(m.eq(s) and isinstance(v, C) and v.v is True for m, v in marked) for s in sel))
        eng.oblige(st, "C11/infer/every-selected-variable-is-marked-inferred", z3.BoolVal(bool(ok)))

    def signature(self, ob, model):
        return {}


class ChildVarsFromKwargs(LibModel):
    """Variable._update_child_vars_from_kwargs_: every constructor argument becomes a child expression: a symbolic
    expression is kept as it is, a constant (whatever it is: None, falsy, iterable) is wrapped in ONE Literal holding that very
    object (a Literal is a single-value variable; an iterable constant is not a domain)"""
    qual = 'symbolic:Variable._update_child_vars_from_kwargs_'
    cls = 'Variable'
    props = ('C11', 'C13')
    modes = ('sound',)
    trusted = ("Literal(v): a variable whose only value is v itself (symbolic.Literal.__init__ wraps the value in a one-element "
               "list)",)

    def modenv(self):
        env = base_modenv()
        env['Literal'] = C(Ref('class', 'Literal'))
        env['SymbolicExpression'] = C(Ref('class', 'SymbolicExpression'))
        return env

    def setup(self, eng):
        sts = []
        for shape in ((), ('expr',), ('const',), ('expr', 'const'), ('const', 'expr'), ('const', 'const')):
            st = State()
            n = z3.Const('self', Z.Node)
            st.ghost['self'] = n
            st.locals['self'] = ZV(n, 'node')
            st.ghost['kwargs'] = [(C(f"f{i + 1}"), Obj(kind, {'tag': f"v{i + 1}"})) for i, kind in enumerate(shape)]
            st.ghost['child_vars'] = {}
            st.ghost['updated_children'] = None
            st.path.append('arguments=' + ','.join(shape))
            sts.append(st)
        return sts

    def getattr(self, eng, st, recv, name):
        if isinstance(recv, ZV) and recv.ty == 'node' and recv.t.eq(st.ghost['self']):
            if name == '_kwargs_':
                return [(st, Obj('pymap', {'items': list(st.ghost['kwargs'])}))]
            if name == '_child_vars_':
                return [(st, Obj('childvars', {}))]
            if name == '_update_children_':
                return [(st, Meth(recv, name))]
        return super().getattr(eng, st, recv, name)

    def obj_truth(self, eng, st, v):
        if v.kind == 'pymap':
            return len(v.data['items']) > 0
        return None

    def f_isinstance(self, eng, st, args, kwargs, node):
        o, c = args
        if isinstance(o, Obj) and o.kind in ('expr', 'const') and isinstance(c, C) and c.v == Ref('class', 'SymbolicExpression'):
            return [(st, C(o.kind == 'expr'))]
        if isinstance(o, Obj) and o.kind in ('expr', 'const') and isinstance(c, C) and isinstance(c.v, Ref) and c.v.kind == 'class' \
                and self.src.is_subclass(c.v.name, 'SymbolicExpression'):
            # a narrower expression class: a constant is no instance of it; an arbitrary symbolic argument may or may not be
            if o.kind == 'const':
                return [(st, C(False))]
            yes, no = st.clone(), st.clone()
            yes.path.append(f"{o.data['tag']}-is-a-{c.v.name}")
            no.path.append(f"{o.data['tag']}-is-no-{c.v.name}")
            return [(yes, C(True)), (no, C(False))]
        return super().f_isinstance(eng, st, args, kwargs, node)

    def setitem(self, eng, st, recv, k, v):
        if isinstance(recv, Obj) and recv.kind == 'childvars' and isinstance(k, C):
            st = st.clone()
            cv = dict(st.ghost['child_vars'])
            cv[k.v] = v
            st.ghost['child_vars'] = cv
            return [st]
        return None

    def obj_childvars_values(self, eng, st, recv, args, kwargs, node):
        return [(st, Obj('childvars_values', {'snapshot': dict(st.ghost['child_vars'])}))]

    def accepts_star(self, f):
        return isinstance(f, Meth) and f.name == '_update_children_'

    def call(self, eng, st, f, args, kwargs, node):
        if isinstance(f, C) and f.v == Ref('class', 'Literal'):
            return [(st, Obj('literal', {'of': args[0] if args else None, 'kwargs': kwargs}))]
        if isinstance(f, Meth) and f.name == '_update_children_':
            st = st.clone()
            st.ghost['updated_children'] = args
            return [(st, NONE)]
        return super().call(eng, st, f, args, kwargs, node)

    def node__update_children_(self, *a, **k):
        raise OutOfSubset("handled in call()")

    def on_exit(self, eng, o):
        st = o.st
        cv = st.ghost['child_vars']
        want = st.ghost['kwargs']
        eng.oblige(st, "C11/args/one-child-expression-per-constructor-argument", z3.BoolVal(sorted(cv) == sorted(k.v for k, _ in want)))
        for k, v in want:
            got = cv.get(k.v)
            if v.kind == 'expr':
                ok = got is v
                nm = f"C11/args/{k.v}-a-symbolic-argument-is-kept-as-it-is"
            else:
                ok = isinstance(got, Obj) and got.kind == 'literal' and got.data['of'] is v
                nm = f"C11/args/{k.v}-a-constant-is-wrapped-in-one-Literal-holding-that-object"
            eng.oblige(st, nm, z3.BoolVal(bool(ok)))
        if want:
            uc = st.ghost['updated_children']
            ok = (uc is not None and len(uc) == 1 and isinstance(uc[0], Obj) and uc[0].kind == 'star'
                  and isinstance(uc[0].data['of'], Obj) and uc[0].data['of'].kind == 'childvars_values'
                  and sorted(uc[0].data['of'].data['snapshot']) == sorted(k.v for k, _ in want))
            eng.oblige(st, "C11/args/all-child-expressions-are-linked-as-children", z3.BoolVal(bool(ok)))

    def signature(self, ob, model):
        return {}



class BindChildVars(LibModel):
    """Variable._bind_child_vars_(bindings, child_vars, bound): the constructor arguments are evaluated one after the
    other, each under the bindings made so far.  Contract (C11 "fields of different assignments are never mixed"):
    every mapping it yields (i) keeps the entries of `bound` as they are, (ii) has exactly one row per listed argument,
    produced by that argument's own _evaluate__, and (iii) every such row extends `bindings` - for the recursive call
    `bindings` already contains the rows chosen before, so by induction all rows of one mapping agree with one another;
    (iv) no argument is evaluated before the rows of the earlier ones are chosen (C07: one row at a time, nothing drained).
    The recursive call is taken by this contract; it is well-founded on the length of `child_vars` (0, 1 and 2 listed
    arguments are executed; the tail is arbitrary through the contract)."""
    qual = 'symbolic:Variable._bind_child_vars_'
    cls = 'Variable'
    props = ('C11', 'C07', 'C19')
    modes = ('sound',)
    track_abandon = True
    trusted = ("interface contract I for the arguments' _evaluate__: a row extends the sources it was given",)

    def modenv(self):
        return base_modenv()

    def setup(self, eng):
        sts = []
        for n in (0, 1, 2):
            for nb in (0, 1):
                st = State()
                st.fields = init_fields()
                self.n = z3.Const('self', Z.Node)
                st.locals['self'] = ZV(self.n, 'node')
                st.ghost['self'] = self.n
                b = eng.new_dict(st, Z.ZMap.fresh('bindings'))
                st.ghost['bindings0'] = st.dicts[b.ref]
                st.locals['bindings'] = b
                vars_ = [z3.Const(f'arg{i + 1}', Z.Node) for i in range(n)]
                st.locals['child_vars'] = Lst([Tup([C(f'f{i + 1}'), ZV(v, 'node')]) for i, v in enumerate(vars_)], eng.new_ref())
                prior = []
                for j in range(nb):
                    d = eng.new_dict(st, Z.ZMap.fresh(f'prior{j}'))
                    prior.append((C(f'p{j}'), d))
                st.locals['bound'] = Obj('pymap', {'items': prior})
                st.ghost['prior'] = [(k.v, d.ref, st.dicts[d.ref]) for k, d in prior]
                st.ghost['names'] = [f'f{i + 1}' for i in range(n)]
                st.ghost['vars'] = vars_
                st.ghost['producer'] = {}
                st.ghost['eval_parent0'] = st.fields['eval_parent']
                st.path.append(f"arguments={n},already-bound={nb}")
                sts.append(st)
        return sts

    def dict_display(self, eng, st, e):
        outs = [(st, [])]
        for k, v in zip(e.keys, e.values):
            nxt = []
            for s, items in outs:
                if k is None:
                    for s2, dv in eng.eval(v, s):
                        if not (isinstance(dv, Obj) and dv.kind == 'pymap'):
                            return None
                        nxt.append((s2, items + list(dv.data['items'])))
                else:
                    for s2, kv in eng.eval(k, s):
                        for s3, vv in eng.eval(v, s2):
                            nxt.append((s3, [(a, b) for a, b in items if not (isinstance(a, C) and isinstance(kv, C) and a.v == kv.v)] + [(kv, vv)]))
            outs = nxt
        if not e.keys:
            return None
        return [(s, Obj('pymap', {'items': items})) for s, items in outs]

    def f_dict(self, eng, st, args, kwargs, node):
        if len(args) == 1 and isinstance(args[0], Obj) and args[0].kind == 'pymap':
            return [(st, Obj('pymap', {'items': list(args[0].data['items'])}))]
        return super().f_dict(eng, st, args, kwargs, node)

    def node__evaluate__(self, eng, st, recv, args, kwargs, node):
        if len(args) != 1 or kwargs or not isinstance(args[0], D):
            raise OutOfSubset("an argument evaluated with something else than one dict", node)
        # C19 (constructor argument = value position): while an argument is evaluated here, what it is an operand of is this
        # variable - not the logical operator the same expression may also stand under as a condition
        eng.oblige(st, "C19/bind-args/an-argument-is-evaluated-as-an-operand-of-this-variable",
                   z3.Select(st.fields['eval_parent'], recv.t) == self.n, line=node.lineno)
        return [(st, Obj('argstream', {'node': recv.t, 'sigma': args[0].ref}))]

    def node__bind_child_vars_(self, eng, st, recv, args, kwargs, node):
        ok = recv.t.eq(self.n) and len(args) == 3 and not kwargs and isinstance(args[0], D) and isinstance(args[1], Lst) \
            and isinstance(args[2], Obj) and args[2].kind == 'pymap'
        if not ok:
            raise OutOfSubset("recursive call of another shape", node)
        mine = st.locals['child_vars']
        eng.oblige(st, "C11/bind-args/recursion-is-on-fewer-arguments", z3.BoolVal(len(args[1].items) < len(mine.items)), line=node.lineno)
        return [(st, Obj('deeper', {'bindings': args[0].ref, 'vars': list(args[1].items), 'bound': list(args[2].data['items'])}))]

    def abstract_loop(self, eng, st, s, it, ordinal):
        if isinstance(it, Obj) and it.kind == 'argstream':
            raised = st.clone()
            raised.path.append('the-argument-raises')
            outs = [Outcome(st), Outcome(raised, RAISE, C(Ref('exc', 'Exception')))]
            b = st.clone()
            row = eng.new_dict(b, Z.ZMap.fresh('value'))
            b.assume(b.dicts[row.ref].extends(b.dicts[it.data['sigma']]))
            b.ghost['producer'] = {**b.ghost['producer'], row.ref: (it.data['node'], b.dicts[it.data['sigma']])}
            for b2 in eng.assign(s.target, row, b):
                for o in eng.exec_block(s.body, b2):
                    outs.append(Outcome(o.st) if o.sig in (NEXT, CONTINUE, BREAK) else o)
            return outs
        return super().abstract_loop(eng, st, s, it, ordinal)

    def _post(self, eng, st, items, tag, line, deeper=None):
        """items: [(C(name), D row)] of the yielded mapping"""
        names = [k.v for k, _ in items if isinstance(k, C)]
        want = [p[0] for p in st.ghost['prior']] + st.ghost['names']
        eng.oblige(st, f"C11/bind-args@{tag}/one-entry-per-argument-and-per-earlier-entry", z3.BoolVal(sorted(names) == sorted(want)), line=line)
        by = {k.v: v for k, v in items if isinstance(k, C)}
        for nm, ref, m0 in st.ghost['prior']:
            v = by.get(nm)
            eng.oblige(st, f"C11/bind-args@{tag}/earlier-entry-{nm}-is-kept", st.dicts[v.ref].same(m0) if isinstance(v, D) else z3.BoolVal(False), line=line)
        for nm, var in zip(st.ghost['names'], st.ghost['vars']):
            v = by.get(nm)
            if not isinstance(v, D):
                eng.oblige(st, f"C11/bind-args@{tag}/{nm}-is-a-row-of-its-own-argument-under-the-bindings-made-so-far", z3.BoolVal(False), line=line)
                continue
            prod = st.ghost['producer'].get(v.ref)
            if prod is not None:
                ok = z3.And(prod[0] == var, prod[1].extends(st.ghost['bindings0']))
            elif deeper is not None and nm in deeper:
                ok = z3.BoolVal(True)         # by the contract of the recursive call, whose bindings extend ours (obliged there)
            else:
                ok = z3.BoolVal(False)
            eng.oblige(st, f"C11/bind-args@{tag}/{nm}-is-a-row-of-its-own-argument-under-the-bindings-made-so-far", ok, line=line)
            eng.oblige(st, f"C11/bind-args@{tag}/{nm}-agrees-with-the-given-bindings", st.dicts[v.ref].extends(st.ghost['bindings0']), line=line)
        eng.oblige(st, f"cover@{tag}", z3.BoolVal(True), kind='cover', line=line)

    def yield_from(self, eng, st, src, ordinal, node):
        if not (isinstance(src, Obj) and src.kind == 'deeper'):
            raise OutOfSubset("yield from something else than the recursive call", node)
        b = st.clone()
        nb = b.dicts[src.data['bindings']]
        eng.oblige(b, f"C11/bind-args@yield#{ordinal}/the-recursive-call-gets-the-bindings-made-so-far", nb.extends(b.ghost['bindings0']), line=node.lineno)
        # its contract: the entries handed down are kept; one row per remaining argument, each extending the bindings handed down
        items = list(src.data['bound'])
        deeper = set()
        for t in src.data['vars']:
            k, v = t.items
            row = eng.new_dict(b, Z.ZMap.fresh('deeper_' + str(k.v)))
            b.assume(b.dicts[row.ref].extends(nb))
            items.append((k, row))
            deeper.add(k.v)
        # every row chosen at this level is part of the bindings handed down (so the deeper rows agree with it)
        for k, v in src.data['bound']:
            if isinstance(v, D) and v.ref in b.ghost['producer']:
                eng.oblige(b, f"C11/bind-args@yield#{ordinal}/the-bindings-handed-down-contain-the-row-chosen-for-{k.v}", nb.extends(b.dicts[v.ref]), line=node.lineno)
        self._post(eng, b, items, f"yield#{ordinal}", node.lineno, deeper=deeper)
        # (the recursive call leaves the evaluation parents as it found them - its own clause below; the consumer may abandon
        # the evaluation while a deeper row is out, and the deeper call may raise)
        gone = b.clone()
        gone.path.append(f"abandon@y{ordinal}")
        failed = st.clone()
        failed.path.append('the-recursive-call-raises')
        return [Outcome(st), Outcome(b), Outcome(gone, GENEXIT, ordinal), Outcome(failed, RAISE, C(Ref('exc', 'Exception')))]

    def on_yield(self, eng, st, v, ordinal, node):
        if not (isinstance(v, Obj) and v.kind == 'pymap'):
            raise OutOfSubset("yield of something else than a mapping name -> row", node)
        self._post(eng, st, list(v.data['items']), f"yield#{ordinal}", node.lineno)
        return [st]

    def on_exit(self, eng, o):
        how = {NEXT: 'exhausted', RETURN: 'exhausted', RAISE: 'an-exception', GENEXIT: 'abandoned'}.get(o.sig, str(o.sig))
        eng.oblige(o.st, f"C19/bind-args/evaluation-parents-are-left-as-they-were/{how}",
                   o.st.fields['eval_parent'] == o.st.ghost['eval_parent0'])

    def signature(self, ob, model):
        return {}


class GenerateChildCombinations(LibModel):
    """Variable._generate_combinations_for_child_vars_values_(sources): everything it yields comes from ONE call of
    _bind_child_vars_ with a copy of `sources` (or an empty dict), every constructor argument in order, and nothing bound yet;
    it evaluates no argument itself (so nothing is drained ahead of the consumer: C07)."""
    qual = 'symbolic:Variable._generate_combinations_for_child_vars_values_'
    cls = 'Variable'
    props = ('C11', 'C07')
    modes = ('sound',)

    def modenv(self):
        return base_modenv()

    def setup(self, eng):
        sts = []
        for given in ('none', 'dict'):
            st = State()
            st.fields = init_fields()
            self.n = z3.Const('self', Z.Node)
            st.locals['self'] = ZV(self.n, 'node')
            st.ghost['self'] = self.n
            if given == 'dict':
                d = eng.new_dict(st, Z.ZMap.fresh('sources'))
                st.locals['sources'] = d
                st.ghost['sources0'] = st.dicts[d.ref]
                st.ghost['sources_ref'] = d.ref
            else:
                st.locals['sources'] = NONE
                st.ghost['sources0'] = None
            st.ghost['delegated'] = []
            st.ghost['evaluated'] = 0
            st.path.append(f"sources={given}")
            sts.append(st)
        return sts

    def getattr(self, eng, st, recv, name):
        if isinstance(recv, ZV) and recv.ty == 'node' and recv.t.eq(self.n) and name == '_child_vars_':
            return [(st, Obj('childvars', {}))]
        return super().getattr(eng, st, recv, name)

    def obj_childvars_items(self, eng, st, recv, args, kwargs, node):
        return [(st, Obj('childvar_items', {}))]

    def f_list(self, eng, st, args, kwargs, node):
        if len(args) == 1 and isinstance(args[0], Obj) and args[0].kind == 'childvar_items':
            return [(st, Obj('childvar_items', {'listed': True}))]
        return super().f_list(eng, st, args, kwargs, node)

    def node__evaluate__(self, eng, st, recv, args, kwargs, node):
        st = st.clone()
        st.ghost['evaluated'] += 1
        raise OutOfSubset("an argument is evaluated outside _bind_child_vars_", node)

    def node__bind_child_vars_(self, eng, st, recv, args, kwargs, node):
        st = st.clone()
        st.ghost['delegated'] = st.ghost['delegated'] + [(recv, list(args), dict(kwargs))]
        return [(st, Obj('binder', {'args': list(args)}))]

    def yield_from(self, eng, st, src, ordinal, node):
        ok = isinstance(src, Obj) and src.kind == 'binder'
        eng.oblige(st, f"C11/arg-combinations@yield#{ordinal}/everything-comes-from-the-lazy-binder", z3.BoolVal(bool(ok)), line=node.lineno)
        if not ok:
            return [Outcome(st)]
        a = src.data['args']
        shape = len(a) == 3 and isinstance(a[0], D) and isinstance(a[1], Obj) and a[1].kind == 'childvar_items' and isinstance(a[2], D)
        eng.oblige(st, f"C11/arg-combinations@yield#{ordinal}/all-arguments-in-order-nothing-bound-yet", z3.BoolVal(bool(shape)), line=node.lineno)
        if shape:
            s0 = st.ghost['sources0']
            first = st.dicts[a[0].ref]
            eng.oblige(st, f"C11/arg-combinations@yield#{ordinal}/starts-from-the-incoming-bindings",
                       first.same(s0) if s0 is not None else first.is_empty(), line=node.lineno)
            if s0 is not None:
                eng.oblige(st, f"C11/arg-combinations@yield#{ordinal}/on-a-copy-of-the-incoming-bindings",
                           z3.BoolVal(a[0].ref != st.ghost['sources_ref']), line=node.lineno)
            eng.oblige(st, f"C11/arg-combinations@yield#{ordinal}/nothing-bound-yet", st.dicts[a[2].ref].is_empty(), line=node.lineno)
        eng.oblige(st, f"cover@yield#{ordinal}", z3.BoolVal(True), kind='cover', line=node.lineno)
        st = st.clone()
        st.ghost['yielded_from_binder'] = st.ghost.get('yielded_from_binder', 0) + 1
        return [Outcome(st)]

    def on_yield(self, eng, st, v, ordinal, node):
        eng.oblige(st, f"C11/arg-combinations@yield#{ordinal}/everything-comes-from-the-lazy-binder", z3.BoolVal(False), line=node.lineno)
        return [st]

    def on_exit(self, eng, o):
        st = o.st
        if o.sig == RAISE:
            eng.oblige(st, "C11/arg-combinations/no-exception", z3.BoolVal(False))
            return
        eng.oblige(st, "C11/arg-combinations/the-binder-is-consumed-exactly-once", z3.BoolVal(st.ghost.get('yielded_from_binder', 0) == 1))

    def signature(self, ob, model):
        return {}

CONTRACTS = [InstantiateNew, ProcessOutput, ProcessOutputPredicate, InferPostInit, ChildVarsFromKwargs, BindChildVars,
             GenerateChildCombinations]
