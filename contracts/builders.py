"""Entry points and small builders: each returns exactly the node its name promises, built from all of its arguments, none
dropped, none duplicated, in order (C18, and the entry-point part of C01 / C03 / C06 / C10 / C15 / C16 / C17).

One generic contract: the real body is executed with opaque arguments; every call of a library constructor / helper returns
an opaque term `fn(args; kwargs)`; the returned term must be the expected one."""
from __future__ import annotations

import ast

import z3

from eqlvc import z as Z
from eqlvc.interp import (SV, ZV, C, D, Tup, Lst, Obj, Meth, Closure, Ref, NONE, TRUE, FALSE, State, Outcome,
                          OutOfSubset, NEXT, CONTINUE, BREAK, RETURN, RAISE, GENEXIT)
from eqlvc.libmodel import LibModel, base_modenv

CALLABLES = ['Not', 'AND', 'chained_logic', '_optimize_or', 'Flatten', 'Concatenate', 'ForAll', 'Entity', 'SetOf', 'An', 'The',
             'Infer', 'ElseIf', 'Union', 'select_one_or_select_many_or_infer', '_extract_variables_and_expression', 'Comparator',
             'in_']


def term(v):
    """structural fingerprint of a symbolic value"""
    if isinstance(v, Obj):
        if v.kind == 'arg':
            return v.data['tag']
        if v.kind == 'star':
            return ('*', term(v.data['of']))
        if v.kind == 'built':
            return (v.data['fn'], tuple(term(a) for a in v.data['args']), tuple(sorted((k, term(x)) for k, x in v.data['kwargs'].items())))
        if v.kind == 'part':
            return ('part', term(v.data['of']), v.data['i'])
        return ('obj', v.kind)
    if isinstance(v, C):
        return ('const', repr(v.v.name if isinstance(v.v, Ref) else v.v))
    if isinstance(v, (Lst, Tup)):
        return ('seq',) + tuple(term(x) for x in v.items)
    return ('?', repr(v))


class Builds(LibModel):
    cls = None
    modes = ('sound',)
    props = ('C18',)
    params = ()            # names of the plain parameters
    varargs = None         # name of *args, if any
    kwonly = ()
    tuple_results = ('_extract_variables_and_expression',)

    def expected(self, a):
        raise NotImplementedError

    def modenv(self):
        env = base_modenv()
        for nm in CALLABLES:
            env[nm] = C(Ref('func', nm))
        env['operator'] = C(Ref('module', 'operator'))
        return env

    def setup(self, eng):
        st = State()
        for p in self.params + self.kwonly:
            st.locals[p] = Obj('arg', {'tag': p})
        if self.varargs:
            st.locals[self.varargs] = Obj('arg', {'tag': '*' + self.varargs})
        return [st]

    def accepts_star(self, f):
        return isinstance(f, C) and isinstance(f.v, Ref) and f.v.name in CALLABLES

    def call(self, eng, st, f, args, kwargs, node):
        if isinstance(f, C) and isinstance(f.v, Ref) and f.v.kind == 'func' and f.v.name in CALLABLES:
            b = Obj('built', {'fn': f.v.name, 'args': list(args), 'kwargs': dict(kwargs)})
            if f.v.name in self.tuple_results:
                return [(st, Tup([Obj('part', {'of': b, 'i': 0}), Obj('part', {'of': b, 'i': 1})]))]
            return [(st, b)]
        return super().call(eng, st, f, args, kwargs, node)

    def f_isinstance(self, eng, st, args, kwargs, node):
        if args and isinstance(args[0], Obj) and args[0].kind == 'arg':
            # what kind of object an argument is is not known: a type test on it may go either way
            return [(st, ZV(z3.FreshConst(Z.B, 'argument_type_test'), 'bool'))]
        return super().f_isinstance(eng, st, args, kwargs, node)

    def getattr(self, eng, st, recv, name):
        if isinstance(recv, Obj) and recv.kind == 'arg' and name.startswith('_') and name.endswith('_') and not name.startswith('__'):
            return [(st, Obj('built', {'fn': 'attr', 'args': [recv, C(name)], 'kwargs': {}}))]
        return super().getattr(eng, st, recv, name)

    def on_exit(self, eng, o):
        name = self.qual.split(':')[1]
        if o.sig != RETURN:
            eng.oblige(o.st, f"C18/build/{name}/returns", z3.BoolVal(False))
            return
        got = term(o.val)
        want = self.expected({p: p for p in self.params + self.kwonly} | ({self.varargs: ('*', '*' + self.varargs)} if self.varargs else {}))
        ok = got in want if isinstance(want, list) else got == want
        eng.oblige(o.st, f"C18/build/{name}/returns-the-promised-node-over-all-its-arguments", z3.BoolVal(bool(ok)),
                   got=repr(got), want=repr(want))

    def signature(self, ob, model):
        return {'got': ob.meta.get('got')}


def b(fn, *args, **kwargs):
    return (fn, tuple(args), tuple(sorted(kwargs.items())))


def const(x):
    return ('const', repr(x))


def _mk(name, qual, props, params=(), varargs=None, kwonly=(), expected=None, **extra):
    return type(name, (Builds,), dict(qual=qual, props=props, params=tuple(params), varargs=varargs, kwonly=tuple(kwonly),
                                      expected=lambda self, a: expected(a), **extra))


BuildNot = _mk('BuildNot', 'entity:not_', ('C03', 'C18'), ['operand'], expected=lambda a: b('Not', a['operand']))
BuildAnd = _mk('BuildAnd', 'entity:and_', ('C18', 'C01', 'C02'), varargs='conditions',
               expected=lambda a: b('chained_logic', const('AND'), a['conditions']))
BuildOr = _mk('BuildOr', 'entity:or_', ('C18', 'C01', 'C02'), varargs='conditions',
              expected=lambda a: b('chained_logic', const('_optimize_or'), a['conditions']))
BuildFlatten = _mk('BuildFlatten', 'entity:flatten', ('C16',), ['var'], expected=lambda a: b('Flatten', a['var']))
BuildConcatenate = _mk('BuildConcatenate', 'entity:concatenate', ('C17',), ['var'], expected=lambda a: b('Concatenate', a['var']))
BuildForAll = _mk('BuildForAll', 'entity:for_all', ('C10',), ['universal_variable', 'condition'],
                  expected=lambda a: b('ForAll', a['universal_variable'], a['condition']))


def _descr(cls, sel):
    def exp(a):
        ex = b('_extract_variables_and_expression', sel(a), a['properties'])
        return b(cls, selected_variables=('part', ex, 0), _child_=('part', ex, 1))
    return exp


BuildEntity = _mk('BuildEntity', 'entity:entity', ('C01', 'C15', 'C18'), ['selected_variable'], varargs='properties',
                  expected=_descr('Entity', lambda a: ('seq', a['selected_variable'])))
BuildSetOf = _mk('BuildSetOf', 'entity:set_of', ('C02', 'C15', 'C18'), ['selected_variables'], varargs='properties',
                 expected=_descr('SetOf', lambda a: a['selected_variables']))


def _quant(q):
    return lambda a: b('select_one_or_select_many_or_infer', const(q), a['entity_'], a['properties'], has_type=a['has_type'])


BuildAn = _mk('BuildAn', 'entity:an', ('C01', 'C06'), ['entity_'], varargs='properties', kwonly=['has_type'], expected=_quant('An'))
BuildThe = _mk('BuildThe', 'entity:the', ('C06',), ['entity_'], varargs='properties', kwonly=['has_type'], expected=_quant('The'))
BuildInfer = _mk('BuildInfer', 'entity:infer', ('C11',), ['entity_'], varargs='properties', kwonly=['has_type'], expected=_quant('Infer'))


class BuildOptimizeOr(Builds):
    """symbolic._optimize_or(left, right): a disjunction node over (left, right), in that order - an else-if or a union,
    whichever the variable sets suggest (both mean Den(left) or Den(right); the choice is an optimisation)"""
    qual = 'symbolic:_optimize_or'
    props = ('C18', 'C01', 'C02')
    params = ('left', 'right')

    def modenv(self):
        env = super().modenv()
        env['Literal'] = C(Ref('class', 'Literal'))
        return env

    def getattr(self, eng, st, recv, name):
        if isinstance(recv, Obj) and recv.kind == 'arg' and name == '_unique_variables_':
            return [(st, Obj('varset', {'of': recv.data['tag']}))]
        if isinstance(recv, Obj) and recv.kind == 'varset':
            return [(st, Meth(recv, name))]
        return super().getattr(eng, st, recv, name)

    def call(self, eng, st, f, args, kwargs, node):
        if isinstance(f, Meth) and isinstance(f.recv, Obj) and f.recv.kind == 'varset' and f.name == 'filter':
            return [(st, Obj('varset', {'of': f.recv.data['of'], 'filtered': True}))]
        return super().call(eng, st, f, args, kwargs, node)

    def compare(self, eng, st, op, a, b_):
        if isinstance(a, Obj) and a.kind == 'varset' and isinstance(b_, Obj) and b_.kind == 'varset' and isinstance(op, (ast.Eq, ast.NotEq)):
            return ZV(z3.FreshConst(Z.B, 'same_variables'), 'bool')
        return super().compare(eng, st, op, a, b_) if hasattr(super(), 'compare') else None

    def expected(self, a):
        return [b('ElseIf', a['left'], a['right']), b('Union', a['left'], a['right'])]


class PropertiesToTree(Builds):
    """symbolic.properties_to_expression_tree(var, properties): one equality `var.<field> == value` per given field - every
    field, whatever its value (None and falsy values are values) -, the single one as it is, several chained by AND, none
    dropped (C13)"""
    qual = 'symbolic:properties_to_expression_tree'
    props = ('C13', 'C19')      # C19: a field constraint is a value position - None / falsy constants constrain like any other
    nfields = (0, 1, 2, 3)

    def setup(self, eng):
        sts = []
        for k in self.nfields:
            st = State()
            st.locals['var'] = Obj('arg', {'tag': 'var'})
            st.locals['properties'] = Obj('pymap', {'items': [(C(f"f{i + 1}"), Obj('arg', {'tag': f"v{i + 1}"})) for i in range(k)]})
            st.ghost['k'] = k
            st.path.append(f"fields={k}")
            sts.append(st)
        return sts

    def with_stmt(self, eng, st, s):
        # `with symbolic_mode():` - the block builds expressions; the manager itself has its own contract (C08)
        return eng.exec_block(s.body, st)

    def f_getattr(self, eng, st, args, kwargs, node):
        o, nm = args[0], args[1]
        if isinstance(o, Obj) and o.kind == 'arg' and isinstance(nm, C):
            return [(st, Obj('built', {'fn': 'attr', 'args': [o, nm], 'kwargs': {}}))]
        return super().f_getattr(eng, st, args, kwargs, node)

    def compare(self, eng, st, op, a, b_):
        if isinstance(a, Obj) and a.kind == 'built' and a.data['fn'] == 'attr' and isinstance(op, ast.Eq):
            return Obj('built', {'fn': 'eq', 'args': [a, b_], 'kwargs': {}})
        if isinstance(a, Obj) and a.kind == 'arg' and isinstance(op, (ast.Is, ast.IsNot, ast.Eq, ast.NotEq)):
            # the value of a field is arbitrary: any test on it may go either way
            return ZV(z3.FreshConst(Z.B, 'value_test'), 'bool')
        return super().compare(eng, st, op, a, b_) if hasattr(super(), 'compare') else None

    def obj_truth(self, eng, st, v):
        if v.kind == 'arg':
            return z3.FreshConst(Z.B, 'value_truthy')
        return None

    def getattr(self, eng, st, recv, name):
        if isinstance(recv, Obj) and recv.kind == 'built' and recv.data['fn'] == 'eq' and name == 'left':
            return [(st, recv.data['args'][0])]
        if isinstance(recv, Obj) and recv.kind == 'pymap':
            return [(st, Meth(recv, name))]
        return super().getattr(eng, st, recv, name)

    def on_exit(self, eng, o):
        k = o.st.ghost['k']
        if o.sig != RETURN or not isinstance(o.val, Tup) or len(o.val.items) != 2:
            eng.oblige(o.st, "C13/properties/returns-expression-and-attributes", z3.BoolVal(False))
            return
        expr, attrs = o.val.items
        eqs = [b('eq', b('attr', 'var', const(f"f{i + 1}")), f"v{i + 1}") for i in range(k)]
        if k == 0:
            ok = isinstance(expr, C) and expr.v is None
        elif k == 1:
            ok = term(expr) == eqs[0]
        else:
            ok = term(expr) == b('chained_logic', const('AND'), ('*', ('seq',) + tuple(eqs)))
        eng.oblige(o.st, "C13/properties/one-equality-per-given-field-none-dropped", z3.BoolVal(bool(ok)), got=repr(term(expr)))
        ok2 = isinstance(attrs, Lst) and [term(x) for x in attrs.items] == [b('attr', 'var', const(f"f{i + 1}")) for i in range(k)]
        eng.oblige(o.st, "C13/properties/attribute-expressions-returned-in-order", z3.BoolVal(bool(ok2)))


class BuildLet(Builds):
    """entity.let(type_, domain, name): a variable over exactly the supplied domain whenever one is supplied - also an empty
    or otherwise falsy one -, and over the registry only when none is (C13, C14)"""
    qual = 'entity:let'
    props = ('C13', 'C14', 'C01')       # C01: an explicitly supplied domain - also an empty one - is the variable's domain

    def modenv(self):
        env = super().modenv()
        env['From'] = C(Ref('func', 'From'))
        env['symbols_registry'] = Obj('pylist', {})
        env['ValueError'] = C(Ref('class', 'ValueError'))
        return env

    def setup(self, eng):
        sts = []
        for given in (False, True):
            for named in (False, True):
                st = State()
                st.locals['type_'] = C(Ref('func', 'TYPE'))
                st.locals['domain'] = Obj('arg', {'tag': 'domain'}) if given else NONE
                st.locals['name'] = Obj('arg', {'tag': 'name'}) if named else NONE
                st.ghost['given'] = given
                st.ghost['named'] = named
                st.ghost['named_as'] = None
                st.path.append(f"domain {'given' if given else 'not given'}, name {'given' if named else 'not given'}")
                sts.append(st)
        return sts

    def with_stmt(self, eng, st, s):
        return eng.exec_block(s.body, st)

    def f_any(self, eng, st, args, kwargs, node):
        return [(st, TRUE)]        # precondition: the type is a registered @symbol class

    def compare(self, eng, st, op, a, b_):
        if isinstance(a, Obj) and a.kind == 'arg' and isinstance(b_, C) and b_.v is None and isinstance(op, (ast.Is, ast.IsNot)):
            return C(isinstance(op, ast.IsNot))       # a supplied argument is not None
        return super().compare(eng, st, op, a, b_) if hasattr(super(), 'compare') else None

    def obj_truth(self, eng, st, v):
        if v.kind == 'arg':
            return z3.FreshConst(Z.B, 'argument_truthy')      # a supplied domain may be empty / falsy
        return None

    def call(self, eng, st, f, args, kwargs, node):
        if isinstance(f, C) and isinstance(f.v, Ref) and f.v.name in ('TYPE', 'From'):
            return [(st, Obj('built', {'fn': f.v.name, 'args': list(args), 'kwargs': dict(kwargs)}))]
        return super().call(eng, st, f, args, kwargs, node)

    def setattr(self, eng, st, recv, name, v):
        if isinstance(recv, Obj) and recv.kind == 'built' and name == '_name__':
            st = st.clone()
            st.ghost['named_as'] = v
            return [st]
        return None

    def on_exit(self, eng, o):
        st = o.st
        if o.sig != RETURN:
            eng.oblige(st, "C13/let/returns", z3.BoolVal(False))
            return
        want = b('TYPE', b('From', 'domain')) if st.ghost['given'] else b('TYPE')
        eng.oblige(st, "C13/let/variable-over-exactly-the-supplied-domain-registry-only-when-none-is-supplied",
                   z3.BoolVal(term(o.val) == want), got=repr(term(o.val)))
        na = st.ghost['named_as']
        eng.oblige(st, "C13/let/name-is-set-exactly-when-given",
                   z3.BoolVal((na is not None and term(na) == 'name') if st.ghost['named'] else na is None))


CONTRACTS = [PropertiesToTree, BuildLet, BuildNot, BuildAnd, BuildOr, BuildFlatten, BuildConcatenate, BuildForAll, BuildEntity, BuildSetOf, BuildAn,
             BuildThe, BuildInfer, BuildOptimizeOr]
