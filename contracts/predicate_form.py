"""C13: predicate-form construction.  `predicate.update_domain_and_kwargs_from_args` splits the constructor arguments
into the domain (a leading From(..)) and field constraints: the j-th positional field argument (not counting the domain)
is bound to the j-th constructor parameter after `self`, keyword arguments are kept.
`extract_selected_variable_and_expression`: the supplied domain is filtered lazily by isinstance(., T).
Everything here has a concrete spine (argument lists of length 0..3), so the functions are executed symbolically as they
are, for every argument layout."""
from __future__ import annotations

import ast

import z3

from eqlvc import z as Z
from eqlvc.interp import (SV, ZV, C, D, Tup, Lst, Obj, Meth, Closure, Ref, NONE, TRUE, FALSE, State, Outcome,
                          OutOfSubset, NEXT, CONTINUE, BREAK, RETURN, RAISE, GENEXIT)
from eqlvc.libmodel import LibModel, base_modenv

PARAMS = ['self', 'p1', 'p2', 'p3']


class UpdateDomainKwargs(LibModel):
    qual = 'predicate:update_domain_and_kwargs_from_args'
    cls = None
    props = ('C13',)
    modes = ('sound',)
    trusted = ("update_cls_args: cls_args[cls] is list(inspect.signature(cls.__init__).parameters) = ['self', p1, p2, ...]",)

    def modenv(self):
        env = base_modenv()
        env['cls_args'] = Obj('cls_args')
        env['update_cls_args'] = C(Ref('func', 'update_cls_args'))
        return env

    def setup(self, eng):
        sts = []
        for with_from in (False, True):
            for from_pos in ([0, 1] if with_from else [None]):
                for k in (0, 1, 2):
                    for pre_kw in (False, True):
                        if from_pos == 1 and k == 0:
                            continue
                        st = State()
                        fields = [Obj('uservalue', {'tag': f"a{j + 1}"}) for j in range(k)]
                        args = list(fields)
                        if with_from:
                            args.insert(from_pos, Obj('from', {}))
                        st.locals['symbolic_cls'] = C(Ref('class', 'T'))
                        st.locals['args'] = Tup(args)
                        kw = Obj('kwdict', {})
                        st.ghost['kw'] = {'p3': 'k3'} if pre_kw else {}
                        st.locals['kwargs'] = kw
                        st.ghost['layout'] = {'with_from': with_from, 'from_pos': from_pos, 'k': k, 'pre_kw': pre_kw,
                                              'args': args}
                        st.path.append(f"args=[{'From,' if from_pos == 0 else ''}{','.join('a%d' % (j + 1) for j in range(k))}"
                                       f"{',From' if from_pos == 1 else ''}],kwargs={'{p3}' if pre_kw else '{}'}")
                        sts.append(st)
        return sts

    def f_update_cls_args(self, eng, st, args, kwargs, node):
        return [(st, NONE)]

    def f_enumerate(self, eng, st, args, kwargs, node):
        (o,) = args
        if isinstance(o, (Lst, Tup)):
            return [(st, Lst([Tup([C(i), x]) for i, x in enumerate(o.items)]))]
        raise OutOfSubset("enumerate", node)

    def f_isinstance(self, eng, st, args, kwargs, node):
        o, cls = args
        if isinstance(o, Obj) and o.kind in ('from', 'uservalue') and isinstance(cls, C) and cls.v == Ref('class', 'From'):
            return [(st, C(o.kind == 'from'))]
        return super().f_isinstance(eng, st, args, kwargs, node)

    def subscript(self, eng, st, recv, k):
        if isinstance(recv, Obj) and recv.kind == 'cls_args':
            return [(st, Lst([C(p) for p in PARAMS]))]
        return None

    def setitem(self, eng, st, recv, k, v):
        if isinstance(recv, Obj) and recv.kind == 'kwdict' and isinstance(k, C):
            st = st.clone()
            kw = dict(st.ghost['kw'])
            kw[k.v] = v.data.get('tag') if isinstance(v, Obj) and v.kind == 'uservalue' else repr(v)
            st.ghost['kw'] = kw
            return [st]
        return None

    def getattr(self, eng, st, recv, name):
        if isinstance(recv, C) and isinstance(recv.v, Ref) and recv.v.kind == 'class' and name == '__name__':
            return [(st, C('T'))]
        return super().getattr(eng, st, recv, name)

    def e_binop_add(self, a, b):
        return C(a.v + b.v)

    def on_exit(self, eng, o):
        st = o.st
        lay = st.ghost['layout']
        tag = st.path[0]
        if lay['from_pos'] == 1:
            # a domain that is not the first positional argument is rejected
            eng.oblige(st, "C13/split/domain-must-come-first", z3.BoolVal(o.sig == RAISE), layout=tag)
            return
        if o.sig != RETURN or not isinstance(o.val, Tup):
            eng.oblige(st, "C13/split/returns-domain-and-kwargs", z3.BoolVal(False), layout=tag)
            return
        dom, kw = o.val.items
        eng.oblige(st, "C13/split/domain-is-the-From-argument",
                   z3.BoolVal((isinstance(dom, Obj) and dom.kind == 'from') if lay['with_from'] else (isinstance(dom, C) and dom.v is None)),
                   layout=tag)
        want = {'p3': 'k3'} if lay['pre_kw'] else {}
        for j in range(lay['k']):
            want[PARAMS[j + 1]] = f"a{j + 1}"
        eng.oblige(st, "C13/split/positional-field-j-binds-parameter-j", z3.BoolVal(st.ghost['kw'] == want), layout=tag,
                   got=dict(st.ghost['kw']), want=want)

    def signature(self, ob, model):
        return {'layout': ob.meta.get('layout'), 'got': ob.meta.get('got'), 'want': ob.meta.get('want')}


CONTRACTS = [UpdateDomainKwargs]
