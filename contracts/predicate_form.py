"""C13: predicate-form construction.  `predicate.update_domain_and_kwargs_from_args` splits the constructor arguments
into the domain (a leading From(..)) and field constraints: the j-th positional field argument (not counting the domain)
is bound to the j-th constructor parameter after `self`, keyword arguments are kept.
`extract_selected_variable_and_expression`: the supplied domain is filtered lazily by isinstance(., T).
Everything here has a concrete spine (argument lists of length 0..3), so the functions are executed symbolically as they
are, for every argument layout."""
from __future__ import annotations

import ast

import z3

from eqlvc import z as Z
from eqlvc.interp import (SV, ZV, C, D, Tup, Lst, Obj, Meth, Closure, Ref, NONE, TRUE, FALSE, State, Outcome,
                          OutOfSubset, NEXT, CONTINUE, BREAK, RETURN, RAISE, GENEXIT)
from eqlvc.libmodel import LibModel, base_modenv

PARAMS = ['self', 'p1', 'p2', 'p3']


class UpdateDomainKwargs(LibModel):
    qual = 'predicate:update_domain_and_kwargs_from_args'
    cls = None
    props = ('C13',)
    modes = ('sound',)
    trusted = ("update_cls_args: cls_args[cls] is list(inspect.signature(cls.__init__).parameters) = ['self', p1, p2, ...] "
               "(proved separately: contract UpdateClsArgs)",)

    def modenv(self):
        env = base_modenv()
        env['cls_args'] = Obj('cls_args')
        env['update_cls_args'] = C(Ref('func', 'update_cls_args'))
        return env

    def setup(self, eng):
        sts = []
        for with_from in (False, True):
            for from_pos in ([0, 1] if with_from else [None]):
                for k in (0, 1, 2):
                    for pre_kw in (False, True):
                        if from_pos == 1 and k == 0:
                            continue
                        st = State()
                        fields = [Obj('uservalue', {'tag': f"a{j + 1}"}) for j in range(k)]
                        args = list(fields)
                        if with_from:
                            args.insert(from_pos, Obj('from', {}))
                        st.locals['symbolic_cls'] = C(Ref('class', 'T'))
                        st.locals['args'] = Tup(args)
                        kw = Obj('kwdict', {})
                        st.ghost['kw'] = {'p3': 'k3'} if pre_kw else {}
                        st.locals['kwargs'] = kw
                        st.ghost['layout'] = {'with_from': with_from, 'from_pos': from_pos, 'k': k, 'pre_kw': pre_kw,
                                              'args': args}
                        st.path.append(f"args=[{'From,' if from_pos == 0 else ''}{','.join('a%d' % (j + 1) for j in range(k))}"
                                       f"{',From' if from_pos == 1 else ''}],kwargs={'{p3}' if pre_kw else '{}'}")
                        sts.append(st)
        return sts

    def f_update_cls_args(self, eng, st, args, kwargs, node):
        return [(st, NONE)]

    def f_enumerate(self, eng, st, args, kwargs, node):
        (o,) = args
        if isinstance(o, (Lst, Tup)):
            return [(st, Lst([Tup([C(i), x]) for i, x in enumerate(o.items)]))]
        raise OutOfSubset("enumerate", node)

    def f_isinstance(self, eng, st, args, kwargs, node):
        o, cls = args
        if isinstance(o, Obj) and o.kind in ('from', 'uservalue') and isinstance(cls, C) and cls.v == Ref('class', 'From'):
            return [(st, C(o.kind == 'from'))]
        return super().f_isinstance(eng, st, args, kwargs, node)

    def subscript(self, eng, st, recv, k):
        if isinstance(recv, Obj) and recv.kind == 'cls_args':
            return [(st, Lst([C(p) for p in PARAMS]))]
        return None

    def setitem(self, eng, st, recv, k, v):
        if isinstance(recv, Obj) and recv.kind == 'kwdict' and isinstance(k, C):
            st = st.clone()
            kw = dict(st.ghost['kw'])
            kw[k.v] = v.data.get('tag') if isinstance(v, Obj) and v.kind == 'uservalue' else repr(v)
            st.ghost['kw'] = kw
            return [st]
        return None

    def getattr(self, eng, st, recv, name):
        if isinstance(recv, C) and isinstance(recv.v, Ref) and recv.v.kind == 'class' and name == '__name__':
            return [(st, C('T'))]
        return super().getattr(eng, st, recv, name)

    def e_binop_add(self, a, b):
        return C(a.v + b.v)

    def on_exit(self, eng, o):
        st = o.st
        lay = st.ghost['layout']
        tag = st.path[0]
        if lay['from_pos'] == 1:
            # a domain that is not the first positional argument is rejected
            eng.oblige(st, "C13/split/domain-must-come-first", z3.BoolVal(o.sig == RAISE), layout=tag)
            return
        if o.sig != RETURN or not isinstance(o.val, Tup):
            eng.oblige(st, "C13/split/returns-domain-and-kwargs", z3.BoolVal(False), layout=tag)
            return
        dom, kw = o.val.items
        eng.oblige(st, "C13/split/domain-is-the-From-argument",
                   z3.BoolVal((isinstance(dom, Obj) and dom.kind == 'from') if lay['with_from'] else (isinstance(dom, C) and dom.v is None)),
                   layout=tag)
        want = {'p3': 'k3'} if lay['pre_kw'] else {}
        for j in range(lay['k']):
            want[PARAMS[j + 1]] = f"a{j + 1}"
        eng.oblige(st, "C13/split/positional-field-j-binds-parameter-j", z3.BoolVal(st.ghost['kw'] == want), layout=tag,
                   got=dict(st.ghost['kw']), want=want)

    def signature(self, ob, model):
        return {'layout': ob.meta.get('layout'), 'got': ob.meta.get('got'), 'want': ob.meta.get('want')}


CONTRACTS = [UpdateDomainKwargs]


from eqlvc.libmodel import val_isa, str_const  # noqa: E402


class ExtractSelected(LibModel):
    """predicate.extract_selected_variable_and_expression: for a supplied iterable domain the variable's domain source is the
    LAZY filter of it by isinstance(., T) (subclasses included) - a source of its own, the From object that was passed in is
    left as it is -, the variable is built over that domain with type T, and the field
    constraints are handed to properties_to_expression_tree unchanged (C13; laziness for C07)."""
    qual = 'predicate:extract_selected_variable_and_expression'
    cls = None
    props = ('C13', 'C07', 'C14')
    modes = ('sound',)
    trusted = ("properties_to_expression_tree builds the left-folded AND of Attribute(var, f) == v (contract PropertiesToTree)",
               "builtin filter() is lazy (A6)")

    def modenv(self):
        env = base_modenv()
        env['Variable'] = C(Ref('class', 'Variable'))
        env['properties_to_expression_tree'] = C(Ref('func', 'properties_to_expression_tree'))
        env['get_cache_keys_for_class_'] = C(Ref('func', 'get_cache_keys_for_class_'))
        env['yield_class_values_from_cache'] = C(Ref('func', 'yield_class_values_from_cache'))
        env['index_class_cache'] = C(Ref('func', 'index_class_cache'))
        return env

    def setup(self, eng):
        sts = []
        for dom_case in ('none', 'iterable', 'single'):
            for reg in (False, True):
                st = State()
                st.path.append(f"domain={dom_case},registry={'non-empty' if reg else 'empty'}")
                st.locals['symbolic_cls'] = C(Ref('class', 'T'))
                st.locals['predicate_type'] = NONE
                st.locals['kwargs'] = Obj('kwdict', {'tag': 'given-kwargs'})
                st.ghost['dom_case'] = dom_case
                st.ghost['reg'] = reg
                st.ghost['from'] = {'domain': Obj('userdomain', {'iterable': dom_case == 'iterable'})} if dom_case != 'none' else None
                st.locals['domain'] = Obj('from', {}) if dom_case != 'none' else NONE
                sts.append(st)
        return sts

    def getattr(self, eng, st, recv, name):
        if isinstance(recv, Obj) and recv.kind == 'from' and name == 'domain':
            return [(st, st.ghost['from']['domain'])]
        if isinstance(recv, C) and recv.v == Ref('class', 'Variable') and name == '_cache_':
            return [(st, Obj('registry'))]
        if isinstance(recv, C) and isinstance(recv.v, Ref) and recv.v.kind == 'class' and name == '__name__':
            return [(st, C('T'))]
        return super().getattr(eng, st, recv, name)

    def setattr(self, eng, st, recv, name, v):
        if isinstance(recv, Obj) and recv.kind == 'from' and name == 'domain':
            st = st.clone()
            st.ghost['from'] = {'domain': v}
            return [st]
        return super().setattr(eng, st, recv, name, v)

    def obj_truth(self, eng, st, v):
        if v.kind == 'from':
            return True
        if v.kind == 'cachekeys':
            return st.ghost['reg']
        return None

    def f_get_cache_keys_for_class_(self, eng, st, args, kwargs, node):
        return [(st, Obj('cachekeys'))]

    def f_index_class_cache(self, eng, st, args, kwargs, node):
        return [(st, FALSE)]

    def f_is_iterable(self, eng, st, args, kwargs, node):
        (o,) = args
        if isinstance(o, Obj) and o.kind == 'userdomain':
            return [(st, C(o.data['iterable']))]
        if isinstance(o, Obj) and o.kind == 'filtered':
            return [(st, TRUE)]
        return super().f_is_iterable(eng, st, args, kwargs, node)

    def f_filter(self, eng, st, args, kwargs, node):
        fn, it = args
        return [(st, Obj('filtered', {'fn': fn, 'of': it}))]

    def f_type(self, eng, st, args, kwargs, node):
        (o,) = args
        if isinstance(o, ZV) and o.ty == 'val':
            return [(st, Obj('typeof', {'of': o.t}))]
        raise OutOfSubset("type()", node)

    def compare(self, eng, st, op, a, b):
        if isinstance(op, (ast.Is, ast.IsNot, ast.Eq, ast.NotEq)):
            x, y = (a, b) if isinstance(a, Obj) else (b, a)
            if isinstance(x, Obj) and x.kind == 'typeof' and isinstance(y, C) and isinstance(y.v, Ref) and y.v.kind == 'class':
                r = z3.Function('exact_type', Z.Str, Z.Val, Z.B)(str_const(y.v.name), x.data['of'])
                return ZV(z3.Not(r) if isinstance(op, (ast.IsNot, ast.NotEq)) else r, 'bool')
        return None

    def listcomp(self, eng, st, e):
        # a list comprehension over the user's iterable consumes it here and now (C07: domains are consumed lazily)
        g = e.generators[0]
        its = eng.eval(g.iter, st)
        if len(its) == 1 and isinstance(its[0][1], Obj) and its[0][1].kind == 'userdomain':
            s2 = its[0][0].clone()
            s2.ghost['materialised'] = True
            return [(s2, Obj('materialised_list'))]
        if len(its) == 1 and isinstance(its[0][1], Obj) and its[0][1].kind == 'registry_values':
            # the registry is read here and now (C14: it is read when the variable is evaluated)
            s2 = its[0][0].clone()
            s2.ghost['registry_snapshot'] = True
            return [(s2, Obj('materialised_list'))]
        return super().listcomp(eng, st, e)

    def f_list(self, eng, st, args, kwargs, node):
        if args and isinstance(args[0], Obj) and args[0].kind in ('userdomain', 'filtered'):
            st = st.clone()
            st.ghost['materialised'] = True
            return [(st, Obj('materialised_list'))]
        return super().f_list(eng, st, args, kwargs, node)

    f_tuple = f_list
    f_sorted = f_list

    def f_yield_class_values_from_cache(self, eng, st, args, kwargs, node):
        return [(st, Obj('registry_values', {'args': args, 'kwargs': kwargs}))]

    def genexp(self, eng, st, e):
        return [(st, Obj('genexp', {'node': e, 'env': dict(st.locals)}))]

    def call(self, eng, st, f, args, kwargs, node):
        if isinstance(f, C) and f.v == Ref('class', 'From'):
            return [(st, Obj('from_new', {'domain': args[0]}))]
        if isinstance(f, C) and f.v == Ref('class', 'Variable'):
            st = st.clone()
            st.ghost['variable'] = {'args': args, 'kwargs': kwargs}
            return [(st, Obj('variable'))]
        if isinstance(f, C) and f.v == Ref('func', 'properties_to_expression_tree'):
            st = st.clone()
            st.ghost['ptree_args'] = args
            return [(st, Tup([Obj('expression'), Obj('attrs')]))]
        return super().call(eng, st, f, args, kwargs, node)

    def on_exit(self, eng, o):
        st = o.st
        tag = st.path[0]
        if o.sig != RETURN or not isinstance(o.val, Tup):
            eng.oblige(st, "C13/extract/returns-variable-and-expression", z3.BoolVal(False), case=tag)
            return
        var = st.ghost.get('variable')
        eng.oblige(st, "C13/extract/builds-one-variable-of-type-T",
                   z3.BoolVal(var is not None and len(var['args']) >= 2 and isinstance(var['args'][1], C)
                              and var['args'][1].v == Ref('class', 'T')), case=tag)
        src = var['kwargs'].get('_domain_source_') if var else None
        if st.ghost['dom_case'] != 'none':
            # the From object the caller passed in may be handed to other terms as well (and is the caller's object): it is
            # read, never written
            kept = st.ghost['from']['domain']
            eng.oblige(st, "C13/extract/the-From-object-that-was-passed-in-is-left-as-it-is",
                       z3.BoolVal(isinstance(kept, Obj) and kept.kind == 'userdomain'), case=tag)
        if st.ghost['dom_case'] == 'iterable':
            d = st.ghost['from']['domain'] if isinstance(src, Obj) and src.kind == 'from' else \
                (src.data.get('domain') if isinstance(src, Obj) and src.kind == 'from_new' else None)
            ok = isinstance(d, Obj) and d.kind == 'filtered' and isinstance(d.data['of'], Obj) and d.data['of'].kind == 'userdomain'
            eng.oblige(st, "C13/extract/domain-is-a-lazy-filter-of-the-supplied-iterable", z3.BoolVal(bool(ok)), case=tag)
            if ok:
                v = z3.Const('elem', Z.Val)
                outs = self.call_closure(eng, st, d.data['fn'], [ZV(v, 'val')], {}, None)
                res = [eng.to_z3_bool(eng.truth(s2, r)) for s2, r in outs]
                eng.oblige(st, "C13/extract/filter-predicate-is-isinstance-of-T",
                           z3.And(*[r == val_isa(str_const('T'), v) for r in res]) if len(res) == 1 else z3.BoolVal(False), case=tag)
        elif st.ghost['dom_case'] == 'single':
            ok = isinstance(src, Obj) and src.kind == 'from' and st.ghost['from']['domain'].kind == 'userdomain'
            eng.oblige(st, "C13/extract/single-value-domain-is-kept", z3.BoolVal(bool(ok)), case=tag)
        if st.ghost['dom_case'] == 'none' and st.ghost['reg']:
            # C14: no domain given, something registered: the variable ranges over the registry of T and its subclasses,
            # read (classes and instances) when the values are first pulled
            d = src.data.get('domain') if isinstance(src, Obj) and src.kind == 'from_new' else None
            lazy = isinstance(d, Obj) and d.kind == 'genexp' and not st.ghost.get('registry_snapshot')
            eng.oblige(st, "C14/extract/registry-is-read-lazily-not-at-declaration", z3.BoolVal(bool(lazy)), case=tag)
            ok = False
            if lazy:
                it = d.data['node'].generators[0].iter
                ok = (isinstance(it, ast.Call) and isinstance(it.func, ast.Name) and it.func.id == 'yield_class_values_from_cache'
                      and len(it.args) >= 2 and isinstance(it.args[1], ast.Name) and it.args[1].id == 'symbolic_cls'
                      and isinstance(it.args[0], ast.Attribute) and it.args[0].attr == '_cache_'
                      and not any(k.arg == 'cache_keys' and not (isinstance(k.value, ast.Constant) and k.value.value is None)
                                  for k in it.keywords)
                      and not d.data['node'].generators[0].ifs and len(d.data['node'].generators) == 1
                      and isinstance(d.data['node'].generators[0].target, ast.Tuple) and len(d.data['node'].generators[0].target.elts) == 2
                      and isinstance(d.data['node'].elt, ast.Name)
                      and d.data['node'].elt.id == getattr(d.data['node'].generators[0].target.elts[1], 'id', None))
            eng.oblige(st, "C14/extract/ranges-over-the-registry-of-T-with-classes-looked-up-at-evaluation", z3.BoolVal(bool(ok)),
                       case=tag)
        eng.oblige(st, "C07/extract/the-supplied-iterable-is-not-consumed-here", z3.BoolVal(not st.ghost.get('materialised')), case=tag)
        pt = st.ghost.get('ptree_args')
        eng.oblige(st, "C13/extract/field-constraints-are-passed-on-unchanged",
                   z3.BoolVal(pt is not None and isinstance(pt[0], Obj) and pt[0].kind == 'variable'
                              and isinstance(pt[1], Obj) and pt[1].kind == 'kwdict'), case=tag)

    def f_isinstance(self, eng, st, args, kwargs, node):
        o, cls = args
        if isinstance(o, ZV) and o.ty == 'val' and isinstance(cls, C) and cls.v == Ref('class', 'T'):
            return [(st, ZV(val_isa(str_const('T'), o.t), 'bool'))]
        return super().f_isinstance(eng, st, args, kwargs, node)

    def signature(self, ob, model):
        return {'case': ob.meta.get('case')}


CONTRACTS += [ExtractSelected]


class UpdateClsArgs(LibModel):
    """predicate.update_cls_args(cls): what positional arguments of a @symbol class are mapped to (rule heads, C11;
    predicate-form terms, C13) - for a class seen for the first time, cls_args[cls] becomes the parameter names of the class's
    own constructor, in the constructor's order: list(inspect.signature(cls.__init__).parameters.keys()); a class already
    known is left alone.  (Discharges the assumption the contracts of update_domain_and_kwargs_from_args and
    instantiate_class_and_update_cache make about cls_args.)"""
    qual = 'predicate:update_cls_args'
    cls = None
    props = ('C13', 'C11', 'C14')
    modes = ('sound',)
    trusted = ("inspect.signature(f).parameters lists the parameters of f in declaration order (standard library)",)

    def modenv(self):
        env = base_modenv()
        env['cls_args'] = Obj('clsargs', {})
        env['inspect'] = C(Ref('module', 'inspect'))
        return env

    def setup(self, eng):
        st = State()
        st.locals['symbolic_cls'] = Obj('theclass', {})
        st.ghost['stored'] = []
        st.ghost['known'] = z3.Bool('class_already_known')
        return [st]

    def getattr(self, eng, st, recv, name):
        if isinstance(recv, C) and recv.v == Ref('module', 'inspect') and name == 'signature':
            return [(st, C(Ref('func', 'inspect.signature')))]
        if isinstance(recv, Obj) and recv.kind == 'theclass' and name == '__init__':
            return [(st, Obj('ctor', {}))]
        if isinstance(recv, Obj) and recv.kind == 'sig' and name == 'parameters':
            return [(st, Obj('params', {'of': recv.data['of']}))]
        return super().getattr(eng, st, recv, name)

    def f_inspect_signature(self, eng, st, args, kwargs, node):
        return [(st, Obj('sig', {'of': args[0].kind if args and isinstance(args[0], Obj) else '?'}))]

    def obj_params_keys(self, eng, st, recv, args, kwargs, node):
        return [(st, Obj('paramkeys', {'of': recv.data['of']}))]

    def f_list(self, eng, st, args, kwargs, node):
        if len(args) == 1 and isinstance(args[0], Obj) and args[0].kind in ('paramkeys', 'params'):
            return [(st, Obj('paramlist', {'of': args[0].data['of']}))]
        return super().f_list(eng, st, args, kwargs, node)

    def compare(self, eng, st, op, a, b):
        if isinstance(op, (ast.In, ast.NotIn)) and isinstance(a, Obj) and a.kind == 'theclass' and isinstance(b, Obj) and b.kind == 'clsargs':
            k = st.ghost['known']
            return ZV(z3.Not(k) if isinstance(op, ast.NotIn) else k, 'bool')
        return None

    def setitem(self, eng, st, recv, k, v):
        if isinstance(recv, Obj) and recv.kind == 'clsargs':
            st = st.clone()
            st.ghost['stored'] = st.ghost['stored'] + [(k, v)]
            return [st]
        return None

    def on_exit(self, eng, o):
        st = o.st
        if o.sig not in (NEXT, RETURN):
            eng.oblige(st, "C11/cls-args/finishes-normally", z3.BoolVal(False))
            return
        stored = st.ghost['stored']
        ok_new = (len(stored) == 1 and isinstance(stored[0][0], Obj) and stored[0][0].kind == 'theclass'
                  and isinstance(stored[0][1], Obj) and stored[0][1].kind == 'paramlist' and stored[0][1].data['of'] == 'ctor')
        eng.oblige(st, "C11/cls-args/a-new-class-gets-the-parameter-names-of-its-own-constructor-in-order",
                   z3.Implies(z3.Not(st.ghost['known']), z3.BoolVal(bool(ok_new))))
        eng.oblige(st, "C11/cls-args/a-known-class-is-left-alone", z3.Implies(st.ghost['known'], z3.BoolVal(not stored)))

    def signature(self, ob, model):
        return {}


CONTRACTS += [UpdateClsArgs]
