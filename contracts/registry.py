"""All contracts, by name."""
from . import symbolic_nodes, negation, quantifiers, mappings, toplevel, cache

MODULES = [symbolic_nodes, negation, quantifiers, mappings, toplevel, cache]


def all_contracts():
    out = []
    for m in MODULES:
        out.extend(m.CONTRACTS)
    return out


def by_name(name):
    for c in all_contracts():
        if c.__name__ == name:
            return c
    raise KeyError(name)


P = "proof"
CLAIMS = {
    'C01': dict(level=P, text="Interface contract I (row clauses R0-R6, completeness C1, non-emptiness NE) is proved for every "
                "evaluator on the single-variable path from the current source text: Variable (explicit domain), "
                "DomainMapping + Attribute/Index/Call mappings, Comparator, AND, ElseIf, Not / inverse table, An, Entity, "
                "QueryObjectDescriptor._evaluate_, An.evaluate (the value handed out is the selected binding of each row). By "
                "induction over the condition tree the rows of the root are exactly the domain objects whose condition is "
                "true under the reference semantics Den (Python's operators on the attribute values).",
                note="order / multiplicity of the rows ('each once, in domain order') is argued from R1 + the loop structure in "
                     "DESIGN.md and exercised by the native oracle (bounded, not counted as proved); result caching switched "
                     "off in these obligations (cache transparency is C05); T1 tree-shape, T3, T4 assumptions; LeafExt lemma"),
    'C02': dict(level=P, text="The same interface obligations for the multi-variable path: Comparator with either operand "
                "order, AND threading bindings left to right, ElseIf, QueryObjectDescriptor._evaluate_ with one and two "
                "selected variables (bound ones keep their binding, unbound ones are completed over their domain, all under "
                "one binding), SetOf, Entity: soundness and completeness of the set of rows against Den over the product of "
                "the domains.",
                note="Union (disjunction over different variable sets is currently always built as ElseIf, see DESIGN) and the "
                     "row count clause are not covered deductively; caching off; T1, T3, T4; LeafExt"),
    'C03': dict(level=P, text="Every obligation generated from the current text of Comparator._invert_ (setter), Not and "
                "DomainMapping._evaluate__ is discharged for all operand states: Den_post(Not(c)) == not Den_pre(c) for every "
                "operand class and every operator, including already inverted operands (so Not(Not(c)) means c), and the "
                "evaluators honour the inverted operator / flag.",
                note="order operators read through a total order `key` (DESIGN 2.2); membership uninterpreted; structural "
                     "induction over the tree (A9); recursion of Not assumed by its own contract (measure: height)"),
    'C06': dict(level=P, text="The._evaluate_: with k the number of rows of the descriptor's stream, k=0 raises NoSolutionFound, "
                "k=1 returns that row (re-exporting the selected binding under its own id when there is a single selected "
                "variable, safely for set_of), k>=2 raises MultipleSolutionFound, for every state earlier evaluations may have "
                "left in the node's flags. The.evaluate: evaluates with symbolic mode off, returns _process_result_ of that "
                "row and resets the query on every exit (return and all three exception exits).",
                note="`an` consistency: both quantifiers map _process_result_ over the rows of the same descriptor stream; "
                     "_process_result_ for set_of (UnificationDict) not interpreted"),
    'C08': dict(level=P, text="symbolic_mode and rule_mode (real generator bodies executed, body of the block arbitrary but "
                "balanced): mode cell and expression stack are restored on normal and exceptional exit. An.evaluate: at every "
                "suspension point and at every exit (normal, abandoned, exception) the mode cell equals its value at the "
                "last resume; The.evaluate likewise.",
                note="single context (A5): thread / asyncio schedules are outside this family and not claimed; mode dependent "
                     "construction (@symbol __new__, @predicate wrapper, operator rejection) is covered by the C09/C14 "
                     "contracts where built; induction over nesting depth and histories (A9)"),
    'C09': dict(level=P, text="Precondition propagation: the evaluators require mode None (constructors called during evaluation "
                "are mode dependent); An.evaluate establishes it for every pull of the evaluation whatever the caller did "
                "since the last resume, The.evaluate for its single evaluation; both restore the caller's mode.",
                note="the mode-dependent constructors themselves (hybrid_new, predicate wrapper) are not yet under contract"),
    'C15': dict(level=P, text="An._evaluate__ proved against I with Den(An(descriptor)) = Den(conditions of the descriptor) and "
                "the own id re-exporting the selected binding; a quantifier used as an operand restricts the operand to its "
                "solutions (wd_extra clause in Comparator / DomainMapping); The._evaluate_ re-exports likewise; Entity / SetOf "
                "/ QueryObjectDescriptor._evaluate_ proved for bound and unbound selected variables.",
                note="predicate-form constructor arguments (C13) not included; T1, T3"),
    'C16': dict(level=P, text="Flatten._apply_mapping_ yields exactly one HashedValue per element of the input value in order "
                "(a non-iterable is a singleton): soundness and completeness against MapRel; DomainMapping._evaluate__ keeps "
                "the child's bindings in every row; QueryObjectDescriptor._evaluate_ / SetOf evaluate all selected "
                "expressions of a row under one binding, so the flattened element stays correlated with its parent whether "
                "or not the parent is selected or further conditions exist.",
                note="iteration protocol of user iterables (A6): element j for 0 <= j < len; T1, T3"),
    'C19': dict(level=P, text="R5/C1 of the interface contract at every value-position call site: DomainMapping (attribute, "
                "index, call, flatten), Comparator operands, selected expressions in QueryObjectDescriptor/Entity/SetOf "
                "deliver a row for every binding whatever truthy(value) is; `truthy` is an unconstrained function in the "
                "encoding, so any truthiness guard on a value path yields a counter-model.",
                note="constructor arguments of inferred variables (C11) are outside this check; T1, T3 tree-shape assumptions"),
}
NOT_APPLICABLE = {}
