"""All contracts, by name."""
from . import symbolic_nodes, negation, quantifiers, mappings, toplevel

MODULES = [symbolic_nodes, negation, quantifiers, mappings, toplevel]


def all_contracts():
    out = []
    for m in MODULES:
        out.extend(m.CONTRACTS)
    return out


def by_name(name):
    for c in all_contracts():
        if c.__name__ == name:
            return c
    raise KeyError(name)


P = "proof"
CLAIMS = {
    'C03': dict(level=P, text="Every obligation generated from the current text of Comparator._invert_ (setter), Not and "
                "DomainMapping._evaluate__ is discharged for all operand states: Den_post(Not(c)) == not Den_pre(c) for every "
                "operand class and every operator, including already inverted operands (so Not(Not(c)) means c), and the "
                "evaluators honour the inverted operator / flag.",
                note="order operators read through a total order `key` (DESIGN 2.2); membership uninterpreted; structural "
                     "induction over the tree (A9); recursion of Not assumed by its own contract (measure: height)"),
    'C19': dict(level=P, text="R5/C1 of the interface contract at every value-position call site: DomainMapping (attribute, "
                "index, call, flatten), Comparator operands, selected expressions in QueryObjectDescriptor/Entity/SetOf "
                "deliver a row for every binding whatever truthy(value) is; `truthy` is an unconstrained function in the "
                "encoding, so any truthiness guard on a value path yields a counter-model.",
                note="constructor arguments of inferred variables (C11) are outside this check; T1, T3 tree-shape assumptions"),
}
NOT_APPLICABLE = {}
