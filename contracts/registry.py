"""All contracts, by name."""
from . import symbolic_nodes, negation, quantifiers, mappings, toplevel, cache, required, predicate_form, hashed, constructors, aggregations, rules, rule_build, registry_c14, inference, builders, small

MODULES = [symbolic_nodes, negation, quantifiers, mappings, toplevel, cache, required, predicate_form, hashed, constructors, aggregations, rules, rule_build, registry_c14, inference, builders, small]


def all_contracts():
    out = []
    for m in MODULES:
        out.extend(m.CONTRACTS)
    return out


def by_name(name):
    for c in all_contracts():
        if c.__name__ == name:
            return c
    raise KeyError(name)


P = "proof"
CLAIMS = {
    'C01': dict(level=P, text="Interface contract I (row clauses R0-R6, completeness C1, non-emptiness NE) is proved for every "
                "evaluator on the single-variable path from the current source text: Variable (explicit domain), "
                "DomainMapping + Attribute/Index/Call mappings, Comparator, AND, ElseIf, Not / inverse table, An, Entity, "
                "QueryObjectDescriptor._evaluate_, An.evaluate (the value handed out is the selected binding of each row). By "
                "induction over the condition tree the rows of the root are exactly the domain objects whose condition is "
                "true under the reference semantics Den (Python's operators on the attribute values).",
                note="order / multiplicity of the rows ('each once, in domain order') is argued from R1 + the loop structure in "
                     "DESIGN.md and exercised by the native oracle (bounded, not counted as proved); result caching switched "
                     "off in these obligations (cache transparency is C05); T1 tree-shape, T3, T4 assumptions; LeafExt lemma"),
    'C02': dict(level='other', text="(One recorded finding - rows are returned for an EMPTY product when an unselected variable "
                "over an empty domain is mentioned by one operand of an or_ only - keeps this at level other.)  "
                "The same interface obligations for the multi-variable path: Comparator with either operand "
                "order, AND threading bindings left to right, ElseIf, QueryObjectDescriptor._evaluate_ with one and two "
                "selected variables (bound ones keep their binding, unbound ones are completed over their domain, all under "
                "one binding), SetOf, Entity: soundness and completeness of the set of rows against Den over the product of "
                "the domains.",
                note="Union (disjunction over different variable sets is currently always built as ElseIf, see DESIGN) and the "
                     "row count clause are not covered deductively; caching off; T1, T3, T4; LeafExt"),
    'C03': dict(level=P, text="Every obligation generated from the current text of Comparator._invert_ (setter), Not and "
                "DomainMapping._evaluate__ is discharged for all operand states: Den_post(Not(c)) == not Den_pre(c) for every "
                "operand class and every operator, including already inverted operands (so Not(Not(c)) means c), and the "
                "evaluators honour the inverted operator / flag.",
                note="order operators read through a total order `key` (DESIGN 2.2); membership uninterpreted; structural "
                     "induction over the tree (A9); recursion of Not assumed by its own contract (measure: height)"),
    'C06': dict(level=P, text="The._evaluate_: with k the number of rows of the descriptor's stream, k=0 raises NoSolutionFound, "
                "k=1 returns that row (re-exporting the selected binding under its own id when there is a single selected "
                "variable, safely for set_of), k>=2 raises MultipleSolutionFound, for every state earlier evaluations may have "
                "left in the node's flags. The.evaluate: evaluates with symbolic mode off, returns _process_result_ of that "
                "row and resets the query on every exit (return and all three exception exits).",
                note="`an` consistency: both quantifiers map _process_result_ over the rows of the same descriptor stream; "
                     "_process_result_ for set_of (UnificationDict) not interpreted"),
    'C08': dict(level=P, text="symbolic_mode and rule_mode (real generator bodies executed, body of the block arbitrary but "
                "balanced): mode cell and expression stack are restored on normal and exceptional exit. An.evaluate: at every "
                "suspension point and at every exit (normal, abandoned, exception) the mode cell equals its value at the "
                "last resume; The.evaluate likewise.",
                note="single context (A5): thread / asyncio schedules are outside this family and not claimed; mode dependent "
                     "construction (@symbol __new__, @predicate wrapper, operator rejection) is covered by the C09/C14 "
                     "contracts where built; induction over nesting depth and histories (A9)"),
    'C09': dict(level=P, text="Precondition propagation: the evaluators require mode None (constructors called during evaluation "
                "are mode dependent); An.evaluate establishes it for every pull of the evaluation whatever the caller did "
                "since the last resume, The.evaluate for its single evaluation; both restore the caller's mode.",
                note="the mode-dependent constructors themselves (hybrid_new, predicate wrapper) are not yet under contract"),
    'C15': dict(level='other', text="An._evaluate__ proved against I with Den(An(descriptor)) = Den(conditions of the descriptor) and "
                "the own id re-exporting the selected binding; a quantifier used as an operand restricts the operand to its "
                "solutions (wd_extra clause in Comparator / DomainMapping); The._evaluate_ re-exports likewise; Entity / SetOf "
                "/ QueryObjectDescriptor._evaluate_ proved for bound and unbound selected variables.",
                note="level other: a known finding is recorded (an attribute of a sub-query as the FIRST operand of or_: the "
                     "disjunction asks it for false results and the sub-query's non-solutions come back as rows). The interface "
                     "contract does not see it: its row clauses are stated for every WELL-DEFINED environment extending the row, "
                     "and a row that binds a non-solution of a sub-query has no such environment, so I leaves its label "
                     "unconstrained - a limit of the contract, found by a bounded family. predicate-form constructor arguments "
                     "(C13) not included; T1, T3"),
    'C16': dict(level=P, text="Flatten._apply_mapping_ yields exactly one HashedValue per element of the input value in order "
                "(a non-iterable is a singleton): soundness and completeness against MapRel; DomainMapping._evaluate__ keeps "
                "the child's bindings in every row; QueryObjectDescriptor._evaluate_ / SetOf evaluate all selected "
                "expressions of a row under one binding, so the flattened element stays correlated with its parent whether "
                "or not the parent is selected or further conditions exist; Flatten lists itself among its variable "
                "instances, so the keys of every result cache above it include the element.",
                note="the deductive obligations are for a cold result cache (what is written, under which keys); that replaying "
                     "from the caches gives the same rows for conditions on the element is exercised by the bounded families "
                     "'conditions on the flattened element' (cache on / off) only - the defect they found (caches keyed by the "
                     "parent variable only) was repaired by 488f548; iteration protocol of user iterables (A6): element j for "
                     "0 <= j < len; T1, T3"),
    'C19': dict(level=P, text="R5/C1 of the interface contract at every value-position call site: DomainMapping (attribute, "
                "index, call, flatten), Comparator operands, selected expressions in QueryObjectDescriptor/Entity/SetOf "
                "deliver a row for every binding whatever truthy(value) is; `truthy` is an unconstrained function in the "
                "encoding, so any truthiness guard on a value path yields a counter-model.",
                note="constructor arguments of inferred variables (C11) are outside this check; T1, T3 tree-shape assumptions"),
}
CLAIMS.update({
    'C10': dict(level='other', text="ForAll._evaluate__ (every iteration, no bound): only true rows of the condition are collected, each "
                "restricted to exactly the condition's own non-literal, non-universal variables; every emitted row is a collected "
                "binding merged with the incoming sources; ForAll._required_variables_from_child_ contains the parent's answer "
                "and the universal variable (results for different universal values are not duplicates of each other). The "
                "running intersection over Python lists / sets of dicts is outside the executor's dict model and is covered by "
                "the bounded stand-in only.",
                note="level other: the intersection logic (seed on the first value, intersect afterwards, stop when empty) is "
                     "bounded (native oracle, random small scope), not proved"),
    'C17': dict(level=P, text="Concatenate._evaluate__: when not already bound, exactly one row, emitted after the child's stream "
                "is exhausted, whose value is CAT(n) = the concatenation in stream order of unwrap(value of the child's i-th "
                "row) (loop invariant acc == CAT(i), one-step unfolding; a non-iterable is a singleton); nothing but extend "
                "writes the result list. in_ / contains build Comparator(container, item, operator.contains); its negation is "
                "the not_contains arm of the inverse table (C03 contracts).",
                note="the order of the child's rows is the child's stream order (domain order by the interface, A9); z3 "
                     "sequence theory is used only for concat-congruence"),
    'C18': dict(level=P, text="Every constructor a rewrite goes through returns a node with the intended meaning: the six "
                "comparison dunders build Comparator(self, other, <the operator Python evaluates>) (so a mirrored comparison "
                "means the same), in_ / contains build the same membership comparator, chained_logic combines every condition "
                "exactly once (in any nesting), _extract_variables_and_expression conjoins all conditions. With AND / ElseIf "
                "proved against Den = and / or (C01/C02), Den is invariant under the listed rewrites, and the result set is a "
                "function of Den and the domains as sets.",
                note="Union is never built by or_ on this tree (see DESIGN); IndexedCache.keys sorting is trusted (sorted); the "
                     "bounded metamorphic stand-in exercises all eight rewrites natively"),
    'C07': dict(level=P, text="(i) An.evaluate is a generator function and its first statement that does any work runs inside "
                "the first next(); (ii) HashedIterable.__iter__ replays the memo, then pulls the user's iterator one element "
                "per loop iteration, memoises each element before yielding it, yields it exactly once and skips an element "
                "only when it is already memoised; set_iterable / __post_init__ store a generator expression over the "
                "supplied iterable (nothing is consumed); extract_selected_variable_and_expression wraps the domain in a lazy "
                "filter; (iii) every evaluator on the single-variable path consumes callee streams only through for-loops "
                "that yield inside the iteration that found the row (clause L is structural in the executor: a materialising "
                "consumer of a stream is reported), and QueryObjectDescriptor no longer combines selected expressions with "
                "itertools.product.",
                note="'exactly the prefix ending at the k-th qualifying element' is the composition of these facts along the "
                     "operator chain (A9); the one-shot-iterator stand-in measures it natively (bounded); generator "
                     "expressions / filter are lazy (A6)"),
    'C13': dict(level=P, text="update_domain_and_kwargs_from_args: for every argument layout (domain given or not, 0..2 positional "
                "fields, pre-existing keywords) the j-th positional field binds the j-th constructor parameter, keywords are "
                "kept, a domain that is not first is rejected. extract_selected_variable_and_expression: an iterable domain is "
                "replaced by the lazy filter of itself whose predicate is isinstance(., T), a Variable of type T is built over "
                "it and the field constraints go unchanged to properties_to_expression_tree.",
                note="properties_to_expression_tree / symbolic_new's wrapping (An(Entity(expr, [var]))) are exercised by the "
                     "bounded predicate-form stand-in, not proved; equivalence with the explicit query then rests on C01/C02; "
                     "argument lists longer than 3 follow the same loop (the spine is concrete in the proof)"),
    'C04': dict(level=P, text="Quiescent-state invariant by exit paths: An.evaluate and The.evaluate reset the whole expression "
                "graph on every exit (normal, abandoned at a yield, exception out of user code); _reset_cache_ resets the node "
                "and every child, _reset_only_my_cache_ re-creates both de-duplication sets, the per-parent sets and the "
                "evaluation parent; a coverage lookup (SeenSet.check, IndexedCache.check) never records coverage, so an "
                "abandoned evaluation leaves no cache entry that claims completeness. Histories then follow by induction.",
                note="the bounded history stand-in (native, random histories of full / partial / aborted evaluations incl. a "
                     "domain listing an object twice) exercises what the induction argues and is not counted as proved; "
                     "operator caches are keyed by object identity: data mutated between evaluations is outside 'unchanged data'"),
    'C05': dict(level='other', text="What the operators write into their result caches (cache on, nothing covered yet): the truth value "
                "stored with a row is the one the row is yielded with and the stored binding is part of that row "
                "(Comparator, AND, ElseIf); coverage is recorded only by insertions (SeenSet.add / check contracts, "
                "IndexedCache.check), never by lookups.",
                note="the replay side (hit branch == miss branch under coherence) depends on IndexedCache.retrieve, which is "
                     "outside the executor's heap model (exhaustive bounded stand-in under C20; its defect was repaired by "
                     "db0fee5, together with the operators replaying only the most general matching entries); it is covered by "
                     "the bounded families 'cache on vs off', 'conjunctions of disjunctions over three variables' and the "
                     "rule-tree and flattened-element families only, labelled bounded. Level other: the replay half of the property - "
                     "the half that makes the cache transparent - is decided by bounded families only (they found three "
                     "defects, repaired by 76dd8f9, db0fee5 and 488f548), so no proof-level claim is made"),
    'C20': dict(level='other', text="SeenSet.add / check / clear and IndexedCache.check are proved against the abstract view "
                "(list of stored constraints + all_seen): check(q) <=> all_seen or some stored constraint is contained in q, "
                "lookups are pure, add appends, clear empties. IndexedCache.insert / retrieve (nested-dict trie, recursive "
                "generator) are outside the executor's heap model: exhaustive bounded stand-in on the real code (2 keys quick / "
                "3 keys thorough, alphabet 2, up to 3 inserts incl. the flat store, a clear() at every position, every lookup).",
                note="level other: the retrieval half of the property is decided by the exhaustive bounded check only (the "
                     "defect it found - retrieve followed either the concrete or the open branch of a level, never both - was "
                     "repaired by db0fee5)"),
    'C12': dict(level='other', text="Branch attachment (rule.refinement, rule.alternative_or_next; every obligation from the current "
                "source, the climb loop by invariant Top0(current_node) == Top0(current)): the new ExceptIf wraps the current "
                "rule, the new Alternative / Next wraps the top of the whole rule (past every refinement that wraps it and every "
                "alternative already attached), the new node takes exactly the slot of what it wraps and no other operand of "
                "any node changes (nothing attached earlier is lost). Conclusion selection, result cache off: ExceptIf._evaluate__ "
                "and Alternative._evaluate__ proved against the interface plus clause S1 (at every yield the node's conclusion set "
                "is the one the rule tree prescribes: the refinement's if it holds for the row, else the refined rule's; the "
                "first branch of an else-if chain that holds, nothing otherwise; cleared after every row; modulo "
                "update_conclusion's de-duplication, which has its own contract), with ElseIf._evaluate__ re-proved with the "
                "extra clause S2 (operand flags and operand conclusion sets at each yield) that Alternative relies on.",
                note="level other: part bounded. The de-duplication of conclusions that do not mention every variable (record per "
                     "set of conclusions, reset per evaluation, retraction when a refinement replaces the selection: contracts "
                     "UpdateConclusion, SelectorReset, RetractConclusion, ExceptIfEval's retract clauses) is proved function by "
                     "function; that these pieces add up to 'each conclusion drawn once per binding of its variables' over a "
                     "whole evaluation, the behaviour with the result cache on (the else-if never replays a selector operand: "
                     "proved; the rest: bounded), Next / Union and the application of the selected conclusions by the descriptor "
                     "(Add / Set, QueryObjectDescriptor._evaluate_ in rule mode) are covered by the bounded rule-tree stand-ins only "
                     "(random trees over one and two variables against a recursive reference reading, evaluated twice; the six "
                     "defects they found were repaired: ae7a143, 0fc64a0, 7ccd92c, 76dd8f9, 1427248 and earlier ones); assumption RT"),
    'C14': dict(level='other', text="Function contracts of the registry mechanism, each proved from the current source: symbol(cls) "
                "installs hybrid_new as __new__ (and nothing else) with the class's own __new__ or object.__new__ as allocator; "
                "hybrid_new registers nothing and allocates nothing in symbolic mode and calls "
                "instantiate_class_and_update_cache exactly once otherwise, forwarding the arguments; "
                "instantiate_class_and_update_cache allocates exactly one instance and inserts exactly that instance once, "
                "under the class being constructed, into the flat store; get_cache_keys_for_class_ returns exactly the "
                "registered classes that are subclasses of the requested type, each once (0..3 registered keys, symbolic "
                "class relations).",
                note="level other: 'for every history' is the induction over construction histories (A9) composed with CPython's "
                     "type.__call__ protocol (A2: __init__ is skipped when __new__ returns a non-instance; subclasses inherit "
                     "__new__); IndexedCache's flat store and the no-domain branch of Variable._evaluate__ are covered by the "
                     "bounded registry-history stand-in (random histories of concrete / symbolic construction, clearing, "
                     "queries at once and deferred, rule inference, over a hierarchy four levels deep with undecorated subclasses and a hand-written __init__), not proved"),
    'C11': dict(level='other', text="The constructing branch of an inferred variable, every obligation from the current source: "
                "Variable._instantiate_new_values_and_yield_results_ (all constructor arguments bound) calls the class exactly "
                "once per binding with exactly the head's fields, field f receiving the very object bound for its expression "
                "in that binding's row (.value of the HashedValue, no copy, rows never mixed) and hands the instance on with the "
                "same rows; Variable._process_output_and_update_values_ yields exactly one row for an inferred instance whatever "
                "its truthiness, binding the variable to that very instance and keeping every argument binding; "
                "Infer.__post_init__ marks every selected variable as to-be-inferred.",
                note="level other: that the argument rows are the bindings of ONE satisfying assignment and that there is one call "
                     "per assignment is the composition with the interface contract of the argument expressions and of the "
                     "descriptor loop (A9), plus itertools.product in generate_combinations (A6): exercised by the bounded "
                     "inference stand-in only; constructor arguments still unbound at the call "
                     "(_bind_unbound_kwargs_and_yield_results_) and symbolic_new's rule-mode branch are not under contract; "
                     "nested constructors in a head are not covered (semantics not settled by the property)"),
})
NOT_APPLICABLE = {}


# ---------------------------------------------------------------------------------------------------------------------
# Bounded stand-ins (native, real package): labelled `bounded` in the evidence, never counted as discharged.  They cover
# what the deductive obligations do not state (order / multiplicity of rows) and serve as the fall-back when a changed
# function leaves the verifier's subset.
def _oracle(label, cases_quick, cases_thorough, **family):
    return {'label': label, 'family': family, 'cases': (cases_quick, cases_thorough)}


ORACLES = {
    'C01': [_oracle('single-variable, and/or/not', 250, 3000, nvars=1, depth=3, neg=True, nested_neg=True),
            _oracle('single-variable, constants that are collections: membership of a value in a list constant, a list attribute '
                    'compared with a list constant', 150, 2000, nvars=1, depth=2, neg=True, vocab=['member', 'listeq', 'cmp', 'contains']),
            _oracle('single-variable, bare attribute / index expressions of any type as conditions (truthiness), falsy data', 200, 3000,
                    nvars=1, depth=2, neg=True, nested_neg=True, falsy=True, vocab=['truthy', 'truth', 'cmp', 'name']),
            _oracle('single-variable over distinct objects that compare equal (plain dataclass), comparisons with the constant '
                    'None (names may be None)', 200, 3000, nvars=1, depth=3, neg=True, nested_neg=True, n=5, equal_values=True,
                    none_names=True, vocab=['cmp', 'name', 'none', 'contains', 'call']),
            _oracle('single-variable, comparisons with the constant None', 100, 1500, nvars=1, depth=2, neg=True, none_names=True,
                    vocab=['cmp', 'name', 'none']),
            _oracle('one comparison object standing at two places of the condition (and_ / or_ nestings)', 100, 1500, kind='reuse',
                    shared_condition=True),
            _oracle('an explicitly supplied domain, also an empty one, is never replaced by the registry (let and predicate form)',
                    100, 1500, kind='predform', allow_empty=True)],
    'C02': [_oracle('two variables over distinct objects that compare equal, join conditions', 100, 1500, nvars=2, depth=2, neg=False,
                    n=4, equal_values=True, vocab=['cmp', 'name']),
            _oracle('two variables, join conditions', 150, 2000, nvars=2, depth=2, neg=False, vocab=['cmp', 'name']),
            _oracle('three variables', 40, 600, nvars=3, depth=2, neg=False, vocab=['cmp'], n=2),
            _oracle('two variables, literal-free conditions (result caches are hit)', 150, 2000, nvars=2, depth=3, neg=True,
                    vocab=['cmp', 'name'], nolit=True),
            _oracle('two / three variables, a proper subset selected (set of projected rows)', 150, 2000, nvars=2, depth=3, neg=False,
                    vocab=['cmp', 'name'], project=True),
            _oracle('three variables, a proper subset selected', 60, 800, nvars=3, depth=2, neg=False, vocab=['cmp', 'name'], n=2,
                    project=True),
            _oracle('selected variables and attribute expressions, one row per assignment', 100, 1500, kind='select'),
            _oracle('differential: and_/or_ of 2-3 operands nested three levels over three integer attributes and a list, 2-3 '
                    'variables, four spellings each (declaration order, listing order, & | vs and_ or_, conjuncts one by one, '
                    'domain permutation), evaluated twice', 100, 2000, kind='fuzzq'),
            _oracle('conjunctions of disjunctions over three variables, literal-free (result caches receive entries over some '
                    'of their keys next to entries over all of them)', 300, 4000, kind='fuzzq', shape='and_of_ors', nvars=3, nolit=True),
            _oracle('one unselected variable ranges over an EMPTY domain: the product of the domains is empty, no row is returned '
                    'whatever the condition', 100, 1500, kind='empty_unselected')],
    'C03': [_oracle('nested negation, one variable', 200, 3000, nvars=1, depth=3, neg=True, nested_neg=True),
            _oracle('nested negation, two variables', 100, 1500, nvars=2, depth=2, neg=True, nested_neg=True),
            _oracle('negated predicates (function and class form) and bare expressions', 150, 2000, nvars=1, depth=2, neg=True,
                    nested_neg=True, falsy=True, vocab=['pred', 'truthy', 'cmp'])],
    'C06': [_oracle('the() vs number of solutions, evaluated twice', 200, 3000, kind='the'),
            _oracle('the() with a unique / no / several solutions (threshold conditions)', 150, 2000, kind='the', n=4, distinct_sizes=True),
            _oracle('the() over and_(or_(..), .., ..), evaluated twice', 100, 1500, kind='the', n=4, distinct_sizes=True, shape='and_or'),
            _oracle('the() over equal-looking distinct instances', 60, 600, kind='the', equal_instances=True),
            _oracle('the() used inside another query: correlated with an outer variable; as the selected term of an enclosing '
                    'the / an / set_of with a further condition', 200, 3000, kind='the_nested'),
            _oracle('the() evaluated inside a symbolic block', 60, 600, kind='the', inside='query'),
            _oracle('the(set_of(...)): none / one / several solutions', 100, 1500, kind='the', n=4, distinct_sizes=True, setof=True),
            _oracle('the() with predicates, inside a rule block', 60, 800, kind='the', inside='rule', vocab=['pred', 'cmp'], n=4,
                    distinct_sizes=True),
            _oracle('the() with predicates, inside a query block', 60, 800, kind='the', inside='query', vocab=['pred', 'cmp'], n=4,
                    distinct_sizes=True)],
    'C08': [_oracle('interleavings of blocks, expression blocks, operator uses, constructions and result iterators', 200, 3000,
                    kind='modes', steps=10, setof=True),
            _oracle('a @predicate call inside a rule block builds an expression; infer consumed under each ambient mode', 60, 600,
                    kind='infer_modes')],
    'C09': [_oracle('predicates evaluated under interleaved modes (entity and set_of queries)', 200, 3000, kind='modes', steps=8,
                    predicates=True, setof=True),
            _oracle('the(set_of) with predicates, inside a rule block', 60, 800, kind='the', inside='rule', vocab=['pred', 'cmp'], n=4,
                    distinct_sizes=True, setof=True),
            _oracle('the() with predicates, inside a rule block', 80, 800, kind='the', inside='rule', vocab=['pred', 'cmp'], n=4, distinct_sizes=True),
            _oracle('the() with predicates, inside a query block', 80, 800, kind='the', inside='query', vocab=['pred', 'cmp'], n=4, distinct_sizes=True),
            _oracle('an() with predicates and attribute conditions', 100, 1500, nvars=1, depth=2, vocab=['pred', 'cmp', 'name'], neg=True),
            _oracle('predicates inside a sub-query used as a domain, under each ambient mode', 60, 800, kind='domain_subquery'),
            _oracle('infer with class / function predicates consumed under each ambient mode (none, query block, rule block, the '
                    "rule's own block); a @predicate call inside a rule block builds an expression", 80, 1000, kind='infer_modes')],
    'C15': [_oracle('an(entity) sub-query as a condition, and/or', 150, 2000, kind='subquery'),
            _oracle('correlated sub-query (its condition mentions the outer variable) after other conditions', 150, 2000,
                    kind='subquery', correlated=True),
            _oracle('the(entity) as a comparison operand, correlated with the enclosing query', 100, 1500, kind='the_operand'),
            _oracle('a sub-query reached with its own variable already bound that binds a further variable (every match comes up)',
                    100, 1500, kind='subquery', binds_new=True),
            _oracle('one sub-query object used as a condition in several places of the enclosing condition, evaluated twice', 150,
                    2000, kind='subquery', shared=True),
            _oracle('the() used inside another query: correlated with an outer variable; as the selected term of an enclosing '
                    'the / an / set_of with a further condition', 100, 1500, kind='the_nested'),
            _oracle('an attribute of a sub-query as a bare condition or as a comparison operand, combined with another condition '
                    'by and_ / or_ in either operand order', 150, 2000, kind='subquery_operand')],
    'C07': [_oracle('one-shot iterator domains: pulls per result, nothing pulled twice (cache on)', 200, 3000, kind='lazy'),
            _oracle('one-shot iterator domains (cache off)', 100, 1500, kind='lazy', caching=False),
            _oracle('one-shot iterator domains, conditions built from predicates (function and class form, one or two arguments)', 150,
                    2500, kind='lazy', vocab=['pred', 'pred1', 'cmp', 'pred1']),
            _oracle('one-shot iterator domains of 25 elements, no condition at all (an(entity(x)), an(x), an(set_of([x]))): the '
                    'k-th result after exactly k pulls', 60, 600, kind='lazy', no_condition=True, n=25)],
    'C10': [_oracle('for_all over conditions mentioning the universal variable, the free variables, both or neither', 250, 4000, kind='forall'),
            _oracle('for_all, result cache off', 100, 1500, kind='forall', caching=False),
            _oracle('for_all with two free variables over one domain', 100, 1500, kind='forall', two_free=True),
            _oracle('for_all combined: two for_all over one universal variable, a for_all followed by a condition that uses the '
                    'variable existentially, a universal EXPRESSION with falsy values; evaluated twice', 200, 3000, kind='forall',
                    combined=True)],
    'C17': [_oracle('concatenate value and membership / negated membership against it', 200, 3000, kind='concat'),
            _oracle('concatenate with falsy elements', 100, 1500, kind='concat', falsy=True),
            _oracle('concatenate over a flatten of nested collections', 100, 1500, kind='concat', nested=True),
            _oracle('membership against a concatenate as one condition among others (and_ / or_ in either operand order, under '
                    'not_), two concatenates over one parent variable; evaluated twice', 150, 2000, kind='concat', combined=True)],
    'C18': [_oracle('meaning preserving rewrites (swap, re-associate, mirror, contains/in_, declaration order, domain permutation)', 250, 4000, kind='rewrite'),
            _oracle('meaning preserving rewrites of literal-free conditions (result caches are hit)', 250, 4000, kind='rewrite', nolit=True),
            _oracle('re-association / re-ordering of chains of three disjuncts and conjuncts over two variables', 150, 3000, kind='chain3', nolit=True),
            _oracle('differential: four spellings of nested and_/or_ queries over 2-3 variables (declaration order, listing '
                    'order, & | vs and_ or_, mirrored comparisons, contains / in_, conjuncts one by one, domain permutation)', 150,
                    3000, kind='fuzzq'),
            _oracle('four spellings of conjunctions of disjunctions over three variables, literal-free', 200, 3000, kind='fuzzq',
                    shape='and_of_ors', nvars=3, nolit=True),
            _oracle('order of the selected expressions: attributes listed before / after the variable they are taken from', 100,
                    1500, kind='select'),
            _oracle('order of the selected expressions: flattened element listed before its parent', 40, 400, kind='flatten',
                    with_cond=False, select_parent=True, element_first=True, n=4),
            _oracle('operand order of or_ / and_ when one operand is also a selected output', 100, 1500, kind='reuse', both_roles=True)],
    'C11': [_oracle('infer(entity(T(a=x, b=y|y.attr, tag=const), conditions)): constants (None, falsy, iterable), falsy classes, '
                    'bodies with disjunction / negation, zero-solution bodies', 250, 4000, kind='infer'),
            _oracle('inference, conjunctive bodies only', 100, 1500, kind='infer', neg=False, depth=1),
            _oracle('a constructor argument that is also an operand of the or_ in the rule body (falsy values are passed on)', 100, 1500,
                    kind='reuse', both_roles='argument'),
            _oracle('positional arguments of a dataclass whose field order differs from its parameter order (keyword-only base field): rule heads and predicate-form terms', 80, 1200, kind='kwonly_positional')],
    'C12': [_oracle('rule trees: refinement / alternative nested two levels, six shapes', 250, 4000, kind='rdr'),
            _oracle('random rule trees: up to 5 rules, several refinements / alternatives per block, nested two levels', 300, 5000,
                    kind='rdrtree', rules=5, depth=2),
            _oracle('random rule trees: up to 7 rules nested three levels', 100, 3000, kind='rdrtree', rules=7, depth=3, n=6),
            _oracle('random rule trees over two variables (result cache on, the default)', 200, 4000, kind='rdrtree', nvars=2, rules=4,
                    depth=2, n=3),
            _oracle('random rule trees over two variables (result cache off)', 200, 4000, kind='rdrtree', nvars=2, rules=5, depth=3,
                    n=3, caching=False),
            _oracle('rule trees over two variables whose conclusions mention different subsets of the variables (result sets; a '
                    'user-made instance of the concluded type is in the registry), cache off', 200, 4000, kind='rdrtree', nvars=2,
                    rules=4, depth=2, n=3, subset=True, caching=False),
            _oracle('the same, result cache on', 150, 3000, kind='rdrtree', nvars=2, rules=4, depth=2, n=3, subset=True),
            _oracle('a selection that a refinement further up replaces: second refinement (with an alternative) whose conclusions '
                    'mention one variable only, first refinement over the other variable', 150, 2000, kind='rdrtree', nvars=2, n=3,
                    overridden=True),
            _oracle('the same, result cache off', 100, 1500, kind='rdrtree', nvars=2, n=3, overridden=True, caching=False)],
    'C14': [_oracle('registry histories: concrete / symbolic construction, clearing, no-domain queries', 300, 4000, kind='registry'),
            _oracle('registry histories without clearing, 16 steps', 100, 2000, kind='registry', clear=False, steps=16)],
    'C13': [_oracle('predicate form vs explicit query, mixed-type domains, positional and keyword fields', 250, 4000, kind='predform', allow_empty=True),
            _oracle('ONE From(d) object handed to two terms of different types (joined); the From object still holds d afterwards', 120,
                    2000, kind='predform_shared'),
            _oracle('positional arguments of a dataclass whose field order differs from its parameter order (keyword-only base field): rule heads and predicate-form terms', 80, 1200, kind='kwonly_positional')],
    'C04': [_oracle('histories of full / partial / aborted evaluations (result cache on)', 200, 3000, kind='history'),
            _oracle('histories (result cache off)', 100, 1500, kind='history', caching=False),
            _oracle('histories over a domain that lists an object twice', 100, 1500, kind='history', duplicates=True),
            _oracle('rule trees evaluated three times (a user-made instance of the concluded type is in the registry)', 150, 3000,
                    kind='rdrtree', rules=5, depth=2, evals=3),
            _oracle('rule trees evaluated after an evaluation that was abandoned after a few results', 300, 5000, kind='rdrtree',
                    rules=5, depth=2, abandon=True),
            _oracle('the same over two variables', 300, 5000, kind='rdrtree', nvars=2, rules=5, depth=3, n=3, abandon=True),
            _oracle('a rule with a consequent rule (next_rule), evaluated three times, also after an abandoned evaluation', 150,
                    2000, kind='nextrule', abandon=True),
            _oracle('an inferring query whose constructor argument is a keyword-constrained term without a domain, evaluated again '
                    'after abandoned evaluations', 150, 2500, kind='infer_nested'),
            _oracle('one expression object shared by two queries: a condition in the first, a comparison operand in the second', 100,
                    1500, kind='reuse'),
            _oracle('one expression that is a selected output AND a condition in the same query, evaluated twice', 100, 1500,
                    kind='reuse', both_roles=True)],
    'C05': [_oracle('result cache on vs off, first evaluation and re-evaluation', 250, 4000, kind='cache'),
            _oracle('result cache on vs off, literal-free conditions (the ones that hit the operator caches)', 250, 4000, kind='cache',
                    nolit=True),
            _oracle('two variables, literal-free conditions with disjunctions, cache on, evaluated twice', 200, 3000, nvars=2, depth=3,
                    neg=True, vocab=['cmp', 'name'], nolit=True),
            _oracle('conjunctions of disjunctions over three variables, literal-free, cache on (reference = plain Python = '
                    'cache-off reading)', 300, 4000, kind='fuzzq', shape='and_of_ors', nvars=3, nolit=True),
            _oracle('the same, result cache off', 100, 1500, kind='fuzzq', shape='and_of_ors', nvars=3, nolit=True, caching=False),
            _oracle('rule trees over two variables, result cache on (reference = cache-off reading)', 150, 3000, kind='rdrtree',
                    nvars=2, rules=4, depth=2, n=3),
            _oracle('conditions on a flattened element, result cache on (reference = cache-off reading)', 150, 3000, kind='flatten_elem'),
            _oracle('a rule over two variables whose refinement carries a consequent rule (next_rule nested in the refinement '
                    'block), literal-free conditions: cache on vs cache off vs reference, three evaluations', 120, 2000,
                    kind='nextrule_nested')],
    'C16': [_oracle('flatten, parent selected, no condition', 40, 400, kind='flatten', with_cond=False, select_parent=True),
            _oracle('flatten, parent selected, condition', 40, 400, kind='flatten', with_cond=True, select_parent=True),
            _oracle('flatten only, condition', 40, 400, kind='flatten', with_cond=True, select_parent=False, falsy=True),
            _oracle('conditions on the flattened element incl. a @predicate function over the element and its parent, cache on',
                    150, 2000, kind='flatten_elem', predicates=True),
            _oracle('flatten where some parents hold one non-iterable value (an int, a string) instead of a collection', 60, 600,
                    kind='flatten', with_cond=False, select_parent=True, singletons=True, n=4),
            _oracle('conditions on the flattened element itself (and / or / not), result cache off', 200, 3000, kind='flatten_elem',
                    caching=False),
            _oracle('conditions on the flattened element itself, element only selected, result cache off', 100, 1500,
                    kind='flatten_elem', caching=False, select_parent=False),
            _oracle('conditions on the flattened element itself, result cache on (the default)', 150, 3000, kind='flatten_elem'),
            _oracle('flattened element selected BEFORE its parent, no condition', 60, 600, kind='flatten', with_cond=False,
                    select_parent=True, element_first=True, n=4),
            _oracle('flattened element selected before its parent, condition, falsy elements', 40, 400, kind='flatten', with_cond=True,
                    select_parent=True, element_first=True, falsy=True),
            _oracle('or_(and_(condition on the flattened element, literal-free condition on the parent alone), another condition), '
                    'several elements per parent, result cache on', 120, 2000, kind='flatten_elem', n=4, depth=1, or_and_parent=True)],
    'C19': [_oracle('falsy attribute values as operands', 200, 3000, nvars=1, depth=2, falsy=True, neg=True, nested_neg=True),
            _oracle('falsy / None values as selected outputs', 100, 1500, kind='select', single_attr=True),
            _oracle('field constraints with None / falsy values in predicate-form terms', 100, 1500, kind='predform', allow_empty=True),
            _oracle('concatenate over scalar attribute values incl. falsy ones (each counts as one element)', 100, 1500, kind='concat',
                    scalars=True),
            _oracle('an expression object used as a condition, then as an operand', 100, 1500, kind='reuse'),
            _oracle('one expression that is a selected output AND a condition (either operand of or_ / and_) in the same query, '
                    'falsy data, evaluated twice', 150, 2000, kind='reuse', both_roles=True),
            _oracle('one expression that is a constructor argument of an inferred instance AND an operand of the or_ in the same '
                    'rule (head built before or after the condition), falsy data', 150, 2000, kind='reuse', both_roles='argument'),
            _oracle('flatten over collections with falsy elements, parent selected', 60, 600, kind='flatten', with_cond=False,
                    select_parent=True, falsy=True, n=4),
            _oracle('flatten over collections with falsy elements, element only', 60, 600, kind='flatten', with_cond=False,
                    select_parent=False, falsy=True, n=4)],
}


def standins(prop, tier):
    out = []
    for o in ORACLES.get(prop, []):
        out.append({'name': 'oracle', 'label': o['label'], 'bound': 'random small scope, see scope',
                    # thorough: five times the listed number of random cases per family, within a 15 minute budget each
                    'args': {'family': o['family'], 'label': o['label'], 'cases': o['cases'][0] if tier == 'quick' else 5 * o['cases'][1],
                             'budget_s': 60 if tier == 'quick' else 900}, 'timeout': 1200})
    if prop == 'C12':
        out.append({'name': 'C12_retract', 'label': 'SeenSet.add / discard / check, exhaustive',
                    'bound': 'exhaustive: up to 3 (quick) / 4 (thorough) additions from a pool of 6 constraint objects, one discard, '
                             '5 lookups', 'args': {'max_adds': 3 if tier == 'quick' else 4}, 'timeout': 600})
    if prop == 'C05':
        out.append({'name': 'C05_most_general', 'label': 'BinaryOperator._most_general_ (which retrieved cache entries are replayed), exhaustive',
                    'bound': 'exhaustive: lists of <= 3 (quick) / 4 (thorough) entries over the 9 partial assignments of 2 keys and 2 values',
                    'args': {'max_entries': 3 if tier == 'quick' else 4}, 'timeout': 900})
    if prop == 'C20':
        out.append({'name': 'C20_cache', 'label': 'IndexedCache with values wrapped the way the library wraps them (HashedValue(v)), alphabet '
                                                  '-1, -2, True, 1 (equal hashes, different values), exhaustive',
                    'bound': 'exhaustive: 2 keys, alphabet [-1, -2, True, 1], <= 2 insertions, every lookup',
                    'args': {'nkeys': 2, 'max_inserts': 2, 'alphabet': [-1, -2, True, 1], 'library_ids': True, 'budget_s': 300}, 'timeout': 900})
        out.append({'name': 'C20_cache', 'label': 'IndexedCache insert/check/retrieve, exhaustive',
                    'bound': 'exhaustive: 2 keys (quick) / 3 keys (thorough), alphabet 2, <= 3 insertions (empty binding = flat '
                             'store included), a clear() at every position or none, every lookup',
                    'args': {'nkeys': 2, 'max_inserts': 3} if tier == 'quick' else {'nkeys': 3, 'max_inserts': 3, 'budget_s': 900},
                    'timeout': 1200})
    return out
