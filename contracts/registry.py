"""All contracts, by name."""
from . import symbolic_nodes, negation, quantifiers

MODULES = [symbolic_nodes, negation, quantifiers]


def all_contracts():
    out = []
    for m in MODULES:
        out.extend(m.CONTRACTS)
    return out


def by_name(name):
    for c in all_contracts():
        if c.__name__ == name:
            return c
    raise KeyError(name)
