"""C20 (and the coverage part of C05): cache_data.SeenSet.add / check / clear, IndexedCache.check / clear.

Abstract view of a SeenSet: the list of stored constraints (each a finite map key -> HashedValue, compared by id as
HashedValue.__eq__ does) and the flag all_seen.  From the property statement:
    check(q), q binding at least one key   <=>   all_seen  or  some stored constraint c with  c subset-of q
and such a check changes nothing.  IndexedCache.insert / retrieve (nested dict trie, recursive generator) are outside the
executor's heap model: they are covered by the bounded stand-in C20_cache (exhaustive small scope on the real code)."""
from __future__ import annotations

import ast

import z3

from eqlvc import z as Z
from eqlvc.interp import (SV, ZV, C, D, Tup, Lst, Obj, Meth, Closure, Ref, NONE, TRUE, FALSE, State, Outcome,
                          OutOfSubset, NEXT, CONTINUE, BREAK, RETURN, RAISE, GENEXIT)
from eqlvc.libmodel import LibModel, base_modenv

ArrHas = z3.ArraySort(Z.I, Z.ArrIB)     # list index -> has-array of that element
ArrVal = z3.ArraySort(Z.I, Z.ArrIH)
HVID = Z.hv_id
EQ_I = (z3.Int('_a') == z3.Int('_b')).decl()
T_IDS = z3.K(Z.I, z3.BoolVal(True))


def ids(val):
    return z3.Map(HVID, val)


def subset(c: Z.ZMap, a: Z.ZMap):
    """the constraint c is contained in the assignment a (values compared by HashedValue id) - the spec side"""
    return z3.And(z3.Map(Z.IMP_D, c.has, a.has) == T_IDS,
                  z3.Map(z3.If(z3.Bool('_c'), z3.Int('_x'), z3.Int('_y')).decl(), c.has, ids(c.val), ids(a.val)) == ids(a.val))


class SeenSetModel(LibModel):
    modes = ('sound',)
    props = ('C20', 'C05', 'C04')

    def modenv(self):
        return base_modenv()

    def base_state(self, eng):
        st = State()
        self.me = z3.Const('self', Z.Node)          # the SeenSet object (an opaque identity)
        st.locals['self'] = ZV(self.me, 'node')
        st.ghost['n'] = z3.Int('n0')
        st.ghost['Lh'] = z3.Const('Lh0', ArrHas)
        st.ghost['Lv'] = z3.Const('Lv0', ArrVal)
        st.ghost['all_seen'] = z3.Bool('all_seen0')
        st.assume(st.ghost['n'] >= 0)
        return st

    def elem(self, st, i):
        return Z.ZMap(z3.Select(st.ghost['Lh'], i), z3.Select(st.ghost['Lv'], i))

    def getattr(self, eng, st, recv, name):
        if isinstance(recv, ZV) and recv.ty == 'node' and recv.t.eq(self.me):
            if name == 'all_seen':
                return [(st, ZV(st.ghost['all_seen'], 'bool'))]
            if name == 'seen':
                return [(st, Obj('dlist'))]
        return super().getattr(eng, st, recv, name)

    def setattr(self, eng, st, recv, name, v):
        if isinstance(recv, ZV) and recv.ty == 'node' and recv.t.eq(self.me) and name == 'all_seen':
            st = st.clone()
            st.ghost['all_seen'] = eng.to_z3_bool(eng.truth(st, v))
            return [st]
        return super().setattr(eng, st, recv, name, v)

    def obj_dlist_append(self, eng, st, recv, args, kwargs, node):
        (d,) = args
        if not isinstance(d, D):
            raise OutOfSubset("append of a non-dict", node)
        st = st.clone()
        m = st.dicts[d.ref]
        n = st.ghost['n']
        st.ghost['Lh'] = z3.Store(st.ghost['Lh'], n, m.has)
        st.ghost['Lv'] = z3.Store(st.ghost['Lv'], n, m.val)
        st.ghost['n'] = n + 1
        return [(st, NONE)]

    def obj_dlist_clear(self, eng, st, recv, args, kwargs, node):
        st = st.clone()
        st.ghost['n'] = z3.IntVal(0)
        return [(st, NONE)]

    # ---- all(<element> for k, v in d.items()): pointwise semantics of the comprehension, lifted to arrays
    def f_all(self, eng, st, args, kwargs, node):
        (g,) = args
        if not (isinstance(g, Obj) and g.kind == 'genexp'):
            raise OutOfSubset("all()", node)
        e = g.data['node']
        if len(e.generators) != 1 or e.generators[0].ifs:
            raise OutOfSubset("all() over a filtered / nested comprehension", node)
        gen = e.generators[0]
        it = gen.iter
        if not (isinstance(it, ast.Call) and isinstance(it.func, ast.Attribute) and it.func.attr == 'items'
                and isinstance(gen.target, ast.Tuple) and len(gen.target.elts) == 2):
            raise OutOfSubset("all() over something else than dict.items()", node)
        src = eng.eval(it.func.value, st)
        if len(src) != 1 or not isinstance(src[0][1], D):
            raise OutOfSubset("all(): items() of a non-dict", node)
        x = st.dicts[src[0][1].ref]
        kname, vname = gen.target.elts[0].id, gen.target.elts[1].id
        lifted, safe = self.lift(eng, st, e.elt, kname, vname, x)
        eng.oblige(st, f"safe/subscript-in-comprehension@L{node.lineno}", z3.Map(Z.IMP_D, x.has, safe) == T_IDS, line=node.lineno)
        return [(st, ZV(z3.Map(Z.IMP_D, x.has, lifted) == T_IDS, 'bool'))]

    def lift(self, eng, st, e, kname, vname, x):
        """returns (array k -> Bool value of e, array k -> 'no KeyError while evaluating e')"""
        TRUEA, FALSEA = T_IDS, z3.K(Z.I, z3.BoolVal(False))
        if isinstance(e, ast.Constant) and isinstance(e.value, bool):
            return (TRUEA if e.value else FALSEA), TRUEA
        if isinstance(e, ast.IfExp):
            c, cs = self.lift(eng, st, e.test, kname, vname, x)
            t, ts = self.lift(eng, st, e.body, kname, vname, x)
            f, fs = self.lift(eng, st, e.orelse, kname, vname, x)
            return z3.Map(Z.ITE_B, c, t, f), z3.Map(Z.AND_D, cs, z3.Map(Z.ITE_B, c, ts, fs))
        if isinstance(e, ast.Compare) and len(e.ops) == 1 and isinstance(e.ops[0], (ast.In, ast.NotIn)):
            if isinstance(e.left, ast.Name) and e.left.id == kname:
                d = eng.eval(e.comparators[0], st)[0][1]
                if isinstance(d, D):
                    h = st.dicts[d.ref].has
                    return (z3.Map(Z.NOT_D, h) if isinstance(e.ops[0], ast.NotIn) else h), TRUEA
        if isinstance(e, ast.Compare) and len(e.ops) == 1 and isinstance(e.ops[0], (ast.Eq, ast.NotEq)):
            l, ls = self.lift_hv(eng, st, e.left, kname, vname, x)
            r, rs = self.lift_hv(eng, st, e.comparators[0], kname, vname, x)
            eq = z3.Map(EQ_I, ids(l), ids(r))       # HashedValue.__eq__: equality of ids
            return (z3.Map(Z.NOT_D, eq) if isinstance(e.ops[0], ast.NotEq) else eq), z3.Map(Z.AND_D, ls, rs)
        if isinstance(e, ast.BoolOp):
            parts = [self.lift(eng, st, v, kname, vname, x) for v in e.values]
            d = Z.AND_D if isinstance(e.op, ast.And) else Z.OR_D
            acc, safe = parts[0]
            for p, ps in parts[1:]:
                # short circuit: the later operand is only evaluated when the earlier ones do not decide
                need = acc if isinstance(e.op, ast.And) else z3.Map(Z.NOT_D, acc)
                safe = z3.Map(Z.AND_D, safe, z3.Map(Z.IMP_D, need, ps))
                acc = z3.Map(d, acc, p)
            return acc, safe
        raise OutOfSubset(f"comprehension element {ast.dump(e)[:60]}", e)

    def lift_hv(self, eng, st, e, kname, vname, x):
        TRUEA = T_IDS
        if isinstance(e, ast.Name) and e.id == vname:
            return x.val, TRUEA
        if isinstance(e, ast.Subscript) and isinstance(e.slice, ast.Name) and e.slice.id == kname:
            d = eng.eval(e.value, st)[0][1]
            if isinstance(d, D):
                m = st.dicts[d.ref]
                return m.val, m.has
        raise OutOfSubset("comprehension operand", e)

    # ---- loop over the stored constraints: arbitrary element; on exhaustion every element took a non-exiting path
    def abstract_loop(self, eng, st, s, it, ordinal):
        if not (isinstance(it, Obj) and it.kind == 'dlist'):
            return super().abstract_loop(eng, st, s, it, ordinal)
        j = z3.FreshConst(Z.I, 'j')
        b = st.clone()
        b.assume(j >= 0, j < st.ghost['n'])
        b.ghost['loop_index'] = j
        elem = eng.new_dict(b, self.elem(b, j))
        base = len(b.pc)
        outs = []
        stay = []
        for b2 in eng.assign(s.target, elem, b):
            for o in eng.exec_block(s.body, b2):
                if o.sig in (NEXT, CONTINUE):
                    stay.append(z3.And(*o.st.pc[base:]) if len(o.st.pc) > base else z3.BoolVal(True))
                elif o.sig == BREAK:
                    outs.append(Outcome(o.st))
                else:
                    outs.append(o)
        # exhausted: for EVERY index the body took one of its non-exiting paths (the body does not write the state)
        e = st.clone()
        phi = z3.Or(*stay) if stay else z3.BoolVal(False)
        e.ghost['forall_elems'] = e.ghost.get('forall_elems', []) + [(j, phi)]
        outs.append(Outcome(e))
        return outs

    def instantiate_forall(self, st, idx):
        """facts `for every stored element ...` instantiated at a Skolem index"""
        out = []
        for (j, phi) in st.ghost.get('forall_elems', []):
            out.append(z3.Implies(z3.And(idx >= 0, idx < st.ghost['n']), z3.substitute(phi, (j, idx))))
        return out

    def signature(self, ob, model):
        return {}


class SeenSetCheck(SeenSetModel):
    qual = 'cache_data:SeenSet.check'
    cls = 'SeenSet'

    def setup(self, eng):
        st = self.base_state(eng)
        a = Z.ZMap.fresh('asg')
        d = eng.new_dict(st, a)
        st.locals['assignment'] = d
        st.ghost['a0'] = a
        st.ghost['pre'] = (st.ghost['n'], st.ghost['Lh'], st.ghost['Lv'], st.ghost['all_seen'])
        return [st]

    def on_exit(self, eng, o):
        st = o.st
        a = st.ghost['a0']
        n0, Lh0, Lv0, all0 = st.ghost['pre']
        nonempty = z3.Not(a.is_empty())
        if o.sig != RETURN:
            eng.oblige(st, "post/returns-a-boolean", z3.BoolVal(False))
            return
        res = eng.to_z3_bool(eng.truth(st, o.val))
        # (1) True  =>  all_seen or a stored constraint is contained in the lookup (witness: the index being visited)
        j = st.ghost.get('loop_index')
        wit = subset(Z.ZMap(z3.Select(Lh0, j), z3.Select(Lv0, j)), a) if j is not None else z3.BoolVal(False)
        eng.oblige(st, "C20/check/true-only-if-covered", z3.Implies(res, z3.Or(all0, wit)))
        # (2) False =>  not all_seen and NO stored constraint is contained in the lookup (Skolem index)
        i = z3.Int('i_skolem')
        ci = Z.ZMap(z3.Select(Lh0, i), z3.Select(Lv0, i))
        eng.oblige(st, "C20/check/false-only-if-not-covered",
                   z3.Implies(z3.And(z3.Not(res), i >= 0, i < n0), z3.And(z3.Not(all0), z3.Not(subset(ci, a)))),
                   hyp=self.instantiate_forall(st, i))
        # (3) a lookup changes nothing (C04 / C05: coverage is only recorded by insertions)
        eng.oblige(st, "C20/check/lookup-is-pure",
                   z3.And(st.ghost['n'] == n0, st.ghost['Lh'] == Lh0, st.ghost['Lv'] == Lv0, st.ghost['all_seen'] == all0))


class SeenSetAdd(SeenSetModel):
    qual = 'cache_data:SeenSet.add'
    cls = 'SeenSet'

    def setup(self, eng):
        st = self.base_state(eng)
        a = Z.ZMap.fresh('asg')
        d = eng.new_dict(st, a)
        st.locals['assignment'] = d
        st.ghost['a0'] = a
        st.ghost['pre'] = (st.ghost['n'], st.ghost['Lh'], st.ghost['Lv'], st.ghost['all_seen'])
        return [st]

    def on_exit(self, eng, o):
        st = o.st
        a = st.ghost['a0']
        n0, Lh0, Lv0, all0 = st.ghost['pre']
        if o.sig not in (NEXT, RETURN):
            eng.oblige(st, "post/no-exception", z3.BoolVal(False))
            return
        stored = z3.And(st.ghost['n'] == n0 + 1, z3.Select(st.ghost['Lh'], n0) == a.has,
                        z3.Select(st.ghost['Lv'], n0) == a.val)
        i = z3.Int('i_skolem')
        kept = z3.Implies(z3.And(i >= 0, i < n0), z3.And(z3.Select(st.ghost['Lh'], i) == z3.Select(Lh0, i),
                                                         z3.Select(st.ghost['Lv'], i) == z3.Select(Lv0, i)))
        eng.oblige(st, "C20/add/appends-the-constraint", z3.Implies(z3.Not(all0), z3.And(stored, kept)))
        eng.oblige(st, "C20/add/all_seen-iff-empty-constraint-stored",
                   st.ghost['all_seen'] == z3.Or(all0, a.is_empty()))
        eng.oblige(st, "C20/add/no-op-when-everything-is-covered",
                   z3.Implies(all0, z3.And(st.ghost['n'] == n0, st.ghost['Lh'] == Lh0, st.ghost['Lv'] == Lv0)))


class SeenSetClear(SeenSetModel):
    qual = 'cache_data:SeenSet.clear'
    cls = 'SeenSet'

    def setup(self, eng):
        return [self.base_state(eng)]

    def on_exit(self, eng, o):
        st = o.st
        eng.oblige(st, "C20/clear/empties", z3.And(st.ghost['n'] == 0, z3.Not(st.ghost['all_seen'])))


CONTRACTS = [SeenSetCheck, SeenSetAdd, SeenSetClear]


class IndexedCacheCheck(LibModel):
    """IndexedCache.check: the coverage question is asked for the lookup restricted to the cache's keys, and its answer
    is returned unchanged (SeenSet.check's own contract does the rest)."""
    qual = 'cache_data:IndexedCache.check'
    cls = 'IndexedCache'
    props = ('C20', 'C05')
    modes = ('sound',)

    def modenv(self):
        return base_modenv()

    def setup(self, eng):
        st = State()
        self.me = z3.Const('self', Z.Node)
        st.locals['self'] = ZV(self.me, 'node')
        a = Z.ZMap.fresh('asg')
        d = eng.new_dict(st, a)
        st.locals['assignment'] = d
        st.ghost['a_ref'] = d.ref
        st.ghost['a0'] = a
        self.keys = z3.Const('cache_keys', Z.ArrIB)
        self.answer = z3.Bool('seen_set_answer')
        return [st]

    def getattr(self, eng, st, recv, name):
        if isinstance(recv, ZV) and recv.ty == 'node' and recv.t.eq(self.me):
            if name == 'keys':
                return [(st, Obj('keylist', {'ids': self.keys}))]
            if name == 'seen_set':
                return [(st, Obj('seenset'))]
        return super().getattr(eng, st, recv, name)

    def obj_seenset_check(self, eng, st, recv, args, kwargs, node):
        (d,) = args
        st = st.clone()
        st.ghost['asked'] = st.dicts[d.ref] if isinstance(d, D) else None
        return [(st, ZV(self.answer, 'bool'))]

    def on_exit(self, eng, o):
        st = o.st
        if o.sig != RETURN:
            eng.oblige(st, "C20/cache-check/returns", z3.BoolVal(False))
            return
        asked = st.ghost.get('asked')
        want = st.ghost['a0'].restrict(self.keys)
        eng.oblige(st, "C20/cache-check/asks-for-the-lookup-restricted-to-the-keys",
                   asked.same(want) if asked is not None else z3.BoolVal(False))
        eng.oblige(st, "C20/cache-check/returns-the-coverage-answer",
                   eng.to_z3_bool(eng.truth(st, o.val)) == self.answer)
        eng.oblige(st, "C20/cache-check/does-not-modify-the-lookup", st.dicts[st.ghost['a_ref']].same(st.ghost['a0']))

    def signature(self, ob, model):
        return {}


CONTRACTS += [IndexedCacheCheck]


class IndexedCacheClear(LibModel):
    """IndexedCache.clear(): afterwards nothing is stored and nothing is covered: the index tree, the coverage list AND the
    flat store are all emptied (C20: check / retrieve agree after a clear; C04 / C14: a cleared registry is empty)"""
    qual = 'cache_data:IndexedCache.clear'
    cls = 'IndexedCache'
    props = ('C20', 'C04', 'C14')
    modes = ('sound',)
    PARTS = ('cache', 'seen_set', 'flat_cache')

    def modenv(self):
        return base_modenv()

    def setup(self, eng):
        st = State()
        me = z3.Const('self', Z.Node)
        st.ghost['self'] = me
        st.locals['self'] = ZV(me, 'node')
        st.ghost['cleared'] = []
        return [st]

    def getattr(self, eng, st, recv, name):
        if isinstance(recv, ZV) and recv.ty == 'node' and recv.t.eq(st.ghost['self']):
            if name in self.PARTS:
                return [(st, Obj('part', {'name': name}))]
            if name in ('_keys', 'keys'):
                return [(st, Obj('keys', {}))]
        if isinstance(recv, Obj) and recv.kind == 'part':
            return [(st, Meth(recv, name))]
        return super().getattr(eng, st, recv, name)

    def setattr(self, eng, st, recv, name, v):
        if isinstance(recv, ZV) and recv.ty == 'node' and name == 'keys':
            # the keys setter re-sorts the keys and clears the index tree and the coverage list (not the flat store)
            st = st.clone()
            st.ghost['cleared'] = st.ghost['cleared'] + ['cache', 'seen_set']
            return [st]
        if isinstance(recv, ZV) and recv.ty == 'node' and name in ('enter_count', 'search_count'):
            return [st]
        return None

    def call(self, eng, st, f, args, kwargs, node):
        if isinstance(f, Meth) and isinstance(f.recv, Obj) and f.recv.kind == 'part' and f.name == 'clear':
            st = st.clone()
            st.ghost['cleared'] = st.ghost['cleared'] + [f.recv.data['name']]
            return [(st, NONE)]
        return super().call(eng, st, f, args, kwargs, node)

    def on_exit(self, eng, o):
        st = o.st
        if o.sig not in (NEXT, RETURN):
            eng.oblige(st, "C20/clear/finishes-normally", z3.BoolVal(False))
            return
        for part in self.PARTS:
            eng.oblige(st, f"C20/clear/empties-the-{part.replace('_', '-')}", z3.BoolVal(part in st.ghost['cleared']))

    def signature(self, ob, model):
        return {}


CONTRACTS = CONTRACTS + [IndexedCacheClear]
