"""hashed_data.HashedIterable (C07, C04): the lazily consumed, memoised domain.

Abstract view: `values` (dict id -> HashedValue, the memo) and `iterable` (the not yet consumed rest of the user's
iterator).  __iter__: first replays the memo, then pulls the rest ONE element at a time, storing each element in the memo
before it is yielded (so nothing is ever requested from the user's iterator twice, and re-iteration replays then
continues); set_iterable / __post_init__ wrap the user's iterable in a generator expression (nothing is consumed)."""
from __future__ import annotations

import ast

import z3

from eqlvc import z as Z
from eqlvc.interp import (SV, ZV, C, D, Tup, Lst, Obj, Meth, Closure, Ref, NONE, TRUE, FALSE, State, Outcome,
                          OutOfSubset, NEXT, CONTINUE, BREAK, RETURN, RAISE, GENEXIT)
from eqlvc.libmodel import LibModel, base_modenv


class HashedIterableIter(LibModel):
    qual = 'hashed_data:HashedIterable.__iter__'
    cls = 'HashedIterable'
    props = ('C07', 'C04', 'C01')
    modes = ('sound',)
    trusted = ("dict.values() replays the memo in insertion order (A6)",)

    def modenv(self):
        return base_modenv()

    def setup(self, eng):
        st = State()
        self.me = z3.Const('self', Z.Node)
        st.locals['self'] = ZV(self.me, 'node')
        memo = Z.ZMap.fresh('memo')
        st.ghost['memo_ref'] = eng.new_dict(st, memo).ref
        st.ghost['memo0'] = memo
        st.ghost['pulled_this_iteration'] = 0
        st.ghost['phase'] = 'replay'
        return [st]

    def getattr(self, eng, st, recv, name):
        if isinstance(recv, ZV) and recv.ty == 'node' and recv.t.eq(self.me):
            if name == 'values':
                return [(st, D(st.ghost['memo_ref']))]
            if name == 'iterable':
                return [(st, Obj('rest_of_user_iterator'))]
        return super().getattr(eng, st, recv, name)

    def dict_values(self, eng, st, recv, args, kwargs, node):
        return [(st, Obj('memo_values'))]

    def yield_from(self, eng, st, src, ordinal, node):
        if isinstance(src, Obj) and src.kind == 'memo_values':
            # replay of the memo: arbitrary stored element
            k = z3.FreshConst(Z.I, 'memo_key')
            b = st.clone()
            m = b.dicts[b.ghost['memo_ref']]
            b.assume(m.contains(k))
            outs = [Outcome(x) for x in self.on_yield(eng, b, ZV(m.get(k), 'hv'), ordinal, node)]
            e = st.clone()
            e.ghost['phase'] = 'pull'
            # the consumer may ... nothing: the memo is only written by this class
            return [Outcome(e)]
        raise OutOfSubset(f"yield from {src}", node)

    def abstract_loop(self, eng, st, s, it, ordinal):
        if not (isinstance(it, Obj) and it.kind == 'rest_of_user_iterator'):
            return super().abstract_loop(eng, st, s, it, ordinal)
        # the memo grows across iterations: arbitrary earlier growth
        h = st.clone()
        grown = Z.ZMap.fresh('memo_now')
        h.assume(grown.extends(h.dicts[h.ghost['memo_ref']]))
        h.dicts[h.ghost['memo_ref']] = grown
        b = h.clone()
        v = z3.FreshConst(Z.HV, 'pulled')
        b.ghost['pulled'] = v
        b.ghost['pulled_this_iteration'] = 1
        b.ghost['yielded_this_iteration'] = 0
        outs = []
        for b2 in eng.assign(s.target, ZV(v, 'hv'), b):
            for o in eng.exec_block(s.body, b2):
                if o.sig in (NEXT, CONTINUE):
                    m = o.st.dicts[o.st.ghost['memo_ref']]
                    eng.oblige(o.st, "C07/iter/every-pulled-element-is-memoised", z3.And(m.contains(Z.hv_id(v))), line=s.lineno)
                    eng.oblige(o.st, "C04/iter/the-memo-only-grows", m.extends(grown), line=s.lineno)
                    # a skipped element must already be in the memo (it was delivered by the replay)
                    eng.oblige(o.st, "C01/iter/an-element-is-skipped-only-if-already-memoised",
                               z3.BoolVal(True) if o.st.ghost.get('yielded_this_iteration') else grown.contains(Z.hv_id(v)),
                               line=s.lineno)
                elif o.sig == BREAK:
                    outs.append(Outcome(o.st))
                else:
                    outs.append(o)
        outs.append(Outcome(h))
        return outs

    def on_yield(self, eng, st, v, ordinal, node):
        st = st.clone()
        if not (isinstance(v, ZV) and v.ty == 'hv'):
            raise OutOfSubset("yield of a non HashedValue", node)
        m = st.dicts[st.ghost['memo_ref']]
        if st.ghost.get('pulled') is not None:
            eng.oblige(st, f"C07/iter@yield#{ordinal}/yields-the-element-just-pulled", v.t == st.ghost['pulled'], line=node.lineno)
            eng.oblige(st, f"C07/iter@yield#{ordinal}/memoised-before-it-is-yielded",
                       z3.And(m.contains(Z.hv_id(v.t)), m.get(Z.hv_id(v.t)) == v.t), line=node.lineno)
            st.ghost['yielded_this_iteration'] = st.ghost.get('yielded_this_iteration', 0) + 1
            eng.oblige(st, f"C07/iter@yield#{ordinal}/one-yield-per-pulled-element", z3.BoolVal(st.ghost['yielded_this_iteration'] == 1),
                       line=node.lineno)
        else:
            eng.oblige(st, f"C07/iter@yield#{ordinal}/replays-a-memoised-element",
                       z3.Exists([z3.Int('kq')], z3.And(m.contains(z3.Int('kq')), m.get(z3.Int('kq')) == v.t)), line=node.lineno)
        eng.oblige(st, f"cover@yield#{ordinal}", z3.BoolVal(True), kind='cover', line=node.lineno)
        return [st]

    def on_exit(self, eng, o):
        if o.sig == RAISE:
            eng.oblige(o.st, "C07/iter/no-exception", z3.BoolVal(False))

    def signature(self, ob, model):
        return {}


class HashedIterableSetIterable(LibModel):
    """set_iterable: the user's iterable is wrapped in a generator expression (lazy, A6) - nothing is consumed"""
    qual = 'hashed_data:HashedIterable.set_iterable'
    cls = 'HashedIterable'
    props = ('C07',)
    modes = ('sound',)

    def modenv(self):
        return base_modenv()

    def setup(self, eng):
        st = State()
        self.me = z3.Const('self', Z.Node)
        st.locals['self'] = ZV(self.me, 'node')
        st.locals['iterable'] = Obj('userdomain', {})
        st.ghost['stored'] = None
        return [st]

    def obj_truth(self, eng, st, v):
        if v.kind == 'userdomain':
            return z3.Bool('user_iterable_truthy')
        return None

    def f_isinstance(self, eng, st, args, kwargs, node):
        o, cls = args
        if isinstance(o, Obj) and o.kind == 'userdomain':
            return [(st, ZV(z3.Bool('is_hashed_iterable'), 'bool'))]
        return super().f_isinstance(eng, st, args, kwargs, node)

    def setattr(self, eng, st, recv, name, v):
        if isinstance(recv, ZV) and recv.t.eq(self.me) and name == 'iterable':
            st = st.clone()
            st.ghost['stored'] = v
            return [st]
        return super().setattr(eng, st, recv, name, v)

    def _consume(self, eng, st, args, kwargs, node):
        st = st.clone()
        st.ghost['materialised'] = True
        return [(st, Obj('materialised'))]

    f_list = f_tuple = f_sorted = _consume

    def listcomp(self, eng, st, e):
        st = st.clone()
        st.ghost['materialised'] = True
        return [(st, Obj('materialised'))]

    def on_exit(self, eng, o):
        st = o.st
        v = st.ghost.get('stored')
        eng.oblige(st, "C07/set_iterable/the-iterable-is-not-consumed", z3.BoolVal(not st.ghost.get('materialised')))
        if v is not None:
            ok = isinstance(v, Obj) and v.kind == 'genexp' and isinstance(v.data['node'].generators[0].iter, ast.Name) \
                and v.data['node'].generators[0].iter.id == 'iterable'
            eng.oblige(st, "C07/set_iterable/stores-a-lazy-generator-over-the-given-iterable", z3.BoolVal(bool(ok)))

    def signature(self, ob, model):
        return {}


class HashedIterablePostInit(HashedIterableSetIterable):
    qual = 'hashed_data:HashedIterable.__post_init__'

    def setup(self, eng):
        sts = super().setup(eng)
        return sts

    def getattr(self, eng, st, recv, name):
        if isinstance(recv, ZV) and recv.t.eq(self.me) and name == 'iterable':
            return [(st, st.ghost.get('stored') or Obj('userdomain', {}))]
        return super().getattr(eng, st, recv, name)

    def on_exit(self, eng, o):
        st = o.st
        v = st.ghost.get('stored')
        eng.oblige(st, "C07/post_init/the-iterable-is-not-consumed", z3.BoolVal(not st.ghost.get('materialised')))
        if v is not None:
            g = v.data['node'].generators[0].iter if isinstance(v, Obj) and v.kind == 'genexp' else None
            ok = g is not None and isinstance(g, ast.Attribute) and g.attr == 'iterable'
            eng.oblige(st, "C07/post_init/stores-a-lazy-generator-over-the-given-iterable", z3.BoolVal(bool(ok)))


CONTRACTS = [HashedIterableIter, HashedIterableSetIterable, HashedIterablePostInit]
